"""A6 LW: waker slots under a mutex.

One idea: a sleeper must test its condition and register atomically; whoever makes the condition true must,
atomically with the change, observe the registration.

LW1  every region that stores Some(waker) into slot W has read every condition field of W earlier in the same region.
LW2  every region that performs an *enabling write* of a condition field of W (a write that can make the sleeper's
     condition true) also takes W in that region, and the taken waker is woken on every path afterwards.
     A function that itself registers in W is the sleeper: its own writes need not wake it.
LW-prov  provenance of the waker stored in a slot (used to justify the one wake made under a lock).

The slot table is explicit (confirmed by reading; one proposed instance was refuted by experiment), not inferred.
"""
from collections import defaultdict

from .facts import short, clean_ty, ty_head, render, expr_root
from .rule import ok, bad, undecided

PSC = 'desync::PipeStreamCore'
SFR = 'desync::SchedulerFutureResult'

# slot -> condition fields and their enabling writes
SLOTS = [
    {'adt': SFR, 'slot': 'waker', 'cls': 'SchedulerFuture.result',
     'cond': {'result': ['assign']},
     'what': 'task awaiting a SchedulerFuture; condition: result available'},
    {'adt': PSC, 'slot': 'notify', 'cls': 'PipeStream.core',
     'cond': {'pending': ['push_back'], 'closed': ['assign']},
     'what': 'consumer of a pipe stream; condition: an output is buffered or the stream is closed'},
    {'adt': PSC, 'slot': 'backpressure_release_notify', 'cls': 'PipeStream.core',
     'cond': {'pending': ['pop_front', 'assign']},
     'what': 'producer throttled by back-pressure; condition: buffer below its depth'},
    {'adt': PSC, 'slot': 'notify_stream_closed', 'cls': 'PipeStream.core',
     'cond': {'closed': ['assign']},
     'what': 'producer waiting for its input; condition: output stream dropped'},
]

# audited exceptions, one reason each
LW1_EXCEPT = {
    ('desync::SchedulerFuture::drain_queue', 'waker'):
        'stored by the token owner while it runs the queue: every signal() happens inside a job of the same queue (checked: LW-owner), '
        'so no notifier can run between the owner\'s test of the result and this store',
}
LW2_EXCEPT = {
    ('<desync::PipeStream as core::ops::drop::Drop>::drop', 'notify'):
        'the consumer is the object being dropped (&mut self): nobody can be polling it',
    ('<desync::PipeStream as core::ops::drop::Drop>::drop', 'backpressure_release_notify'):
        'refuted by experiment (triage d5): the only reference keeping a throttled producer alive is the waker in that slot, which dies with the core',
}

OPTION_SOME = 'core::option::Option::Some'
OPTION_NONE = 'core::option::Option::None'


def _field_of(pl, adt, name=None):
    """Does place pl go through field `name` (any if None) of struct `adt`?  Returns the field name or None."""
    for p in pl['p']:
        if p['k'] == 'field' and (ty_head(clean_ty(p.get('bty', ''))) == adt or (adt is None and (ty_head(clean_ty(p.get('bty', ''))).startswith('desync::') or p.get('was_struct')))) and (name is None or p['n'] == name):
            return p['n']
    return None


def _places_in_rvalue(rv):
    k = rv['k']
    if k in ('ref', 'rawptr', 'discr'):
        yield rv['pl']
    elif k in ('use', 'cast', 'repeat'):
        if rv['op']['k'] in ('copy', 'move'):
            yield rv['op']['pl']
    elif k == 'binop':
        for o in (rv['a'], rv['b']):
            if o['k'] in ('copy', 'move'):
                yield o['pl']
    elif k == 'unop':
        if rv['a']['k'] in ('copy', 'move'):
            yield rv['a']['pl']
    elif k == 'agg':
        for o in rv['ops']:
            if o['k'] in ('copy', 'move'):
                yield o['pl']


class FieldUse:
    """All uses of the fields of one struct in one function: reads, whole-field assignments, method calls on the field."""

    def __init__(self, fn, adt):
        self.fn = fn
        self.reads = defaultdict(list)     # field -> [(bb, idx)]
        self.assigns = defaultdict(list)   # field -> [(bb, idx, value expr)]
        self.calls = defaultdict(list)     # field -> [(bb, method name, term)]
        # temporaries that are references to a field: local -> field
        self.reftemps = {}
        for bb, b in enumerate(fn.blocks):
            if b['cleanup']:
                continue   # 'drop and replace' duplicates an assignment on the unwind path
            for i, s in enumerate(b['stmts']):
                if s['k'] == 'assign':
                    f = _field_of(s['pl'], adt)
                    if f and s['pl']['p'][-1]['k'] == 'field' and s['pl']['p'][-1]['n'] == f:
                        self.assigns[f].append((bb, i, fn.expr_of_rvalue(s['rv'])))
                    for pl in _places_in_rvalue(s['rv']):
                        f2 = _field_of(pl, adt)
                        if f2:
                            self.reads[f2].append((bb, i))
                            if s['rv']['k'] == 'ref' and not s['pl']['p']:
                                self.reftemps[s['pl']['l']] = f2
                elif s['k'] in ('mention', 'fakeread'):
                    pass
        # reborrows and plain moves of such a reference designate the same field (`&mut *tmp`, two-phase borrows)
        changed = True
        while changed:
            changed = False
            for bb, b in enumerate(fn.blocks):
                if b['cleanup']:
                    continue
                for s in b['stmts']:
                    if s['k'] != 'assign' or s['pl']['p'] or s['pl']['l'] in self.reftemps:
                        continue
                    rv = s['rv']
                    src = None
                    if rv['k'] == 'ref' and rv['pl']['p'] and all(p['k'] == 'deref' for p in rv['pl']['p']):
                        src = rv['pl']['l']
                    elif rv['k'] == 'use' and rv['op']['k'] in ('copy', 'move') and not rv['op']['pl']['p']:
                        src = rv['op']['pl']['l']
                    if src is not None and src in self.reftemps and fn.local_ty(s['pl']['l']).strip().startswith('&'):
                        self.reftemps[s['pl']['l']] = self.reftemps[src]
                        changed = True
        for bb, t in fn.calls():
            if fn.blocks[bb]['cleanup']:
                continue
            for a in t['args'][:1]:
                if a['k'] in ('copy', 'move') and not a['pl']['p'] and a['pl']['l'] in self.reftemps:
                    f = self.reftemps[a['pl']['l']]
                    name = t['func'].get('fn') or ''
                    if name in ('core::mem::replace', 'core::mem::take', 'core::mem::swap'):
                        # `let old = mem::replace(&mut x.f, v)` is the assignment `x.f = v` that also hands back the old value
                        if name == 'core::mem::replace' and len(t['args']) > 1:
                            val = fn.expr_of_operand(t['args'][1])
                        elif name == 'core::mem::take':
                            val = ('call', 'core::default::Default::default', [], None)
                        else:
                            val = ('call', 'core::mem::swap', [fn.expr_of_operand(x) for x in t['args'][1:]], None)
                        self.assigns[f].append((bb, len(fn.blocks[bb]['stmts']), val))
                        continue
                    self.calls[f].append((bb, name.split('::')[-1], t))


def _before(fn, dom, a, b):
    """program point a = (bb, idx) is executed before b = (bb, idx) on every path to b (dominance)."""
    if a[0] == b[0]:
        return a[1] < b[1]
    return a[0] in dom.get(b[0], set())


def _guard_live(ctx, fn, cls, bb, idx=None):
    H = ctx.held(fn)
    if idx is None:
        return cls in H.held_at_term(bb) or cls in H.held_before(bb, len(fn.blocks[bb]['stmts']))
    return cls in H.held_before(bb, idx)


def _guards_at(ctx, fn, cls, bb, idx):
    """The holds of lock class `cls` a program point may be under, as acquisition sites: two points are in one critical
    section only if they share a site (a guard that is released and taken again is another section)."""
    H = ctx.held(fn)
    n = len(fn.blocks[bb]['stmts'])
    if idx != 'term':
        return H.holds_before(bb, min(idx, n), cls)
    return H.holds_at_term(bb, cls) | H.holds_before(bb, n, cls)


def _flows_to_wake(ctx, fn, start_local, start_bb):
    """Does the Option<Waker> taken into `start_local` get woken?  Returns list of blocks where the wake (or the
    Option::map that wakes) happens; follows plain moves / tuple packing of the value."""
    from .rules_locks import cg
    tainted = {start_local}
    changed = True
    tuple_fields = {}
    while changed:
        changed = False
        for bb, b in enumerate(fn.blocks):
            for s in b['stmts']:
                if s['k'] != 'assign':
                    continue
                dst = s['pl']['l']
                srcs = [pl['l'] for pl in _places_in_rvalue(s['rv'])]
                if any(x in tainted for x in srcs) and dst not in tainted:
                    tainted.add(dst)
                    changed = True
    sites = []
    # `if let Some(w) = taken { w.wake() }`: the None edge of the test of the taken value owes nothing
    for bb, b in enumerate(fn.blocks):
        t = b['term']
        if t and t['k'] == 'switch' and not b['cleanup']:
            for s in b['stmts']:
                if s['k'] == 'assign' and s['rv']['k'] == 'discr' and s['rv']['pl']['l'] in tainted and not s['rv']['pl']['p']:
                    none = [tb for v, tb in t['targets'] if v == '0']
                    if none:
                        sites.append(none[0])
                    elif not any(v == '0' for v, _ in t['targets']):
                        sites.append(t['otherwise'])
    has_wake = False
    g = cg(ctx)
    for s in g.sites.get(fn.name, []):
        t = s.t
        name = t['func'].get('fn') or ''
        if s.kind == 'hof' and name.endswith('Option::map') and t['args'] and t['args'][0]['k'] in ('move', 'copy') and t['args'][0]['pl']['l'] in tainted:
            # the closure must wake its argument
            for c in s.targets:
                if any(x.kind == 'wake' for x in g.sites.get(c, [])):
                    sites.append(s.bb)
                    has_wake = True
        if s.kind == 'wake' and t['args'] and t['args'][0]['k'] in ('move', 'copy') and t['args'][0]['pl']['l'] in tainted:
            sites.append(s.bb)
            has_wake = True
    return sites if has_wake else []


def lw(ctx):
    F = ctx.F
    out = []
    counts = defaultdict(int)
    for slot in SLOTS:
        adt, W, cls = slot['adt'], slot['slot'], slot['cls']
        if adt not in F.adts or W not in [f['name'] for f in F.adts[adt]['variants'][0]['fields']]:
            out.append(undecided('LW', 'anchor:%s.%s' % (adt.split('::')[-1], W), 'slot not found in the program'))
            continue
        for cf in slot['cond']:
            if cf not in [f['name'] for f in F.adts[adt]['variants'][0]['fields']]:
                out.append(undecided('LW', 'anchor:%s.%s' % (adt.split('::')[-1], cf), 'condition field not found in the program'))
        waiters = set()
        uses = {}
        for fn in F.crate_fns():
            u = FieldUse(fn, adt)
            if u.reads or u.assigns or u.calls:
                uses[fn.name] = u
        # --- LW1: registrations
        for fname, u in sorted(uses.items()):
            fn = F.fn(fname)
            dom = fn.dominators()
            for (bb, i, val) in u.assigns.get(W, []):
                is_some = val[0] == 'agg' and val[2] == OPTION_SOME
                is_none = val[0] == 'agg' and val[2] == OPTION_NONE
                if is_none:
                    continue
                if not is_some:
                    out.append(undecided('LW1', '%s|%s' % (short(fname), W), 'slot assigned a value the rule does not understand (%s)' % render(val), loc=fn.loc(bb, i), fn=fname))
                    continue
                waiters.add(fname)
                counts[W + ':reg'] += 1
                n_here = sum(1 for x in out if x.rule == 'LW1' and x.key.startswith('%s|%s' % (short(fname), W)))
                key = '%s|%s#%d' % (short(fname), W, n_here)
                guards = _guards_at(ctx, fn, cls, bb, i)
                if (fn.root or fname, W) in LW1_EXCEPT:
                    out.append(ok('LW1', key, 'audited exception: ' + LW1_EXCEPT[(fn.root or fname, W)], loc=fn.loc(bb, i), fn=fname))
                    continue
                if not guards:
                    out.append(bad('LW1', key, 'waker slot %s written without holding %s' % (W, cls), loc=fn.loc(bb, i), fn=fname))
                    continue
                missing = []
                for cf in slot['cond']:
                    pts = list(u.reads.get(cf, [])) + [(b2, len(fn.blocks[b2]['stmts'])) for (b2, m, t) in u.calls.get(cf, [])]
                    good = False
                    for p in pts:
                        # read and registration under one hold of the lock, in either order: nobody can change the condition in between
                        if (_before(fn, dom, p, (bb, i)) or _before(fn, dom, (bb, i), p)) and (_guards_at(ctx, fn, cls, p[0], p[1] if p[1] < len(fn.blocks[p[0]]['stmts']) else 'term') & guards):
                            good = True
                    if not good:
                        missing.append(cf)
                if missing:
                    out.append(bad('LW1', key, 'registers a waker in %s without re-reading %s in the same critical section: if the condition became true after the last test, the notifier found an empty slot and nobody will wake this sleeper (%s)' % (W, '/'.join(missing), slot['what']), loc=fn.loc(bb, i), fn=fname))
                else:
                    out.append(ok('LW1', key, 'condition field(s) %s read in the same critical section' % '/'.join(slot['cond']), loc=fn.loc(bb, i), fn=fname))
        # --- LW2: enabling writes
        for fname, u in sorted(uses.items()):
            fn = F.fn(fname)
            dom = fn.dominators()
            enabling = []
            for cf, kinds in slot['cond'].items():
                if 'assign' in kinds:
                    for (bb, i, val) in u.assigns.get(cf, []):
                        # re-initialising to the *disabled* value is not enabling (closed = false)
                        if val[0] == 'const' and str(val[1]) == '0' and cf == 'closed':
                            continue
                        enabling.append((cf, 'assign', bb, i))
                for (bb, m, t) in u.calls.get(cf, []):
                    if m in kinds:
                        start = bb
                        if m.startswith('pop') and t['target'] is not None and not t['dest']['p']:
                            # removing an element only happens on the Some edge of the result
                            sw = fn.blocks[t['target']]['term']
                            if sw and sw['k'] == 'switch':
                                some = [b2 for v, b2 in sw['targets'] if v == '1']
                                if some:
                                    start = some[0]
                            if start == bb:
                                # `pop_front()?`, a named temporary, `if let Some(x) = ..` behind a move: the normalised test of the result
                                from .ordq import result_edges, edge_for
                                e_ = result_edges(fn, bb)
                                some_ = edge_for(e_, 'core::option::Option', 'Some') if e_ else None
                                if some_ is not None:
                                    start = some_
                        enabling.append((cf, m, start, len(fn.blocks[bb]['stmts']) if start == bb else 0))
            if not enabling:
                continue
            # constructor of the struct is not a notifier
            for (cf, kind, bb, i) in enabling:
                counts[W + ':enable'] += 1
                n_here = sum(1 for x in out if x.rule == 'LW2' and x.key.startswith('%s|%s<-%s' % (short(fname), W, cf)))
                key = '%s|%s<-%s.%s#%d' % (short(fname), W, cf, kind, n_here)
                if fname in waiters:
                    out.append(ok('LW2', key, 'the writer registers in this slot itself (it is the sleeper); it owes itself no wake-up', loc=fn.loc(bb, i), fn=fname))
                    continue
                if (fn.root or fname, W) in LW2_EXCEPT:
                    out.append(ok('LW2', key, 'audited exception: ' + LW2_EXCEPT[(fn.root or fname, W)], loc=fn.loc(bb, i), fn=fname))
                    continue
                guards = _guards_at(ctx, fn, cls, bb, i)
                if not guards:
                    out.append(bad('LW2', key, 'condition field %s changed without holding %s' % (cf, cls), loc=fn.loc(bb, i), fn=fname))
                    continue
                # taking the waker out or cloning it are the same to the sleeper: it is woken (a clone leaves a spent registration behind,
                # which only costs a spurious wake-up later)
                takes = [(b2, t) for (b2, m, t) in u.calls.get(W, []) if m in ('take', 'clone') and (_guards_at(ctx, fn, cls, b2, 'term') & guards)]
                if not takes:
                    out.append(bad('LW2', key, 'makes the sleeper\'s condition true (%s.%s) but does not take the waker slot %s in the same critical section: a sleeper registered there is never woken (%s)' % (cf, kind, W, slot['what']), loc=fn.loc(bb, i), fn=fname))
                    continue
                # the take is on every path from the write to the function's exits (or dominates the write)
                exits = set(fn.exits())
                take_blocks = set(b2 for b2, _ in takes)
                take_ok = any(_before(fn, dom, (b2, 0), (bb, i)) for b2 in take_blocks) or fn.must_pass(bb, exits, take_blocks) or bb in take_blocks
                woke = []
                for b2, t in takes:
                    if not t['dest']['p']:
                        woke += _flows_to_wake(ctx, fn, t['dest']['l'], b2)
                if not take_ok:
                    out.append(bad('LW2', key, 'the waker slot %s is not taken on every path after the condition field %s is changed' % (W, cf), loc=fn.loc(bb, i), fn=fname))
                elif not woke:
                    out.append(bad('LW2', key, 'the waker taken from %s is never woken' % W, loc=fn.loc(bb, i), fn=fname))
                elif not fn.must_pass(bb, exits, set(woke)) and bb not in woke:
                    out.append(bad('LW2', key, 'the waker taken from %s is not woken on every path to the function\'s exit' % W, loc=fn.loc(bb, i), fn=fname))
                else:
                    out.append(ok('LW2', key, 'slot taken in the same critical section and the waker is woken on every path', loc=fn.loc(bb, i), fn=fname))
        # --- LW4: a waker taken out of the slot is woken: taking it and letting it fall on the floor un-registers the sleeper silently
        for fname, u in sorted(uses.items()):
            fn = F.fn(fname)
            for n_, (b2, m, t) in enumerate([c for c in u.calls.get(W, []) if c[1] == 'take']):
                key = '%s|%s.take#%d' % (short(fname), W, n_)
                if t['dest']['p'] or t['target'] is None:
                    continue
                woke = _flows_to_wake(ctx, fn, t['dest']['l'], b2)
                exits = set(fn.exits())
                if woke and (fn.must_pass(t['target'], exits, set(woke)) or b2 in woke):
                    out.append(ok('LW4', key, 'the taken waker is woken on every path', loc=fn.loc(b2), fn=fname))
                elif (fn.root or fname, W) in LW2_EXCEPT:
                    out.append(ok('LW4', key, 'audited exception: ' + LW2_EXCEPT[(fn.root or fname, W)], loc=fn.loc(b2), fn=fname))
                else:
                    out.append(bad('LW4', key, 'a waker is taken out of %s and can be dropped without being woken: its owner stays asleep although it is no longer registered anywhere (%s)' % (W, slot['what']), loc=fn.loc(b2), fn=fname))
        # --- LW5: a waker found in the slot is a live registration.  Either every notifier removes the waker it wakes (take), or every
        # registration overwrites what is there.  A notifier that wakes the waker *in place* together with a sleeper that registers
        # only into an empty slot leaves the sleeper parked on a spent (one-shot) waker for ever.
        from .rules_locks import cg as _cg
        g_ = _cg(ctx)
        leaves, conditional = [], []
        for fname, u in sorted(uses.items()):
            fn = F.fn(fname)
            inplace = [c for c in u.calls.get(W, []) if c[1] in ('as_ref', 'as_mut', 'as_deref', 'iter', 'clone')]
            if inplace and any(s_.kind == 'wake' for s_ in g_.sites.get(fname, [])) and not any(c[1] in ('take',) for c in u.calls.get(W, [])) \
                    and not any(val[0] == 'agg' and val[2] == OPTION_NONE for (_, _, val) in u.assigns.get(W, [])):
                leaves.append(fname)
            stores = [(bb, i) for (bb, i, val) in u.assigns.get(W, []) if val[0] == 'agg' and val[2] == OPTION_SOME]
            tests = [c for c in u.calls.get(W, []) if c[1] in ('is_none', 'is_some')]
            discr = [(bb, i) for (bb, i) in u.reads.get(W, []) if fn.blocks[bb]['stmts'][i]['rv']['k'] == 'discr']
            if stores and (tests or discr):
                conditional.append(fname)
        if leaves and conditional:
            out.append(bad('LW5', '%s|registration-live' % W, '%s wakes the waker in %s without removing it and %s registers only when the slot looks empty: after such a wake the slot holds a spent waker, the sleeper keeps it instead of registering, and the next notification wakes nobody (%s)' % (
                ', '.join(short(x) for x in leaves), W, ', '.join(short(x) for x in conditional), slot['what']), fn=conditional[0]))
        else:
            out.append(ok('LW5', '%s|registration-live' % W, 'wakes remove the waker from the slot (in-place wakes: %d function(s)) or registrations overwrite (conditional registrations: %d function(s))' % (len(leaves), len(conditional))))
    floors = {'waker:reg': 3, 'waker:enable': 2, 'notify:reg': 1, 'notify:enable': 3, 'backpressure_release_notify:reg': 1,
              'backpressure_release_notify:enable': 2, 'notify_stream_closed:reg': 1, 'notify_stream_closed:enable': 2}
    for k, v in floors.items():
        if counts[k] < v:
            out.append(undecided('LW', 'floor:' + k, 'found %d, expected at least %d' % (counts[k], v)))
    ctx._lw_counts = dict(counts)
    return out


def lw_owner(ctx):
    """LW-owner: every signal() of a scheduler future happens inside a job (closure / coroutine body), never in a plain function that
    could run concurrently with the queue's owner.  Justifies the owner's unconditional waker stores in drain_queue."""
    F = ctx.F
    out = []
    n = 0
    for fn in F.crate_fns():
        for bb, t in fn.calls():
            if (t['func'].get('fn') or '').endswith('SchedulerFutureSignaller::signal'):
                n += 1
                key = short(fn.name)
                if F.is_test and '::test::' in fn.name:
                    continue
                if fn.is_closure:
                    out.append(ok('LW-owner', key, 'signal() called from a job body', loc=fn.loc(bb), fn=fn.name))
                else:
                    out.append(bad('LW-owner', key, 'signal() called outside a queue job: it can run between the owner\'s test of the result and its waker store in drain_queue', loc=fn.loc(bb), fn=fn.name))
    if n < 4:
        out.append(undecided('LW-owner', 'floor', 'found %d signal() sites, expected at least 4' % n))
    # ... and the owner stores its waker while it still owns the queue: once the queue is parked (WaitingForPoll) a pool thread may take it
    # over, run the job to completion and signal() before a later store
    P = ctx.proto
    m = 0
    for (k, fname, _), Ts in P.events.items():
        if k != 'waker_store':
            continue
        m += 1
        key = '%s|store-before-release' % short(fname)
        if 'R' in Ts:
            out.append(bad('LW-owner', key, 'the polling task registers its waker in the result slot after it has released the queue: a pool thread that takes the parked queue over can complete the operation and signal() before the waker is there, and the task is never woken', fn=fname))
        else:
            out.append(ok('LW-owner', key, 'waker stored %s' % ('while the queue is still owned' if 'H' in Ts else 'by a task that does not own the queue (check-and-register under the result lock: LW1)'), fn=fname))
    if m < 2:
        out.append(undecided('LW-owner', 'floor:stores', 'found %d functions storing a waker in a scheduler future result, expected 2' % m))
    # ... and the owner's "no result yet" is still true when it stores its waker unconditionally: it was established while owning the queue.
    # Either (A) poll() reads the result and claims the queue under one hold of the result lock (nobody can signal in between: signals come
    # from jobs of this queue, and from the claim on the poller is the only runner), or (B) drain_queue() looks at the result itself before
    # every unconditional store.  One of the two is enough; with neither, a pool thread can finish the operation between poll()'s test and
    # its claim, the poller then parks on an empty queue with a waker nobody will ever wake.
    pf = F.fn('<desync::SchedulerFuture as core::future::future::Future>::poll')
    dq = F.fn('desync::SchedulerFuture::drain_queue')
    key = 'SchedulerFuture|owner-tests-the-result-while-owning'
    if pf and dq:
        RES = 'desync::SchedulerFutureResult'
        JQC_ = 'desync::JobQueueCore'
        ud = FieldUse(dq, RES)
        stores = set(bb for (bb, i, v) in ud.assigns.get('waker', []) if v[0] == 'agg' and v[2].endswith('Option::Some'))
        tests = set(bb for (bb, i) in ud.reads.get('result', [])) | set(bb for (bb, m_, t_) in ud.calls.get('result', [])) | \
            set(bb for bb, t_ in dq.calls() if (t_['func'].get('fn') or '').endswith('FutureResultState::take') and not dq.blocks[bb]['cleanup'])
        from .ordq import feasible_reach
        cond_b = bool(stores) and bool(tests) and (dq.must_pass(0, stores, tests) or not feasible_reach(dq, 0, stores, tests))
        up = FieldUse(pf, JQC_)
        ur = FieldUse(pf, RES)
        acq = [(bb, i) for (bb, i, v) in up.assigns.get('state', []) if v[0] == 'agg' and v[2].endswith('QueueState::Running')]
        reads = [(bb, i) for (bb, i) in ur.reads.get('result', [])] + [(bb, len(pf.blocks[bb]['stmts'])) for (bb, m_, t_) in ur.calls.get('result', [])] + \
            [(bb, len(pf.blocks[bb]['stmts'])) for bb, t_ in pf.calls() if (t_['func'].get('fn') or '').endswith('FutureResultState::take') and not pf.blocks[bb]['cleanup']]
        dom = pf.dominators()
        cond_a = bool(acq) and bool(reads)
        for (bb, i) in acq:
            gw = _guards_at(ctx, pf, 'SchedulerFuture.result', bb, i)
            okw = False
            for (rb, ri) in reads:
                gr = _guards_at(ctx, pf, 'SchedulerFuture.result', rb, ri if ri < len(pf.blocks[rb]['stmts']) else 'term')
                if gw and (gw & gr) and _before(pf, dom, (rb, min(ri, len(pf.blocks[rb]['stmts']))), (bb, i)):
                    okw = True
            if not okw:
                cond_a = False
        if not stores or not acq:
            out.append(undecided('LW-owner', key, 'the unconditional waker stores of drain_queue or the claims of poll were not recognised (%d / %d)' % (len(stores), len(acq))))
        elif cond_a or cond_b:
            out.append(ok('LW-owner', key, 'the result is %s' % ('read and the queue claimed under one hold of the result lock in poll()' + (', and re-read by drain_queue before every unconditional store' if cond_b else '') if cond_a else 're-read by drain_queue before every unconditional store'), fn=dq.name))
        else:
            out.append(bad('LW-owner', key, 'poll() tests the result and claims the queue in separate critical sections, and drain_queue() can store its waker and answer Pending without looking at the result again: '
                           'a pool thread that finishes the operation between the test and the claim has already signalled, the poller parks on an empty queue and the awaiting task is never woken', fn=dq.name))
    return out


def lw_prov(ctx):
    """LW-prov: the slot notify_stream_closed only ever receives the producer closure's own waker parameter (a PipeWaker built by
    PipeContext::poll), so the wake PipeStream::drop performs under its lock can only reach PipeWaker::wake_by_ref."""
    F = ctx.F
    out = []
    n = 0
    for fn in F.crate_fns():
        u = FieldUse(fn, PSC)
        for (bb, i, val) in u.assigns.get('notify_stream_closed', []):
            n += 1
            key = '%s#%d' % (short(fn.name), sum(1 for x in out if x.fn == fn.name))
            if val[0] == 'agg' and val[2] == OPTION_NONE:
                out.append(ok('LW-prov', key, 'cleared', loc=fn.loc(bb, i), fn=fn.name))
                continue
            if val[0] == 'agg' and val[2] == OPTION_SOME and val[3]:
                src = val[3][0]
                root = expr_root(src)
                if root[0] == 'upvar' or root[0] == 'arg':
                    # must be the waker parameter of the PollFn closure: the enclosing closure's 2nd parameter
                    parent = F.fn(fn.parent) if fn.parent else None
                    okk = False
                    if root[0] == 'upvar' and parent is not None:
                        for l in range(1, parent.arg_count + 1):
                            if parent.local_name(l) == root[1] and 'core::task::wake::Waker' in parent.local_ty(l):
                                okk = True
                    if okk:
                        out.append(ok('LW-prov', key, 'stores a clone of the producer closure\'s waker parameter `%s`' % root[1], loc=fn.loc(bb, i), fn=fn.name))
                        continue
            out.append(bad('LW-prov', key, 'notify_stream_closed receives a waker of unknown provenance (%s): the wake made under PipeStream.core in PipeStream::drop could run arbitrary code' % render(val), loc=fn.loc(bb, i), fn=fn.name))
    # and the producer closures are only ever handed a PipeWaker
    wk = []
    for f in F.crate_fns():
        if (f.root or f.name) == 'desync::PipeContext::poll':
            wk += [t for bb, t in f.calls() if (t['func'].get('fn') or '') in ('futures_task::waker::waker', 'futures_task::waker_ref::waker_ref')]
    if not F.fn('desync::PipeContext::poll'):
        out.append(undecided('LW-prov', 'PipeContext::poll', 'anchor not found'))
    elif len(wk) == 1 and 'desync::PipeWaker' in ' '.join(wk[0]['func'].get('fnargs', [])):
        out.append(ok('LW-prov', 'PipeContext::poll', 'the waker handed to the poll function is built from a PipeWaker', fn='desync::PipeContext::poll'))
    else:
        out.append(bad('LW-prov', 'PipeContext::poll', 'the waker handed to the pipe poll function is no longer (only) a PipeWaker', fn='desync::PipeContext::poll'))
    if n < 1:
        out.append(undecided('LW-prov', 'floor', 'found no store to notify_stream_closed'))
    return out


def lw_cancel(ctx):
    """SchedulerFutureSignaller::drop turns into Canceled only a result that was never produced: its write of `result` lies on the
    true edge of `result.is_none()`."""
    from .ordq import calls, result_edges, edom
    F = ctx.F
    out = []
    fn = F.fn('<desync::SchedulerFutureSignaller as core::ops::drop::Drop>::drop')
    if not fn:
        return [undecided('LW-cancel', 'anchor', 'Drop for SchedulerFutureSignaller not found')]
    u = FieldUse(fn, SFR)
    writes = [(bb, i) for (bb, i, v) in u.assigns.get('result', [])]
    tests = calls(fn, 'FutureResultState::is_none')
    key = 'SchedulerFutureSignaller::drop|cancel-only-if-none'
    if not writes:
        out.append(bad('LW-cancel', key, 'dropping the signaller no longer cancels an unresolved future (awaiting tasks hang)', fn=fn.name))
    elif len(tests) != 1:
        out.append(bad('LW-cancel', key, 'the signaller\'s drop overwrites the result without testing whether one was already delivered', fn=fn.name))
    else:
        e = result_edges(fn, tests[0][0])
        true_edge = e.get('otherwise') if e else None
        if true_edge is not None and all(edom(fn, true_edge, bb) for bb, _ in writes):
            out.append(ok('LW-cancel', key, 'Canceled is stored only when no result exists yet', fn=fn.name))
        else:
            out.append(bad('LW-cancel', key, 'a delivered result can be overwritten with Canceled when the signaller is dropped (signal(self) drops it right after delivering)', fn=fn.name))
    return out


def lw_register(ctx):
    """LW3: a poll that reports Pending has (re-)registered the *current* task's waker on every path to that return."""
    from .ordq import edom
    F = ctx.F
    out = []
    table = [('<desync::PipeStream as futures_core::stream::Stream>::poll_next', PSC, 'notify', 'PipeStream.core'),
             ('<desync::SchedulerFuture as core::future::future::Future>::poll', SFR, 'waker', 'SchedulerFuture.result')]
    for fname, adt, W, cls in table:
        fn = F.fn(fname)
        key = '%s|%s' % (short(fname), W)
        if not fn:
            out.append(undecided('LW3', key, 'anchor not found'))
            continue
        u = FieldUse(fn, adt)
        stores = [bb for (bb, i, v) in u.assigns.get(W, []) if v[0] == 'agg' and v[2] == OPTION_SOME]
        # every store takes the waker from the Context parameter of this call
        from_ctx = True
        for (bb, i, v) in u.assigns.get(W, []):
            if v[0] == 'agg' and v[2] == OPTION_SOME:
                txt = render(v)
                if 'waker(' not in txt:
                    from_ctx = False
        # blocks that build Poll::Pending
        pend = [bb for bb, b in enumerate(fn.blocks) if not b['cleanup'] for s_ in b['stmts']
                if s_['k'] == 'assign' and s_['rv']['k'] == 'agg' and s_['rv'].get('variant') == 'Pending' and s_['rv'].get('adt') == 'core::task::poll::Poll']
        if not stores or not pend:
            out.append(undecided('LW3', key, 'shape not recognised (stores %d, Pending results %d)' % (len(stores), len(pend))))
            continue
        if 'SchedulerFuture' in fname:
            # path-sensitive (the decision enum correlates the store with the result): taken from the protocol interpreter
            from .rules_proto import events_of
            missing = []
            seen_any = False
            for f2, _, snaps in events_of(ctx.proto, 'exit_reg'):
                if f2 in (fname, 'desync::SchedulerFuture::drain_queue'):
                    for (ret, reg, built) in snaps:
                        if ret == ('enum', 'Pending') and built:
                            seen_any = True
                            if not reg:
                                missing.append(f2)
            if not seen_any:
                out.append(undecided('LW3', key, 'no Pending exit found by the interpreter'))
                continue
            if missing:
                out.append(bad('LW3', key, '%s can return Poll::Pending without having stored the current task\'s waker in %s (a stale or empty slot: the task is never woken)' % (short(missing[0]), W), fn=missing[0]))
                continue
        else:
            missing = [b for b in pend if not fn.must_pass(0, {b}, set(stores))]
            if missing:
                out.append(bad('LW3', key, 'a path returns Poll::Pending without having stored the current task\'s waker in %s (a stale or empty slot: the task is never woken)' % W, loc=fn.loc(missing[0]), fn=fname))
                continue
        if False:
            pass
        elif not from_ctx:
            out.append(bad('LW3', key, 'the waker stored in %s is not the one of the Context passed to this poll' % W, fn=fname))
        else:
            out.append(ok('LW3', key, 'every path to Poll::Pending stores context.waker() in %s' % W, fn=fname))
    return out


def lw_recheck(ctx):
    """A hand-made wait (a poll function that registers the task's waker in an AtomicWaker, or stores it in a slot of its own, and answers
    Pending) re-reads its condition *after* the registration: a completion that lands between the first test and the registration has
    nobody to wake, and without the second test the task sleeps for ever.  The pinned tree has no such wait (its hand-shakes are oneshot
    channels and mutex-protected slots, which LW1-LW4 cover): the rule exists for the day one is written."""
    from .ordq import calls
    F = ctx.F
    out = []
    n = 0
    for fn in F.crate_fns():
        regs = [(bb, t) for bb, t in fn.calls() if (t['func'].get('fn') or '').endswith('AtomicWaker::register') and not fn.blocks[bb]['cleanup']]
        # the same wait built from an atomic flag and a waker slot of its own: `if flag.load() {Ready} else { *slot = Some(waker); Pending }`
        atomics = [bb for bb, t in fn.calls() if not fn.blocks[bb]['cleanup'] and 'sync::atomic::' in (t['func'].get('fn') or '') and (t['func'].get('fn') or '').split('::')[-1] == 'load']
        if atomics and not regs:
            for bb, b in enumerate(fn.blocks):
                if b['cleanup']:
                    continue
                for s_ in b['stmts']:
                    if s_['k'] == 'assign' and s_['pl']['p'] and clean_ty(s_['pl'].get('ty') or '') == 'core::option::Option<core::task::wake::Waker>' and s_['rv']['k'] == 'agg' and s_['rv'].get('variant') == 'Some':
                        regs.append((bb, {'target': bb, 'func': {'fn': 'slot'}}))
        if not regs:
            continue
        pend = []
        for bb, b in enumerate(fn.blocks):
            if b['cleanup']:
                continue
            for s_ in b['stmts']:
                if s_['k'] == 'assign' and s_['rv']['k'] == 'agg' and s_['rv'].get('adt') == 'core::task::poll::Poll' and s_['rv'].get('variant') == 'Pending':
                    pend.append(bb)
        loads = set(bb for bb, t in fn.calls() if not fn.blocks[bb]['cleanup'] and (t['func'].get('fn') or '').split('::')[-1] in ('load', 'swap', 'compare_exchange', 'fetch_or', 'fetch_and', 'lock', 'try_lock', 'take', 'is_some', 'is_none', 'try_recv', 'poll_unpin', 'poll'))
        for bb, t in regs:
            n += 1
            key = '%s|recheck-after-register' % short(fn.root or fn.name)
            tg = t['target']
            if tg is None or not pend:
                out.append(undecided('LW-recheck', key, 'the registering function never answers Pending: shape not recognised'))
            elif fn.must_pass(tg, set(pend), loads - {bb}):
                out.append(ok('LW-recheck', key, 'the condition is read again between registering the waker and answering Pending', loc=fn.loc(bb), fn=fn.name))
            else:
                out.append(bad('LW-recheck', key, 'the waker is registered and Pending is answered without reading the condition again: a completion that happened between the first test and the registration woke nobody, '
                               'and nothing will wake this task later', loc=fn.loc(bb), fn=fn.name))
    if n == 0:
        out.append(ok('LW-recheck', 'none', 'the crate has no hand-made AtomicWaker wait'))
    return out
