"""--explain FILE: re-extract, re-run the rule of a recorded violation and print the construct."""
import json

from . import extract, props
from .ctx import Ctx


def explain(path, repo):
    with open(path) as f:
        rec = json.load(f)
    pid = rec['property']
    inst = rec['instance']
    print('property %s, rule %s, instance %s' % (pid, inst['rule'], inst['key']))
    print('recorded: %s %s' % (inst.get('loc', ''), inst['detail']))
    facts, info = extract.extract(repo, rec.get('config', 'dev'))
    ctx = Ctx(facts, info)
    found = False
    for i in props.evaluate(pid, ctx):
        if i.rule == inst['rule'] and i.key == inst['key']:
            found = True
            print('now     : [%s] %s %s' % (i.verdict, i.loc, i.detail))
            if i.extra:
                print(json.dumps(i.extra, indent=1))
            if i.verdict == 'violation':
                print('VIOLATION property=%s replay=%s' % (pid, path))
                return 1
    if not found:
        print('instance no longer present in the tree under analysis')
    return 0
