"""Canonical item names: module paths of the crate are dropped (`desync::scheduler::core::SchedulerCore` -> `desync::SchedulerCore`)
and methods of in-crate traits are named like inherent methods (`<desync::Job as desync::ScheduledJob>::run` -> `desync::Job::run`),
so that moving an item to another module, or turning an inherent method into a private trait method, does not change any anchor."""
import json
import re


def canonicalize(j):
    mods = [m for m in j.get('modules', []) if not m.endswith('::test') and '::test::' not in m]
    crate = j.get('crate', 'desync')
    txt = json.dumps(j)
    if mods:
        mods.sort(key=len, reverse=True)
        pat = re.compile(r'(?<![A-Za-z0-9_])(?<!::)(?:' + '|'.join(re.escape(m) for m in mods) + r')::')
        txt = pat.sub(crate + '::', txt)
    # in-crate trait methods -> inherent style (self type printed without generic arguments by the driver)
    txt = re.sub(r'<(%s::[A-Za-z0-9_]+) as %s::[A-Za-z0-9_]+>::' % (re.escape(crate), re.escape(crate)), r'\1::', txt)
    return json.loads(txt)
