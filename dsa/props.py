"""Property -> rules.  A rule that is a necessary condition of several properties is run by each of them."""
from . import rules_proto as RP

ASSUMPTIONS = [
    "rustc's MIR construction, type checking and callee resolution (facts are read from the compiler's own built MIR)",
    'every access to JobQueueCore goes through its Mutex (checked: state written only inside a JobQueue.core critical section)',
    'dynamic calls resolve within closed candidate sets: ScheduledJob is crate-private; wakers are in-crate ArcWake types or caller-supplied',
    'std::sync Mutex/Condvar/thread::park semantics; user closures, futures and streams are arbitrary code',
    'host target only (cfg(target_arch = "wasm32") items are not compiled and not analysed)',
]

_cache_attr = '_rule_cache'


def _run(ctx, func):
    cache = getattr(ctx, _cache_attr, None)
    if cache is None:
        cache = {}
        setattr(ctx, _cache_attr, cache)
    if func not in cache:
        cache[func] = func(ctx)
    return cache[func]


def evaluate(pid, ctx):
    out = []
    seen = set()
    for func, names in PROPS[pid]['rules']:
        for i in _run(ctx, func):
            if names is not None and i.rule not in names and not i.rule.startswith('analysis'):
                continue
            if i.ident() in seen:
                continue
            seen.add(i.ident())
            out.append(i)
    return out


PROPS = {}


def prop(pid, explanation, decided, not_decided, rules, assumptions=None):
    PROPS[pid] = {'explanation': explanation, 'decided': decided, 'not_decided': not_decided, 'rules': rules, 'assumptions': assumptions or []}


prop('C01',
     'Static structural rules over the type-checked program (built MIR): the right to run a queue is modelled as a token; '
     'the check decides that jobs execute only with the token held (interprocedural typestate over the extracted state writes), '
     'that the token is acquired in the critical section that tested the state, and that no configuration with two holders is '
     'reachable in the protocol extracted from the code (counting abstraction over the extracted transition relation). '
     'It decides the shape of the protocol for all schedules at once, not the behaviour of executions.',
     ['jobs execute only under the token (TOK-exec)', 'no second holder reachable in the extracted protocol (PA-excl)',
      'a suspended job goes back to the queue before any release (TOK-requeue)'],
     ['that the abstraction\'s transitions are the only way threads interleave (trusted: all accesses go through Mutex<JobQueueCore>)',
      'overlap of a completed future_sync user future\'s destructor with the next operation'],
     [(RP.tok_exec, None), (RP.pa_rules, {'PA-excl', 'PA-stuck', 'PA'}), (RP.tok_requeue, None)])

prop('C03',
     'Static structural rules: an acquired token is always released or handed on (TOK-leak, globally PA-stuck); every owner release to '
     'Idle is followed by reschedule_queue or made under the queue-empty test (TOK-resched); marking a queue Pending is followed by '
     'pushing it on the schedule and asking for a thread (TOK-pending); a job that returned Pending is put back before release (TOK-requeue).',
     ['token released/handed on on every path (TOK-leak, PA-stuck)', 'Idle release followed by reschedule or made under the empty test (TOK-resched, TOK-resched-body)',
      'Pending implies in the schedule and a thread asked (TOK-pending)', 'no job dropped while suspended (TOK-requeue)'],
     ['that a woken pool thread is eventually scheduled by the OS', 'quiescence of a whole program'],
     [(RP.tok_leak, None), (RP.pa_rules, {'PA-stuck', 'PA'}), (RP.tok_resched, None), (RP.tok_pending, None), (RP.tok_requeue, None)])

prop('C09',
     'Static structural rules: a Busy outcome of try_sync has written nothing (every path to Err(Busy) leaves the token untouched: TOK-leak), '
     'try_sync claims the queue only from (Idle, queue empty) exactly like sync\'s immediate row (TR-sibling), after the immediate run the '
     'queue goes Idle and is rescheduled (TOK-resched), and no running state without a runner is reachable (PA-stuck).',
     ['Busy has written nothing (TOK-leak on try_sync)', 'immediate only on Idle and empty (TR-sibling)', 'Idle then reschedule_queue after the run (TOK-resched)', 'no ownerless running state (PA-stuck)'],
     ['"succeeds once quiescent" as a statement about time'],
     [(RP.tok_leak, None), (RP.tr_sibling, None), (RP.tok_resched, None), (RP.pa_rules, {'PA-stuck', 'PA'}), (RP.tok_exec, None)])

prop('C15',
     'Static structural rules: nothing leaves the Panicked state in the extracted transition relation (TR-dead).',
     ['nothing leaves Panicked (TR-dead)'],
     ['"other objects remain fully usable" as executions'],
     [(RP.tr_dead, None)])
