"""Compile-fail witnesses (type-level clauses of C05/C14). Filled in by witness/ crate; None for properties without witnesses."""


def run(pid, repo):
    return None
