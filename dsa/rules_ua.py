"""A9 UA: audit of the lifetime-erasing unsafe code (the four obligations behind the safe API) and of the type bounds fencing it."""
from collections import defaultdict

from .facts import short, clean_ty, ty_head, render, expr_root
from .ordq import calls, dominates, result_edges, switch_of_local
from .rule import ok, bad, undecided
from .rules_ord import _children, S

DESYNC = 'desync::Desync'
DATAREF = 'desync::DataRef'
UNSAFE_JOB = 'desync::UnsafeJob'
ENTRY_POINTS = ('desync::desync', 'desync::sync', 'desync::try_sync',
                S + 'future_desync', S + 'future_sync', S + 'sync_no_panic', S + 'sync', S + 'desync', S + 'try_sync',
                'desync::future_desync', 'desync::future_sync')


def raw_derefs(fn):
    """[(bb, idx|'term', pointer type, place text)] places that dereference a raw pointer."""
    out = []

    def scan(pl, bb, idx):
        for p in pl['p']:
            if p['k'] == 'deref' and clean_ty(p.get('bty', '')).startswith('*'):
                out.append((bb, idx, clean_ty(p['bty']), pl['t']))

    for bb, b in enumerate(fn.blocks):
        if b['cleanup']:
            continue
        for i, s in enumerate(b['stmts']):
            if s['k'] == 'assign':
                scan(s['pl'], bb, i)
                rv = s['rv']
                for key in ('pl',):
                    if key in rv:
                        scan(rv[key], bb, i)
                for key in ('op', 'a', 'b'):
                    if key in rv and isinstance(rv[key], dict) and rv[key].get('k') in ('copy', 'move'):
                        scan(rv[key]['pl'], bb, i)
                for o in rv.get('ops', []):
                    if o['k'] in ('copy', 'move'):
                        scan(o['pl'], bb, i)
        t = b['term']
        if t and t['k'] == 'call':
            for a in t['args']:
                if a['k'] in ('copy', 'move'):
                    scan(a['pl'], bb, 'term')
    return out


def ua_sites(ctx):
    """Every unsafe operation of the crate is of a known kind (each kind has its own rule); new kinds are listed as unaudited."""
    F = ctx.F
    out = []
    kinds = defaultdict(list)
    for fn in F.crate_fns():
        for (bb, idx, pty, txt) in raw_derefs(fn):
            kinds['deref ' + ('payload pointer *mut T' if pty in ('*mut T',) else pty)].append((fn, bb))
        for bb, t in fn.calls():
            if fn.blocks[bb]['cleanup'] or (t['sp'].get('mac')):
                continue
            if t.get('unsafe_fn'):
                kinds['call ' + (t['func'].get('fn') or '?')].append((fn, bb))
        for bb, b in enumerate(fn.blocks):
            for s in b['stmts']:
                if s['k'] == 'assign' and s['rv']['k'] == 'cast' and s['rv']['ck'] == 'transmute' and not b['cleanup'] and not s['sp'].get('mac'):
                    kinds['transmute'].append((fn, bb))
    for i in F.impls:
        if i.get('unsafe') and not (i.get('trait') or '').endswith('TrivialClone'):
            kinds['unsafe impl %s for %s' % (i['trait'].split('::')[-1], i['self_head'].split('::')[-1])].append((None, None))
    expected = {
        'deref payload pointer *mut T': (5, 'UA-confine'),
        'call alloc::boxed::Box::from_raw': (1, 'UA-free'),
        'call desync::UnsafeJob::new': (1, 'UA-wait'),
        'call desync::UnsafeJob::new_with_notification': (1, 'UA-wait'),
        'call core::intrinsics::transmute': (2, 'UA-wait (lifetime erasure inside UnsafeJob::new*)'),
        'deref *mut dyn(desync::ScheduledJob)': (1, 'UA-wait (only in UnsafeJob::run)'),
        'unsafe impl Send for Desync': (1, 'UA-bounds'),
        'unsafe impl Sync for Desync': (1, 'UA-bounds'),
        'unsafe impl Send for DataRef': (1, 'UA-bounds'),
        'unsafe impl Send for UnsafeJob': (1, 'UA-wait'),
    }
    for k, sites in sorted(kinds.items()):
        if k in expected:
            exp, rule = expected[k]
            out.append(ok('UA-sites', k, '%d site(s); obligation checked by %s' % (len(sites), rule)))
        elif k.startswith('call core::pin::Pin') or k.startswith('call core::future::get_context') or k == 'transmute':
            continue   # desugaring of .await / covered by the transmute call entry
        else:
            where = ', '.join(sorted(set(short(f.name) for f, _ in sites if f)))
            out.append(undecided('UA-sites', k, 'unsafe operation of a kind no rule audits (%d site(s) in %s)' % (len(sites), where)))
    for k, (exp, rule) in expected.items():
        if len(kinds.get(k, [])) < exp and not (F.is_test and False):
            out.append(undecided('UA-sites', 'floor:' + k, 'found %d, expected at least %d' % (len(kinds.get(k, [])), exp)))
    return out


def ua_confine(ctx):
    """The raw pointer to the protected value is only dereferenced inside a closure that is handed, as the job, to a queue entry point
    together with this object's own queue; the pointer it captured is self.data."""
    F = ctx.F
    out = []
    n = 0
    for fn in F.crate_fns():
        ders = [d for d in raw_derefs(fn) if d[2] == '*mut T']
        if not ders:
            continue
        key = short(fn.name)
        n += 1
        if not fn.is_closure:
            out.append(bad('UA-confine', key, 'the payload pointer is dereferenced directly in %s, outside any queue job: access is not serialised by the queue' % short(fn.name), loc=fn.loc(ders[0][0]), fn=fn.name))
            continue
        # walk up to the closure that is a direct child of a method of Desync
        c = fn
        while c.parent and F.fn(c.parent) and F.fn(c.parent).is_closure:
            c = F.fn(c.parent)
        m = F.fn(c.parent) if c.parent else None
        if not m or not m.name.startswith(DESYNC + '::') and not m.name.startswith('<' + DESYNC):
            out.append(bad('UA-confine', key, 'payload pointer dereferenced in a closure that does not belong to a method of Desync', fn=fn.name))
            continue
        # find the call in m that receives closure c
        found = None
        for bb, t in m.calls():
            for a in t['args']:
                if a['k'] != 'const' and clean_ty(a['pl']['ty']) == '{closure:%s}' % c.name:
                    found = (bb, t)
        if not found:
            out.append(bad('UA-confine', key, 'the closure dereferencing the payload pointer is not passed directly to a queue entry point', fn=fn.name))
            continue
        bb, t = found
        callee = t['func'].get('fn') or ''
        qargs = [a for a in t['args'] if a['k'] != 'const' and 'JobQueue' in clean_ty(a['pl']['ty'])]
        qe = m.expr_of_operand(qargs[0]) if qargs else ('const', '?')
        qtxt = render(qe)
        # the queue is the object's own field itself, not something computed from it (a lazily created, cached or swapped queue)
        if qargs and not (qe[0] == 'field' and qe[2] == 'queue' and qe[1][0] in ('arg', 'upvar', 'var')) and 'self.queue' in qtxt:
            qtxt = 'computed:' + qtxt.replace('self.queue', 'self .queue')
        # captured pointer = self.data
        data_ok = False
        for b in m.blocks:
            for s in b['stmts']:
                if s['k'] == 'assign' and s['rv']['k'] == 'agg' and s['rv'].get('adt') == DATAREF:
                    if 'self.data' in render(m.expr_of_operand(s['rv']['ops'][0])):
                        data_ok = True
        if callee not in ENTRY_POINTS:
            out.append(bad('UA-confine', key, 'the closure that dereferences the payload pointer is passed to %s, which is not a queue entry point' % short(callee), loc=m.loc(bb), fn=fn.name))
        elif 'self.queue' not in qtxt:
            out.append(bad('UA-confine', key, 'the job touching this object\'s value is queued on `%s`, not on self.queue: two objects\' jobs could touch one value concurrently' % qtxt, loc=m.loc(bb), fn=fn.name))
        elif not data_ok:
            out.append(bad('UA-confine', key, 'the pointer captured by the job is not self.data', fn=fn.name))
        else:
            out.append(ok('UA-confine', key, 'dereferenced only inside the job closure passed to %s on self.queue; pointer = self.data' % short(callee), loc=m.loc(bb), fn=fn.name))
    if n < 5:
        out.append(undecided('UA-confine', 'floor', 'found %d closures dereferencing the payload pointer, expected at least 5' % n))
    # one queue per value, for the value's whole life: the field is a plain Arc<JobQueue> set by the constructor and never again
    adt = F.adts.get(DESYNC)
    key = 'Desync.queue|fixed-at-construction'
    if not adt:
        out.append(undecided('UA-confine', key, 'Desync not found'))
    else:
        qf = [f_ for v in adt['variants'] for f_ in v['fields'] if f_['name'] == 'queue']
        from .rules_lw import FieldUse
        writers = set()
        for fn in F.crate_fns():
            u = FieldUse(fn, DESYNC)
            if u.assigns.get('queue'):
                writers.add(fn.name)
        if not qf:
            out.append(undecided('UA-confine', key, 'Desync has no field `queue`'))
        elif not clean_ty(qf[0]['ty']).startswith('alloc::sync::Arc<desync::JobQueue'):
            out.append(bad('UA-confine', key, 'Desync.queue is a `%s`, not a plain Arc<JobQueue>: the queue of a value can change (or come into being) while the value is shared, and jobs on two queues touch one value concurrently' % clean_ty(qf[0]['ty'])[:70]))
        elif writers:
            out.append(bad('UA-confine', key, 'Desync.queue is assigned outside the constructor (%s)' % short(sorted(writers)[0])))
        else:
            out.append(ok('UA-confine', key, 'Desync.queue is an Arc<JobQueue> that only the constructor sets'))
    return out


def ua_free(ctx):
    """The value is freed only in Desync::drop; Desync and DataRef cannot be duplicated; no API returns the raw pointer."""
    F = ctx.F
    out = []
    frees = [(fn, bb) for fn in F.crate_fns() for bb, t in calls(fn, 'alloc::boxed::Box::from_raw')]
    badf = [fn for fn, bb in frees if (fn.root or fn.name) != '<' + DESYNC + ' as core::ops::drop::Drop>::drop']
    if badf:
        out.append(bad('UA-free', 'from_raw', 'Box::from_raw on the payload outside Desync::drop (%s): the value can be freed twice or while in use' % short(badf[0].name), fn=badf[0].name))
    elif len(frees) < 1:
        out.append(undecided('UA-free', 'from_raw', 'found no Box::from_raw site (expected one per final job of Desync::drop)'))
    else:
        out.append(ok('UA-free', 'from_raw', '%d sites, all inside closures of Desync::drop' % len(frees)))
    for adt in (DESYNC, DATAREF):
        dup = [i['trait'] for i in F.impls if i['self_head'] == adt and (i.get('trait') or '').split('::')[-1] in ('Clone', 'Copy')]
        key = 'no-dup:' + adt.split('::')[-1]
        if dup:
            out.append(bad('UA-free', key, '%s implements %s: the raw pointer to the value can be duplicated and freed twice' % (adt.split('::')[-1], ', '.join(d.split('::')[-1] for d in dup))))
        else:
            out.append(ok('UA-free', key, 'neither Clone nor Copy'))
    leaks = []
    for fn in F.crate_fns():
        if fn.reachable and not fn.is_closure:
            o = clean_ty(fn.j.get('output', ''))
            if '*mut T' in o or '*const T' in o or DATAREF in o:
                leaks.append(fn)
    if leaks:
        out.append(bad('UA-free', 'no-pointer-escape', 'public function %s returns the raw payload pointer' % short(leaks[0].name), fn=leaks[0].name))
    else:
        out.append(ok('UA-free', 'no-pointer-escape', 'no public function returns the payload pointer'))
    # the data field is private and only assigned in Desync::new
    a = F.adts.get(DESYNC)
    if a:
        vis = [f['vis'] for f in a['variants'][0]['fields'] if f['name'] == 'data']
        if vis and 'Public' in vis[0]:
            out.append(bad('UA-free', 'data-private', 'Desync.data is public'))
        else:
            out.append(ok('UA-free', 'data-private', 'Desync.data is private'))
    return out


def ua_wait(ctx):
    """A lifetime-erased job never outlives the stack frame it points into: after UnsafeJob::new* every path to the function's return
    passes the edge on which the job is known to have been run and dropped."""
    F = ctx.F
    out = []
    R = 'UA-wait'
    for name, ctor, cls, how in ((S + 'sync_background', 'UnsafeJob::new_with_notification', 'sync.ready', 'flag'),
                                 (S + 'sync_drain', 'UnsafeJob::new', 'sync.result', 'is_none')):
        fn = F.fn(name)
        key = short(name)
        if not fn:
            out.append(undecided(R, key, 'anchor not found'))
            continue
        cs = calls(fn, ctor)
        cs = [(bb, t) for bb, t in cs if (t['func'].get('fn') or '').endswith(ctor)]
        if len(cs) != 1:
            out.append(undecided(R, key, 'expected one %s call, found %d' % (ctor, len(cs))))
            continue
        cbb = cs[0][0]
        H = ctx.held(fn)
        # completion tests: switches whose condition derives from a value read under `cls`
        tests = []
        for bb, b in enumerate(fn.blocks):
            t = b['term']
            if not t or t['k'] != 'switch' or b['cleanup'] or t['discr']['k'] == 'const':
                continue
            dl = t['discr']['pl']['l']
            e = fn.expr_of_local(dl)
            txt = render(e)
            if how == 'flag':
                # `*guard` (or its negation) where guard is of class sync.ready; MIR folds `!` of a loop condition into the edges
                neg = e[0] == 'unop' and e[1] == 'Not'
                inner = e[2] if neg else e
                root = expr_root(inner)
                if root[0] == 'var' and root[1] in H.guards and H.guards[root[1]] == cls:
                    done = dict((v, tb) for v, tb in t['targets']).get('0') if neg else t['otherwise']
                    notdone = t['otherwise'] if neg else dict((v, tb) for v, tb in t['targets']).get('0')
                    tests.append((bb, 'flag', done, notdone))
            else:
                zero, nonzero = dict((v, tb) for v, tb in t['targets']).get('0'), t['otherwise']
                neg = txt.startswith('Not(')
                if neg:
                    txt = txt[4:]
                    zero, nonzero = nonzero, zero
                if txt.startswith('is_none(') and 'lock(' in txt:
                    tests.append((bb, 'is_none', zero, nonzero))
                elif txt.startswith('is_some(') and 'lock(' in txt:
                    tests.append((bb, 'is_some', nonzero, zero))
        if not tests:
            out.append(bad(R, key, 'no completion test found after the lifetime-erased job was queued: the function can return while the queue still holds a pointer into its frame', fn=name))
            continue
        exit_blocks = set(d for (bb, kind, d, nd) in tests if d is not None)
        exits = set(fn.exits())
        # every path from the constructor to a return must pass one of the exit edges
        if not exit_blocks:
            out.append(bad(R, key, 'completion test has no "done" edge', fn=name))
        elif fn.must_pass(cs[0][1]['target'], exits, exit_blocks):
            # and the test is re-evaluated in a loop (the not-done edge comes back to it)
            loops = any(nd is not None and bb in fn.reachable_blocks(nd) for (bb, kind, d, nd) in tests)
            if loops:
                out.append(ok(R, key, 'every path from %s to the return passes the "job done" edge of a test re-evaluated in a loop (%s read under %s)' % (ctor, how, cls), fn=name))
            else:
                out.append(bad(R, key, 'the completion test is not re-evaluated in a loop: a spurious wake-up lets the function return while the job is still queued', fn=name))
        else:
            out.append(bad(R, key, 'a path from %s reaches the return without passing the "job done" edge: the queue keeps a dangling pointer to the closure' % ctor, fn=name))
        # ... and the frame is not left by a panic of the function's own either: while the job is queued and not known to be done, the
        # body has no panic!/assert!/unreachable! of its own (a caller that merely waits holds no ActiveQueue guard: the queue is not marked
        # Panicked by its unwinding, and a pool thread later runs the job against the unwound frame)
        if exit_blocks:
            PANICS = ('core::panicking::panic_fmt', 'core::panicking::panic', 'std::rt::begin_panic', 'std::panicking::begin_panic', 'core::panicking::panic_display',
                      'core::panicking::assert_failed', 'core::panicking::panic_explicit', 'core::panicking::unreachable_display', 'core::panicking::panic_nounwind')
            window = fn.reachable_blocks(cs[0][1]['target'], avoid=exit_blocks) if cs[0][1]['target'] is not None else set()
            own = [bb for bb, t in fn.calls() if bb in window and not fn.blocks[bb]['cleanup'] and (t['func'].get('fn') or '').startswith(PANICS)
                   and 'debug_assert' not in (t['sp'].get('mac') or '')]
            key2 = key + '|no-panic-while-queued'
            if own:
                out.append(bad(R, key2, 'the function can panic on its own account while its lifetime-erased job is still queued (and without having claimed the queue, so nothing marks it Panicked): '
                               'the frame unwinds, the job stays on the queue and is run later against freed stack memory', loc=fn.loc(own[0]), fn=name))
            else:
                out.append(ok(R, key2, 'no panic site of the function\'s own between queueing the job and the "job done" edge (%d blocks)' % len(window), fn=name))
    # UnsafeJob: action dereferenced only in run; Drop does not touch it
    derefs = defaultdict(int)
    for fn in F.crate_fns():
        for (bb, idx, pty, txt) in raw_derefs(fn):
            if 'ScheduledJob' in pty:
                derefs[fn.name] += 1
    runfn = '%s::run' % UNSAFE_JOB
    other = [f for f in derefs if f != runfn]
    if other:
        out.append(bad(R, 'UnsafeJob|deref-only-in-run', 'the erased job pointer is dereferenced in %s' % short(other[0]), fn=other[0]))
    elif derefs.get(runfn):
        out.append(ok(R, 'UnsafeJob|deref-only-in-run', 'the erased pointer is dereferenced only in UnsafeJob::run', fn=runfn))
    else:
        out.append(undecided(R, 'UnsafeJob|deref-only-in-run', 'no dereference of the erased pointer found'))
    # constructors are unsafe fns
    for c in ('new', 'new_with_notification'):
        f = F.fn(UNSAFE_JOB + '::' + c)
        if f and f.j.get('unsafe'):
            out.append(ok(R, 'UnsafeJob::%s|unsafe' % c, 'constructor is an unsafe fn', fn=f.name))
        else:
            out.append(bad(R, 'UnsafeJob::%s|unsafe' % c, 'lifetime-erasing constructor is callable from safe code'))
    return out


def _has_pred(preds, self_, trait=None, outlives=None):
    for p in preds:
        if p.get('self') != self_:
            continue
        if trait and p.get('k') == 'trait' and p.get('trait') == trait:
            return True
        if outlives and p.get('k') == 'outlives' and outlives in p.get('region', ''):
            return True
    return False


def ua_bounds(ctx):
    """The bounds that make the unsafe impls and the lifetime erasure sound are present on the impls and on every public signature."""
    F = ctx.F
    out = []
    R = 'UA-bounds'
    SEND = 'core::marker::Send'
    for tr in ('Send', 'Sync'):
        im = [i for i in F.impls if i['self_head'] == DESYNC and (i.get('trait') or '').endswith('marker::' + tr)]
        key = 'unsafe impl %s for Desync<T>' % tr
        if len(im) != 1:
            out.append(undecided(R, key, 'impl not found'))
        elif _has_pred(im[0]['preds'], 'T', SEND):
            out.append(ok(R, key, 'requires T: Send'))
        else:
            out.append(bad(R, key, 'no longer requires T: Send: a !Send value can be moved to / touched from pool threads'))
    im = [i for i in F.impls if i['self_head'] == DATAREF and (i.get('trait') or '').endswith('marker::Send')]
    if im and _has_pred(im[0]['preds'], 'T', SEND):
        out.append(ok(R, 'unsafe impl Send for DataRef<T>', 'requires T: Send'))
    else:
        out.append(bad(R, 'unsafe impl Send for DataRef<T>', 'missing or no longer requires T: Send'))
    sync_impls = [i for i in F.impls if i['self_head'] == DATAREF and (i.get('trait') or '').endswith('marker::Sync')]
    if sync_impls:
        out.append(bad(R, 'DataRef|not-Sync', 'DataRef is Sync: the raw pointer could be shared between threads outside the queue'))
    sigs = {
        DESYNC + '::desync': [('TFn', SEND, None), ('TFn', None, "'static")],
        DESYNC + '::future_desync': [('TFn', SEND, None), ('TFn', None, "'static"), ('TOutput', SEND, None), ('TOutput', None, "'static")],
        DESYNC + '::after': [('TFn', SEND, None), ('TFn', None, "'static"), ('Fut', SEND, None), ('Fut', None, "'static"), ('Res', SEND, None), ('Res', None, "'static")],
        DESYNC + '::sync': [('TFn', SEND, None), ('Result', SEND, None)],
        DESYNC + '::try_sync': [('TFn', SEND, None), ('FnResult', SEND, None)],
        DESYNC + '::future_sync': [('TFn', SEND, None), ('TOutput', SEND, None)],
        S + 'desync': [('TFn', SEND, None), ('TFn', None, "'static")],
        S + 'future_desync': [('TFn', SEND, None), ('TFn', None, "'static"), ('TFuture', SEND, None)],
        S + 'after': [('TFn', SEND, None), ('TFn', None, "'static"), ('Fut', SEND, None), ('Fut', None, "'static"), ('Res', SEND, None)],
        S + 'sync': [('TFn', SEND, None), ('Result', SEND, None)],
        S + 'try_sync': [('TFn', SEND, None), ('FnResult', SEND, None)],
        S + 'future_sync': [('TFn', SEND, None), ('TFuture', SEND, None)],
        'desync::pipe_in': [('ProcessFn', SEND, None), ('ProcessFn', None, "'static"), ('S', SEND, None), ('S', None, "'static"), ('Core', SEND, None)],
        'desync::pipe': [('ProcessFn', SEND, None), ('ProcessFn', None, "'static"), ('S', SEND, None), ('S', None, "'static"), ('Output', SEND, None), ('Core', SEND, None)],
    }
    for name, reqs in sigs.items():
        fn = F.fn(name)
        key = short(name)
        if not fn:
            out.append(undecided(R, key, 'anchor not found'))
            continue
        missing = []
        names = [g['name'] for g in fn.generics]
        for (p, tr, ol) in reqs:
            if p not in names:
                missing.append('%s (parameter gone)' % p)
            elif tr and not _has_pred(fn.preds_of, p, tr):
                missing.append('%s: Send' % p)
            elif ol and not _has_pred(fn.preds_of, p, None, ol):
                missing.append("%s: 'static" % p)
        if missing:
            out.append(bad(R, key, 'bound(s) relaxed: %s — values of these types cross to pool threads / outlive the call through lifetime-erased pointers' % ', '.join(missing), fn=name))
        else:
            out.append(ok(R, key, 'bounds present: ' + ', '.join("%s: %s" % (p, 'Send' if tr else "'static") for p, tr, ol in reqs), fn=name))
    tr = [t for t in F.traits if t['path'] == 'desync::ScheduledJob']
    if tr and any(p.get('trait') == SEND for p in tr[0]['supers']):
        out.append(ok(R, 'ScheduledJob: Send', 'jobs must be Send'))
    else:
        out.append(bad(R, 'ScheduledJob: Send', 'ScheduledJob no longer requires Send'))
    # Desync<T> keeps the marker that makes it !RefUnwindSafe / invariant
    a = F.adts.get(DESYNC)
    if a:
        mk = [f for f in a['variants'][0]['fields'] if 'PhantomData' in f['ty']]
        if mk and 'UnsafeCell' in mk[0]['ty']:
            out.append(ok(R, 'Desync|marker', 'PhantomData<UnsafeCell<T>> marker present'))
        else:
            out.append(bad(R, 'Desync|marker', 'the PhantomData<UnsafeCell<T>> marker is gone'))
    return out


def _peel_local(fn, o, depth=0):
    """The local an operand designates after peeling `&mut x`, reborrows, moves and Pin::new / new_unchecked."""
    if o['k'] not in ('copy', 'move'):
        return None
    l = o['pl']['l']
    for _ in range(12):
        ds = fn.defs().get(l, [])
        if len(ds) != 1:
            return l
        d = ds[0]
        if d[0] == 'stmt':
            rv = d[3]
            if rv['k'] in ('ref', 'rawptr'):
                l = rv['pl']['l']
                continue
            if rv['k'] == 'use' and rv['op']['k'] in ('copy', 'move') and any(p['k'] == 'deref' for p in rv['op']['pl']['p']) is False and fn.local_ty(rv['op']['pl']['l']).startswith('&'):
                l = rv['op']['pl']['l']
                continue
            return l
        if d[0] == 'call':
            t = d[2]
            if (t['func'].get('fn') or '') in ('core::pin::Pin::new_unchecked', 'core::pin::Pin::new') and t['args'] and t['args'][0]['k'] in ('copy', 'move'):
                l = t['args'][0]['pl']['l']
                continue
            return l
        return l
    return l


def ua_borrow(ctx):
    """The future a future_sync caller builds from `&mut T` is destroyed before the queue slot is released.

    Either the job closure wraps the caller's future in an in-crate async block (which destroys the awaited future when it completes, before
    returning Ready), or SyncFuture::poll itself destroys the future before it sends task_finished."""
    from .ordq import await_sites, edge_for
    F = ctx.F
    out = []
    R = 'UA-borrow'
    sync_poll = F.fn('<desync::SyncFuture as core::future::future::Future>::poll')
    # (b) does SyncFuture::poll destroy the completed future before releasing the slot?
    poll_drops_first = None
    if sync_poll:
        for bb, t in sync_poll.calls():
            name = t['func'].get('fn') or ''
            if name not in ('futures_util::future::future::FutureExt::poll_unpin', 'core::future::future::Future::poll'):
                continue
            st = clean_ty(t.get('self_ty') or '').replace('&mut ', '').replace('&', '')
            if st.startswith('core::pin::Pin<'):
                st = st[len('core::pin::Pin<'):-1].replace('&mut ', '')
            if st not in [g['name'] for g in sync_poll.generics]:
                continue
            L = _peel_local(sync_poll, t['args'][0])
            e = result_edges(sync_poll, bb)
            ready = edge_for(e, 'core::task::poll::Poll', 'Ready') if e else None
            if L is None or ready is None:
                continue
            rel = set()
            for b2, t2 in sync_poll.calls():
                if sync_poll.blocks[b2]['cleanup']:
                    continue
                if any('task_finished' in render(sync_poll.expr_of_operand(a)) for a in t2['args'] if a['k'] != 'const'):
                    rel.add(b2)
            rel = set(b for b in rel if b in sync_poll.reachable_blocks(ready))
            drops = set(b for b, blk in enumerate(sync_poll.blocks) if blk['term'] and blk['term']['k'] == 'drop' and not blk['term']['pl']['p'] and blk['term']['pl']['l'] == L)
            # ... or handed to mem::drop
            for b2, t2 in sync_poll.calls():
                if (t2['func'].get('fn') or '') == 'core::mem::drop' and t2['args'] and t2['args'][0]['k'] == 'move' and not t2['args'][0]['pl']['p']:
                    a = t2['args'][0]['pl']['l']
                    ds = sync_poll.defs().get(a, [])
                    if a != L and len(ds) == 1 and ds[0][0] == 'stmt' and ds[0][3]['k'] == 'use' and ds[0][3]['op']['k'] == 'move' and not ds[0][3]['op']['pl']['p']:
                        a = ds[0][3]['op']['pl']['l']
                    if a == L:
                        drops.add(b2)
            if rel:
                poll_drops_first = sync_poll.must_pass(ready, rel, drops)
    n = 0
    for fn in F.crate_fns():
        if not fn.is_closure or fn.is_coroutine:
            continue
        if not [d for d in raw_derefs(fn) if d[2] == '*mut T']:
            continue
        m = F.fn(fn.parent) if fn.parent else None
        if not m:
            continue
        found = None
        for bb, t in m.calls():
            for a in t['args']:
                if a['k'] != 'const' and clean_ty(a['pl']['ty']) == '{closure:%s}' % fn.name:
                    found = t
        if not found or (found['func'].get('fn') or '') != S + 'future_sync':
            continue
        n += 1
        key = short(fn.name)
        # (a) the closure returns an in-crate async block that awaits the caller's future
        ret = fn.expr_of_local(0)
        wrapped = False
        why = 'the closure hands the caller\'s future to the scheduler as it is'
        if ret[0] == 'agg' and ret[1] == 'coroutine' and F.fn(ret[2]):
            co = F.fn(ret[2])
            aw = await_sites(co)
            if not aw:
                why = 'the async block returned by the closure awaits nothing'
            else:
                wrapped = True
                for a in aw:
                    pt = co.blocks[a['poll_bb']]['term']
                    L = _peel_local(co, pt['args'][0])
                    drops = set(b for b, blk in enumerate(co.blocks) if blk['term'] and blk['term']['k'] == 'drop' and not blk['term']['pl']['p'] and blk['term']['pl']['l'] == L)
                    if a['ready'] is None or L is None or not co.must_pass(a['ready'], set(co.exits()), drops):
                        wrapped = False
                        why = 'the async block can return without destroying the awaited future'
        if wrapped:
            out.append(ok(R, key, 'the caller\'s future is awaited inside an async block, which destroys it (and the &mut T it holds) before reporting Ready', fn=fn.name))
        elif poll_drops_first:
            out.append(ok(R, key, 'SyncFuture::poll destroys the completed future before it releases the queue slot', fn=fn.name))
        elif poll_drops_first is None and not wrapped and sync_poll is None:
            out.append(undecided(R, key, 'SyncFuture::poll not found'))
        else:
            out.append(bad(R, key, '%s, and SyncFuture::poll sends task_finished (releasing the queue slot) before it destroys the completed future: a future whose destructor touches the &mut T it was given runs it while the next job already has access' % why, fn=fn.name))
    if n < 1:
        out.append(undecided(R, 'floor', 'no future_sync job closure dereferencing the payload pointer was found'))
    return out


LEAKERS = ('core::mem::forget', 'core::mem::manually_drop::ManuallyDrop::new', 'alloc::boxed::Box::leak', 'alloc::sync::Arc::into_raw', 'alloc::rc::Rc::into_raw',
           'alloc::sync::Arc::increment_strong_count', 'alloc::boxed::Box::into_raw', 'alloc::vec::Vec::leak')
LEAK_AUDITED = {
    ('desync::Desync::new', 'alloc::boxed::Box::into_raw'): 'the payload box; re-boxed and freed exactly once in Desync::drop (UA-free)',
}


def ua_leak(ctx):
    """Nothing is deliberately kept from being dropped.  The protocol leans on destructors in several places (a dropped QueueResumer resumes
    the queue, a dropped signaller cancels its future, a dropped oneshot sender counts as "finished", a dropped UnsafeJob notifies its waiter):
    a value that is forgotten takes those signals with it."""
    F = ctx.F
    out = []
    n = 0
    for fn in F.crate_fns():
        for bb, t in fn.calls():
            name = t['func'].get('fn') or ''
            if name not in LEAKERS or fn.blocks[bb]['cleanup']:
                continue
            n += 1
            key = '%s|%s' % (short(fn.root or fn.name), name.split('::')[-1])
            why = LEAK_AUDITED.get((fn.root or fn.name, name))
            if not why and name == 'alloc::boxed::Box::into_raw' and not fn.is_closure and fn.name.startswith('desync::Desync::'):
                # another constructor of Desync: the raw pointer goes straight into the `data` field of the Desync it returns (and nowhere else)
                for b2 in fn.blocks:
                    for s2 in b2['stmts']:
                        # (the aggregate may be built in a private helper that was inlined: then it lands in a temporary first)
                        if s2['k'] == 'assign' and s2['rv']['k'] == 'agg' and s2['rv'].get('adt') == 'desync::Desync' and not s2['pl']['p'] \
                                and (s2['pl']['l'] == 0 or clean_ty(fn.local_ty(0) or '').startswith('desync::Desync<')):
                            comps = [render(fn.expr_of_operand(o_)) for o_ in s2['rv'].get('ops', [])]
                            if sum(1 for c_ in comps if c_.startswith('into_raw(')) == 1:
                                why = 'the payload box of a constructor (`%s` builds the Desync it returns around it); freed exactly once in Desync::drop (UA-free)' % short(fn.name)
            if why:
                out.append(ok('UA-leak', key, 'audited: ' + why, loc=fn.loc(bb), fn=fn.name))
            else:
                what = clean_ty(t['args'][0]['pl']['ty']) if t['args'] and t['args'][0]['k'] != 'const' else '?'
                out.append(bad('UA-leak', key, 'a value of type %s is deliberately never dropped (%s): whatever waits for its destructor (a resumed queue, a cancelled future, a finished hand-shake, a freed result) waits for ever' % (what[:80], name.split('::')[-1]), loc=fn.loc(bb), fn=fn.name))
    if n < 1:
        out.append(undecided('UA-leak', 'floor', 'the audited Box::into_raw of Desync::new was not found'))
    elif not any(i.verdict == 'violation' for i in out):
        out.append(ok('UA-leak', 'none', '%d leak-capable call(s), all audited' % n))
    return out


IDENTITY_FIELDS = (
    # (struct, field, expected type prefix, what it names)
    ('desync::Desync', 'queue', 'alloc::sync::Arc<desync::JobQueue', 'the one queue that serialises access to the value'),
    ('desync::Desync', 'data', '*mut T', 'the value itself'),
    ('desync::SchedulerFuture', 'queue', 'alloc::sync::Arc<desync::JobQueue', 'the queue the future\'s operation was scheduled on'),
    ('desync::SchedulerFuture', 'scheduler', 'desync::Scheduler', 'the scheduler that owns that queue\'s schedule entry'),
    ('desync::SchedulerFuture', 'id', 'desync::FutureId', 'the id the queue is parked under (WaitingForPoll)'),
    ('desync::SchedulerFuture', 'result', 'alloc::sync::Arc<', 'the slot the job delivers into'),
    ('desync::Scheduler', 'core', 'alloc::sync::Arc<desync::SchedulerCore', 'the schedule and the thread table'),
    ('desync::PipeContext', 'target', 'alloc::sync::Weak<desync::Desync<', 'the object the pipe feeds (weakly)'),
    ('desync::PipeStream', 'core', 'alloc::sync::Arc<', 'the buffer shared with the producer'),
    ('desync::UnsafeJob', 'action', '*mut dyn(desync::ScheduledJob)', 'the caller\'s job'),
)


def id_fixed(ctx):
    """Fields that say *which* object a handle talks about are set when the handle is made and never again, and keep their plain type: no
    lazily created, cached, swapped or optional identity."""
    from .rules_lw import FieldUse
    F = ctx.F
    out = []
    n = 0
    for adt_name, field, ty_prefix, what in IDENTITY_FIELDS:
        key = '%s.%s|fixed-at-construction' % (adt_name.split('::')[-1], field)
        adt = F.adts.get(adt_name)
        if not adt:
            continue
        fl = [f_ for v in adt['variants'] for f_ in v['fields'] if f_['name'] == field]
        if not fl:
            out.append(undecided('ID-fixed', key, 'field not found'))
            continue
        n += 1
        ty = clean_ty(fl[0]['ty'])
        writers = sorted(fn.name for fn in F.crate_fns() if FieldUse(fn, adt_name).assigns.get(field))
        if not ty.startswith(ty_prefix):
            out.append(bad('ID-fixed', key, '%s.%s (%s) is now a `%s`: an identity that can be absent, replaced or created late is not the same object for every user of the handle' % (adt_name.split('::')[-1], field, what, ty[:60])))
        elif writers:
            out.append(bad('ID-fixed', key, '%s.%s (%s) is assigned after construction in %s' % (adt_name.split('::')[-1], field, what, short(writers[0])), fn=writers[0]))
        else:
            out.append(ok('ID-fixed', key, 'plain `%s`, set by the constructor only' % ty_prefix.rstrip('<')))
    if n < 8:
        out.append(undecided('ID-fixed', 'floor', 'only %d of %d identity fields found' % (n, len(IDENTITY_FIELDS))))
    out.extend(_id_fresh(ctx))
    return out


def _fresh_queue_expr(e, depth=0):
    """`Arc::new(<a JobQueue constructor or literal>)`, possibly through clones / moves: a queue nobody else can hold yet."""
    while e[0] == 'call' and e[1].endswith('::clone') and e[2]:
        e = e[2][0]
    if e[0] == 'call' and e[1] == 'alloc::sync::Arc::new' and e[2]:
        a = e[2][0]
        if a[0] == 'call' and a[1].startswith('desync::JobQueue::'):
            return True
        if a[0] == 'agg' and len(a) > 2 and str(a[2]).startswith('desync::JobQueue'):
            return True
    return False


def _id_fresh(ctx):
    """One queue per object: the queue a new Desync serialises its value with is made for it (`Arc::new(JobQueue::new())` of that very call,
    directly or through `queue()` / `create_job_queue()`), never taken from a place that other objects can reach (a pool of spare queues, a
    cache, a static).  Two objects on one queue wait for each other's operations (and `try_sync` reports Busy for the other's work)."""
    F = ctx.F
    out = []
    R = 'ID-fixed'
    cj = F.fn('desync::Scheduler::create_job_queue')
    key = 'Scheduler::create_job_queue|returns-a-fresh-queue'
    if not cj:
        out.append(undecided(R, key, 'anchor not found'))
    else:
        # every value that reaches the return place
        rets = []
        for b in cj.blocks:
            if b['cleanup']:
                continue
            for s_ in b['stmts']:
                if s_['k'] == 'assign' and not s_['pl']['p'] and s_['pl']['l'] == 0:
                    rets.append(cj.expr_of_rvalue(s_['rv']))
            t = b['term']
            if t['k'] == 'call' and t.get('dest') and not t['dest']['p'] and t['dest']['l'] == 0:
                rets.append(cj.expr_of_call(t))
        if not rets:
            out.append(undecided(R, key, 'no assignment of the return value found'))
        elif all(_fresh_queue_expr(e) for e in rets):
            out.append(ok(R, key, 'returns `Arc::new(JobQueue::new())` of this call on every path', fn=cj.name))
        else:
            badx = [e for e in rets if not _fresh_queue_expr(e)][0]
            out.append(bad(R, key, 'create_job_queue can return a queue it did not create in this call (%s): a queue that something else still holds - another Desync, a pool of spares, a cache - makes two objects '
                           'share one order of execution, so operations on one wait for the other\'s and try_sync reports Busy for work that is not the object\'s own' % render(badx)[:80], fn=cj.name))
    # the id a queue is parked under for a polling future, and the id a poll compares it with, is the future's construction-time `id`
    # (a value that moves with the future), never something recomputed from where the future happens to be or who polls it
    def _own_id(e):
        while e[0] == 'call' and e[1].endswith('::clone') and e[2]:
            e = e[2][0]
        return e[0] == 'field' and e[2] == 'id' and 'SchedulerFuture' in str(e[3])

    def _copied_id(e):
        # the payload of an existing WaitingForPoll value (a transition function that rebuilds the state it found), or a value handed in
        return (e[0] == 'field' and e[1][0] == 'downcast' and e[1][2] == 'WaitingForPoll') or e[0] in ('arg', 'local', 'upvar')
    nid = 0
    for fn in F.crate_fns():
        for bi, b in enumerate(fn.blocks):
            if b['cleanup']:
                continue
            for s_ in b['stmts']:
                if s_['k'] == 'assign' and s_['rv']['k'] == 'agg' and s_['rv'].get('adt') == 'desync::QueueState' and s_['rv'].get('variant') == 'WaitingForPoll' and s_['rv'].get('ops'):
                    nid += 1
                    key = '%s|parks-under-the-futures-own-id' % short(fn.root or fn.name)
                    e = fn.expr_of_operand(s_['rv']['ops'][0])
                    if _own_id(e):
                        out.append(ok(R, key, 'WaitingForPoll(self.id)', fn=fn.name))
                    elif _copied_id(e):
                        nid -= 1
                    else:
                        out.append(bad(R, key, 'the queue is parked as WaitingForPoll(%s), which is not the `id` the future was given when it was made: a future that is moved, re-wrapped or polled from elsewhere '
                                       'no longer recognises the queue it parked, answers "somebody else is draining" and the suspended operation is never polled again' % render(e)[:60], loc=fn.loc(bi), fn=fn.name))
            t = b['term']
            if t['k'] == 'call' and (t['func'].get('fn') or '').endswith('PartialEq::eq') and len(t['args']) == 2 and not fn.name.startswith('<'+'desync::QueueState'):
                es = [fn.expr_of_operand(a) for a in t['args']]
                st = [x for x in es if x[0] == 'field' and x[1][0] == 'downcast' and x[1][2] == 'WaitingForPoll']
                if len(st) == 1:
                    nid += 1
                    other = [x for x in es if x is not st[0]][0]
                    key = '%s|compares-with-the-futures-own-id' % short(fn.root or fn.name)
                    if _own_id(other):
                        out.append(ok(R, key, 'WaitingForPoll(owner) is compared with self.id', fn=fn.name))
                    elif _copied_id(other):
                        nid -= 1
                    else:
                        out.append(bad(R, key, 'the owner of a parked queue is compared with %s, not with the `id` the future was given when it was made: the future that parked the queue may not recognise it' % render(other)[:60], loc=fn.loc(bi), fn=fn.name))
    if nid < 1:
        out.append(undecided(R, 'floor:future-id', 'no site that parks a queue under a future id (or compares one) was recognised'))
    fq = F.fn('desync::queue')
    n = 0
    for fn in F.crate_fns():
        if fn.is_closure or not fn.name.startswith('desync::Desync::'):
            continue
        for b in fn.blocks:
            if b['cleanup']:
                continue
            for s_ in b['stmts']:
                if s_['k'] == 'assign' and s_['rv']['k'] == 'agg' and s_['rv'].get('adt') == 'desync::Desync' and s_['rv'].get('ops'):
                    n += 1
                    key = '%s|queue-made-for-this-object' % short(fn.name)
                    q = fn.expr_of_operand(s_['rv']['ops'][0])
                    while q[0] == 'call' and q[1].endswith('::clone') and q[2]:
                        q = q[2][0]
                    if _fresh_queue_expr(q) or (q[0] == 'call' and q[1] in ('desync::queue', 'desync::Scheduler::create_job_queue')):
                        out.append(ok(R, key, 'the queue of the new Desync is `%s` of this call' % render(q)[:50], fn=fn.name))
                    else:
                        out.append(bad(R, key, 'a Desync is built around a queue that this constructor did not create (%s): whoever else holds that queue shares the object\'s order of execution' % render(q)[:80], fn=fn.name))
    if n < 1:
        out.append(undecided(R, 'floor:constructors', 'no constructor of Desync found'))
    if fq:
        key = 'queue|returns-a-fresh-queue'
        e = fq.expr_of_local(0)
        if _fresh_queue_expr(e) or (e[0] == 'call' and e[1] == 'desync::Scheduler::create_job_queue'):
            out.append(ok(R, key, 'queue() returns what create_job_queue() made', fn=fq.name))
        else:
            out.append(bad(R, key, 'queue() returns %s instead of a queue created by this call' % render(e)[:80], fn=fq.name))
    return out


# ---------------------------------------------------------------------------------------------
FRESH_FIELDS = (
    # (struct, field, kind, what it is / why it must be made for this object)
    ('desync::SchedulerFuture', 'result', 'arc', 'the slot the job delivers its result into (shared only with that job\'s signaller)'),
    ('desync::PipeStream', 'core', 'arc', 'the output buffer and waker slots of one pipe'),
    ('desync::Scheduler', 'core', 'arc', 'the schedule and thread table of one scheduler'),
    ('desync::SchedulerCore', 'schedule', 'arc', 'the list of queues waiting for a thread of this scheduler'),
    ('desync::SchedulerCore', 'threads', 'any', 'the thread table of this scheduler'),
    ('desync::SchedulerCore', 'max_threads', 'any', 'the size limit of this scheduler\'s pool'),
    ('desync::JobQueue', 'core', 'mutex', 'the state and job list of one queue'),
    ('desync::PipeContext', 'poll_fn', 'arc', 'the poll function (input stream + closure) of one pipe'),
    ('desync::DrainWaker', 'state', 'mutex', 'the latch of one poll-side drain'),
)
INITIAL_VALUES = (
    # (struct, field, accepted renderings of the initial value, what)
    ('desync::JobQueueCore', 'state', ('QueueState::Idle{}',), 'a new queue is Idle (nobody runs it, nothing is owed)'),
    ('desync::JobQueueCore', 'queue', ('new()', 'with_capacity('), 'a new queue holds no job'),
    ('desync::PipeStreamCore', 'closed', ('0',), 'a new pipe is open'),
    ('desync::PipeStreamCore', 'pending', ('new()', 'with_capacity('), 'a new pipe has produced nothing'),
    ('desync::SchedulerFutureResult', 'result', ('FutureResultState::None{}',), 'a new future has no result'),
    ('desync::SchedulerFuture', 'draining', ('0',), 'a new future is not draining its queue'),
)


def _strip_clones(e):
    while e[0] == 'call' and e[1].endswith(('::clone', 'Into::into', 'From::from')) and e[2]:
        e = e[2][0]
    return e


def id_fresh_objects(ctx):
    """Every protocol object is made for its owner: the shared slots, tables and latches that the rules reason about per object (one result
    slot per future, one buffer per pipe, one schedule per scheduler, one state per queue, one busy flag per pool thread) are created where
    the object is created - an `Arc::new(..)` / `Mutex::new(..)` of that very constructor call, never a clone of something that already
    exists (a cache, a pool of spares, a static, a thread-local, a field of another object).  And they start out in the state the protocol
    starts from.  Two objects that share one of these answer for each other: a result delivered to the wrong future, a thread marked busy
    for another thread's work, a pipe closed by another pipe's consumer."""
    F = ctx.F
    out = []
    R = 'ID-fresh'
    n = 0
    for adt_name, field, kind, what in FRESH_FIELDS:
        adt = F.adts.get(adt_name)
        if not adt:
            continue
        names = [f_['name'] for f_ in adt['variants'][0]['fields']]
        if field not in names:
            continue
        idx = names.index(field)
        for fn in F.crate_fns():
            for b in fn.blocks:
                if b['cleanup']:
                    continue
                for s_ in b['stmts']:
                    if s_['k'] == 'assign' and s_['rv']['k'] == 'agg' and s_['rv'].get('adt') == adt_name and len(s_['rv'].get('ops', [])) > idx:
                        n += 1
                        key = '%s.%s|made-by-%s' % (adt_name.split('::')[-1], field, short(fn.root or fn.name))
                        e = _strip_clones(fn.expr_of_operand(s_['rv']['ops'][idx]))
                        # a new single-field wrapper around the shared object (`struct Schedule(Arc<Mutex<..>>)` with Deref) is the object
                        from .newtypes import known_adts as _known_adts
                        for _ in range(3):
                            if e[0] == 'agg' and e[1] == 'tuple' and len(e[3]) == 1:
                                e = _strip_clones(e[3][0])      # the wrapper after the transparency pass (dsa/newtypes.py)
                            elif e[0] == 'agg' and len(e[3]) == 1 and str(e[2]).startswith('desync::') and str(e[2]) not in _known_adts() and '::' not in str(e[2])[len('desync::'):]:
                                e = _strip_clones(e[3][0])
                        want = 'alloc::sync::Arc::new' if kind == 'arc' else 'std::sync::poison::mutex::Mutex::new'
                        if e[0] == 'call' and (e[1] == want or (kind == 'any' and e[1] in ('alloc::sync::Arc::new', 'std::sync::poison::mutex::Mutex::new'))):
                            out.append(ok(R, key, 'a fresh `%s(..)` of this constructor call' % want.split('::')[-2], fn=fn.name))
                        elif e[0] in ('arg', 'var') and fn.is_helper:
                            pass
                        elif e[0] == 'arg' and adt_name in ('desync::Scheduler',) and kind == 'arc':
                            # a handle on an existing scheduler (SchedulerFuture keeps `Scheduler { core }` of the scheduler it was made by)
                            out.append(ok(R, key, 'a handle on the caller\'s scheduler core', fn=fn.name))
                        else:
                            out.append(bad(R, key, '%s.%s (%s) is not created by the constructor call that builds the %s (%s): whatever else holds it shares this object\'s %s' % (
                                adt_name.split('::')[-1], field, what, adt_name.split('::')[-1], render(e)[:60], field), fn=fn.name))
    # a pool thread's busy flag: one per thread, starting false
    for fn in F.crate_fns():
        for bb, t in fn.calls():
            if (t['func'].get('fn') or '').endswith('Vec::push') and t['args'] and t['args'][0]['k'] != 'const' and 'SchedulerThread' in clean_ty(t['args'][0]['pl']['ty']) and not fn.blocks[bb]['cleanup'] and len(t['args']) > 1:
                e = fn.expr_of_operand(t['args'][1])
                recv = render(fn.expr_of_operand(t['args'][0]))
                if e[0] == 'agg' and e[1] == 'tuple' and len(e[3]) == 2 and 'lock(' in recv and '.threads' in recv:
                    n += 1
                    key = 'thread.busy|made-by-%s' % short(fn.root or fn.name)
                    flag = _strip_clones(e[3][0])
                    txt = render(flag).replace(' ', '')
                    if flag[0] == 'call' and flag[1] == 'alloc::sync::Arc::new' and txt.endswith('new(new(0))'):
                        out.append(ok(R, key, 'a fresh flag, initially false, for the thread that is pushed', fn=fn.name))
                    elif flag[0] == 'call' and flag[1] == 'alloc::sync::Arc::new':
                        out.append(bad(R, key, 'a new pool thread starts out marked busy (%s): it is never handed work and never counted idle' % render(flag)[:40], fn=fn.name))
                    else:
                        out.append(bad(R, key, 'the busy flag of a new pool thread is not its own (%s): work handed to one thread marks another one busy, and an idle thread is passed over' % render(flag)[:60], fn=fn.name))
    # initial values
    for adt_name, field, accepted, what in INITIAL_VALUES:
        adt = F.adts.get(adt_name)
        if not adt:
            continue
        names = [f_['name'] for f_ in adt['variants'][0]['fields']]
        if field not in names:
            continue
        idx = names.index(field)
        for fn in F.crate_fns():
            for b in fn.blocks:
                if b['cleanup']:
                    continue
                for s_ in b['stmts']:
                    if s_['k'] == 'assign' and s_['rv']['k'] == 'agg' and s_['rv'].get('adt') == adt_name and len(s_['rv'].get('ops', [])) > idx:
                        n += 1
                        key = '%s.%s|initial-value-in-%s' % (adt_name.split('::')[-1], field, short(fn.root or fn.name))
                        txt = render(fn.expr_of_operand(s_['rv']['ops'][idx]))
                        if any(txt == a_ or (a_.endswith('(') and txt.startswith(a_)) for a_ in accepted):
                            out.append(ok(R, key, '%s (`%s`)' % (what, txt[:30]), fn=fn.name))
                        elif txt in ('1', '0') or txt.endswith('{}') or txt.startswith(('QueueState::', 'FutureResultState::')):
                            out.append(bad(R, key, '%s.%s starts out as `%s`: %s is what every rule and every caller assumes' % (adt_name.split('::')[-1], field, txt[:40], what), fn=fn.name))
    if n < 12:
        out.append(undecided(R, 'floor', 'only %d constructor sites recognised (expected at least 12)' % n))
    return out


# ---------------------------------------------------------------------------------------------
def _x(fn, o):
    return _strip_clones(fn.expr_of_operand(o))


def _base_arc(e):
    """The shared pointer an access path starts from: for an object created in the function (`Arc::new(..)`), the creation itself
    (`(*arc).0` -> arc); for an object reached through a parameter, the access path without clones / derefs / locks (`self.schedule`)."""
    WRAP = ('::clone', '::deref', '::borrow', '::as_ref', 'Mutex::lock', 'Mutex::try_lock', 'Result::unwrap', 'Result::expect')
    full = e
    for _ in range(20):
        if full[0] in ('field', 'downcast', 'index', 'deref'):
            full = full[1]
        elif full[0] == 'call' and full[2] and full[1].endswith(WRAP):
            full = full[2][0]
        else:
            break
    if full[0] == 'call' and full[1].endswith(('Arc::new', 'Mutex::new')):
        return full
    light = e
    for _ in range(20):
        if light[0] == 'deref':
            light = light[1]
        elif light[0] == 'call' and light[2] and light[1].endswith(WRAP):
            light = light[2][0]
        else:
            break
    return light


def _is_flag_ty(ty):
    t = clean_ty(ty).replace('std::sync::poison::mutex::', '').replace('alloc::sync::', '').replace('&mut ', '').replace('&', '').strip()
    return t in ('Mutex<bool>', 'Arc<Mutex<bool>>')


def id_same(ctx):
    """The two ends of every hand-shake are the same object.  Each of the crate's hand-shakes is written as "create a shared object, give a
    clone to the other party, keep one": the blocked caller's condition variable (registered with the queue, handed to its job, waited on),
    its ready flag and result slot, a pool thread's busy flag (set by the scheduler, cleared by the thread), the schedule a pool thread reads
    (the one queues are pushed on), a future's result slot (filled by the signaller).  A clone replaced by a fresh object of the same type
    type-checks, passes every ordering rule - and the two parties talk past each other."""
    F = ctx.F
    out = []
    R = 'ID-same'
    n = 0

    def same(key, what, exprs, fn):
        nonlocal n
        exprs = [e for e in exprs if e is not None]
        if len(exprs) < 2:
            return
        n += 1
        if all(e == exprs[0] for e in exprs[1:]):
            out.append(ok(R, key, '%s: one object (%s)' % (what, render(exprs[0])[:40]), fn=fn.name))
        else:
            d = [e for e in exprs if e != exprs[0]][0]
            out.append(bad(R, key, '%s are different objects (`%s` vs `%s`): the party that waits and the party that signals do not share it' % (what, render(exprs[0])[:50], render(d)[:50]), fn=fn.name))
    sb = F.fn('desync::Scheduler::sync_background')
    if sb:
        waits = [t for bb, t in sb.calls() if (t['func'].get('fn') or '').startswith('std::sync::poison::condvar::Condvar::wait') and not sb.blocks[bb]['cleanup']]
        downs = [t for bb, t in sb.calls() if (t['func'].get('fn') or '').endswith('Arc::downgrade') and t['args'] and t['args'][0]['k'] != 'const' and 'Condvar' in clean_ty(t['args'][0]['pl']['ty']) and not sb.blocks[bb]['cleanup']]
        news = [t for bb, t in sb.calls() if (t['func'].get('fn') or '').endswith('UnsafeJob::new_with_notification') and not sb.blocks[bb]['cleanup']]
        cv = [_base_arc(_x(sb, t['args'][0])) for t in waits] + [_base_arc(_x(sb, t['args'][0])) for t in downs] + [_base_arc(_x(sb, t['args'][1])) for t in news if len(t['args']) > 2]
        same('sync_background|one-condition-variable', 'the condition variable that is registered with the queue, handed to the job and waited on', cv, sb)
        flags = [_base_arc(_x(sb, t['args'][2])) for t in news if len(t['args']) > 2]
        locks = [_base_arc(_x(sb, t['args'][0])) for bb, t in sb.calls() if (t['func'].get('fn') or '').endswith('Mutex::lock') and t['args'] and t['args'][0]['k'] != 'const'
                 and _is_flag_ty(t['args'][0]['pl']['ty']) and not sb.blocks[bb]['cleanup']]
        same('sync_background|one-ready-flag', 'the ready flag handed to the job and the flag the caller tests', flags + locks, sb)
    for name in ('desync::Scheduler::sync_background', 'desync::Scheduler::sync_drain'):
        fn = F.fn(name)
        if not fn:
            continue
        caps = []
        for b in fn.blocks:
            for s_ in b['stmts']:
                if s_['k'] == 'assign' and s_['rv']['k'] == 'agg' and s_['rv'].get('ak') == 'closure':
                    for o in s_['rv'].get('ops', []):
                        if o['k'] != 'const' and 'Arc<' in clean_ty(o['pl']['ty']):
                            caps.append(_base_arc(_x(fn, o)))
        takes = [_base_arc(_x(fn, t['args'][0])) for bb, t in fn.calls() if (t['func'].get('fn') or '').endswith(('Option::take', 'mem::replace', 'mem::take')) and t['args'] and t['args'][0]['k'] != 'const'
                 and 'Option<' in clean_ty(t['args'][0]['pl']['ty']) and not fn.blocks[bb]['cleanup'] and 'lock(' in render(fn.expr_of_operand(t['args'][0]))]
        if caps and takes:
            n += 1
            key = '%s|one-result-slot' % short(name)
            if all(any(t_ == c_ for c_ in caps) for t_ in takes):
                out.append(ok(R, key, 'the slot the caller empties is the slot its job was given', fn=fn.name))
            else:
                out.append(bad(R, key, 'the caller reads its result from a slot (`%s`) that the queued job was not given: the job\'s value goes elsewhere and the caller finds nothing' % render(takes[0])[:50], fn=fn.name))
    sd = F.fn('desync::SchedulerCore::schedule_dormant')
    if sd:
        runs = [(bb, t) for bb, t in sd.calls() if (t['func'].get('fn') or '').endswith('SchedulerThread::run') and not sd.blocks[bb]['cleanup']]
        for bb, t in runs:
            cl = [a for a in t['args'][1:] if a['k'] != 'const' and clean_ty(a['pl']['ty']).startswith('{closure:')]
            if not cl:
                continue
            ce = sd.expr_of_operand(cl[0])
            if ce[0] != 'agg':
                continue
            capflags = []
            for b3 in sd.blocks:
                for s3 in b3['stmts']:
                    if s3['k'] == 'assign' and s3['rv']['k'] == 'agg' and s3['rv'].get('ak') == 'closure' and s3['rv'].get('def') == ce[2]:
                        capflags = [_base_arc(_x(sd, o_)) for o_ in s3['rv'].get('ops', []) if o_['k'] != 'const' and _is_flag_ty(o_['pl']['ty'])][:1]
            # the flag the scheduler marks busy: the mutex locked in the walk over the table
            locks = [_base_arc(_x(sd, t2['args'][0])) for b2, t2 in sd.calls() if (t2['func'].get('fn') or '').endswith(('Mutex::lock', 'Mutex::try_lock')) and t2['args'] and t2['args'][0]['k'] != 'const'
                     and _is_flag_ty(t2['args'][0]['pl']['ty']) and not sd.blocks[b2]['cleanup']]
            same('schedule_dormant|one-busy-flag', 'the busy flag the scheduler sets and the flag the woken thread clears', locks[:1] + capflags, sd)
    st = F.fn('desync::SchedulerCore::schedule_thread')
    if st:
        for b in st.blocks:
            for s_ in b['stmts']:
                if s_['k'] == 'assign' and s_['rv']['k'] == 'agg' and s_['rv'].get('ak') == 'closure':
                    for o in s_['rv'].get('ops', []):
                        if o['k'] != 'const' and 'VecDeque<alloc::sync::Arc<desync::JobQueue' in clean_ty(o['pl']['ty']):
                            n += 1
                            e = _base_arc(_x(st, o))
                            key = 'schedule_thread|threads-read-this-schedulers-schedule'
                            if e[0] == 'field' and e[2] == 'schedule' and e[1][0] == 'arg':
                                out.append(ok(R, key, 'the pool thread fetches from `self.schedule`, the list queues are pushed on', fn=st.name))
                            else:
                                out.append(bad(R, key, 'the closure that fetches work for a pool thread reads `%s`, not this scheduler\'s schedule: queues pushed on the schedule are never seen by the threads' % render(e)[:50], fn=st.name))
    for fn in F.crate_fns():
        fut = sig = None
        for b in fn.blocks:
            if b['cleanup']:
                continue
            for s_ in b['stmts']:
                if s_['k'] == 'assign' and s_['rv']['k'] == 'agg' and s_['rv'].get('adt') == 'desync::SchedulerFuture':
                    names = [f_['name'] for f_ in F.adts['desync::SchedulerFuture']['variants'][0]['fields']]
                    if 'result' in names and len(s_['rv']['ops']) > names.index('result'):
                        fut = _base_arc(_x(fn, s_['rv']['ops'][names.index('result')]))
                if s_['k'] == 'assign' and s_['rv']['k'] == 'agg' and s_['rv'].get('adt') == 'desync::SchedulerFutureSignaller' and s_['rv'].get('ops'):
                    sig = _base_arc(_x(fn, s_['rv']['ops'][0]))
        if fut is not None and sig is not None:
            same('%s|future-and-signaller-share-the-slot' % short(fn.root or fn.name), 'the slot the signaller fills and the slot the future reads', [fut, sig], fn)
    # a caller that runs jobs itself (sync, try_sync, a polled future) runs the queue it was called for, and only the pool fetches "whatever
    # is next on the schedule": a blocked caller that lends its thread to another object's queue cannot return until that object's work is done
    QFNS = ('JobQueue::drain', 'JobQueue::run_one_job_now', 'JobQueue::dequeue', 'JobQueue::requeue', 'SchedulerCore::claim_pending_queue',
            'Scheduler::reschedule_queue', 'SchedulerCore::reschedule_queue', 'Scheduler::sync_immediate', 'Scheduler::sync_drain', 'Scheduler::sync_background')
    nq = 0
    for fn in F.crate_fns():
        root = fn.root or fn.name
        if not any(root.startswith(p_) for p_ in ('desync::Scheduler::sync', 'desync::Scheduler::try_sync', 'desync::SchedulerFuture::', '<desync::SchedulerFuture')):
            continue
        for bb, t in fn.calls():
            name = t['func'].get('fn') or ''
            if fn.blocks[bb]['cleanup']:
                continue
            if name.endswith('SchedulerCore::next_to_run'):
                nq += 1
                out.append(bad(R, '%s|runs-its-own-queue' % short(root), '%s takes whatever queue is next on the schedule (`next_to_run`): a caller waiting for its own object runs another object\'s operations and cannot return before they finish' % short(root), loc=fn.loc(bb), fn=fn.name))
                continue
            if not name.endswith(QFNS):
                continue
            qa = [a for a in t['args'] if a['k'] != 'const' and 'desync::JobQueue' in clean_ty(a['pl']['ty']) and 'JobQueueCore' not in clean_ty(a['pl']['ty'])]
            if not qa:
                continue
            nq += 1
            e = _base_arc(_x(fn, qa[0]))
            key = '%s|runs-its-own-queue' % short(root)
            r_ = e
            for _ in range(20):
                if r_[0] in ('field', 'downcast', 'deref', 'index'):
                    r_ = r_[1]
                else:
                    break
            # the queue comes from the caller (a parameter, `self.queue`, a captured variable), not from a call made here
            own = r_[0] in ('arg', 'upvar')
            if own:
                out.append(ok(R, key, 'works on the queue it was called for', fn=fn.name))
            else:
                out.append(bad(R, key, '%s hands `%s` to %s: it runs / claims / reschedules a queue that is not the one it was called for' % (short(root), render(e)[:40], name.split('::')[-1]), loc=fn.loc(bb), fn=fn.name))
    if n < 5:
        out.append(undecided(R, 'floor', 'only %d of the hand-shakes were recognised (expected at least 5)' % n))
    if nq < 8:
        out.append(undecided(R, 'floor:own-queue', 'only %d queue operations of the caller-side runners were recognised (expected at least 8)' % nq))
    return out


def id_confined(ctx):
    """The objects of the blocked caller's hand-shake stay between the two parties.  The condition variable, the ready flag and the result
    slot that `sync_background` creates are shared with exactly one other party each (the queue's waiter list, the lifetime-erased job, the
    job's closure); the functions do nothing with them but clone, lock, wait, register, hand them to the job and drop them.  A third holder
    (a watchdog thread, a guard object with a destructor, a registry, a thread-local) can complete or abandon the hand-shake behind the
    caller's back: the caller returns while its lifetime-erased job is still queued, or never returns."""
    F = ctx.F
    out = []
    R = 'ID-same'
    ALLOWED = ('::clone', '::deref', '::deref_mut', '::borrow', '::as_ref', 'Mutex::lock', 'Mutex::try_lock', 'Condvar::wait', 'Condvar::wait_while', 'Condvar::wait_timeout',
               'Arc::downgrade', 'UnsafeJob::new_with_notification', 'UnsafeJob::new', 'mem::drop', 'Arc::new', 'Mutex::new', 'Condvar::new', 'Arc::strong_count', 'Arc::ptr_eq',
               'Condvar::notify_one', 'Condvar::notify_all')
    n = 0
    for name in ('desync::Scheduler::sync_background', 'desync::Scheduler::sync_drain'):
        fn = F.fn(name)
        if not fn:
            continue

        def is_hs(ty_):
            t_ = clean_ty(ty_).replace('std::sync::poison::mutex::', '').replace('std::sync::poison::condvar::', '').replace('alloc::sync::', '').replace('&mut ', '').replace('&', '').strip()
            return t_ in ('Arc<Condvar>', 'Arc<Mutex<bool>>') or (t_.startswith('Arc<Mutex<core::option::Option<') and 'JobQueue' not in t_) or t_.startswith('Arc<(Mutex<core::option::Option<')
        key = '%s|handshake-objects-confined' % short(name)
        probs = []
        seen_any = False
        job_closures = set()
        for bb, t in fn.calls():
            if (t['func'].get('fn') or '').endswith('Job::new'):
                for a in t['args']:
                    if a['k'] != 'const' and clean_ty(a['pl']['ty']).startswith('{closure:'):
                        job_closures.add(clean_ty(a['pl']['ty'])[9:-1])
        for bb, b in enumerate(fn.blocks):
            if b['cleanup']:
                continue
            for s_ in b['stmts']:
                if s_['k'] == 'assign' and s_['rv']['k'] == 'agg':
                    hs = [o for o in s_['rv'].get('ops', []) if o['k'] != 'const' and is_hs(o['pl']['ty'])]
                    if not hs:
                        continue
                    seen_any = True
                    ak = s_['rv'].get('ak')
                    if ak == 'closure' and s_['rv'].get('def') not in job_closures:
                        # a closure that is only called here (a local completion test, a loop body handed to an iterator) is this function's
                        # own code; one that is stored or sent away (a thread, a box, another job) is a third party
                        from .rules_locks import cg as _cg
                        stored = any(s2.kind == 'stored' and s_['rv'].get('def') in s2.targets for s2 in _cg(ctx).sites.get(fn.name, []))
                        if stored:
                            probs.append((bb, 'captured by the closure %s, which is stored or sent away and is not the queued job' % short(s_['rv'].get('def') or '?')))
                    elif ak == 'adt' and not str(s_['rv'].get('adt')).startswith(('core::option::Option', 'core::result::Result')):
                        probs.append((bb, 'stored in a `%s`' % str(s_['rv'].get('adt')).split('::')[-1]))
            t = b['term']
            if t and t['k'] == 'call':
                nm = t['func'].get('fn') or ''
                hs = [a for a in t['args'] if a['k'] != 'const' and is_hs(a['pl']['ty'])]
                if hs:
                    seen_any = True
                    if not nm.endswith(ALLOWED) and not nm.endswith(('Vec::push',)):
                        probs.append((bb, 'passed to %s' % nm.split('::')[-1]))
        if not seen_any:
            continue
        n += 1
        if probs:
            out.append(bad(R, key, 'in %s an object of the caller\'s completion hand-shake is %s: somebody other than the caller and its queued job can now complete, abandon or outlive the hand-shake' % (short(name), probs[0][1]), loc=fn.loc(probs[0][0]), fn=fn.name))
        else:
            out.append(ok(R, key, 'condition variable, ready flag and result slot are only cloned, locked, waited on, registered with the queue and handed to the queued job', fn=fn.name))
    if n < 2:
        out.append(undecided(R, 'floor:confined', 'hand-shake objects of sync_background / sync_drain not recognised'))
    return out
