#!/bin/bash
# Confirms one seeded change independently: demo passes on the unchanged tree; with the change the crate builds,
# the baseline suite still passes (64 + the known always-failing test), and the demo fails.
# usage: confirm_seed.sh Cxx   (reads /tmp/seed-out/Cxx, works in /tmp/confirm/Cxx, writes /tmp/seed-out/Cxx/confirm.json)
set -u
ID=$1
SRC=${2:-/tmp/seed-out}/$ID
W=/tmp/confirm/$(basename ${2:-seed-out})-$ID
rm -rf $W; mkdir -p /tmp/confirm
git -C /repo worktree remove --force $W >/dev/null 2>&1
git -C /repo worktree add --detach $W HEAD >/dev/null 2>&1 || exit 3
export CARGO_TARGET_DIR=$W/target CARGO_NET_OFFLINE=true
cd $W
for f in $SRC/*.rs; do cp $f tests/; done
demos=$(cd $SRC; ls *.rs | sed 's/\.rs$//' | sed 's/^/--test /' | tr '\n' ' ')
run_demo() { timeout 600 cargo nextest run --offline --no-fail-fast $demos 2>&1 | tail -40; }
run_suite() { timeout 900 cargo nextest run --workspace --no-fail-fast --test-threads 8 --offline 2>&1 | tail -60; }
D0=$(run_demo); d0=$(echo "$D0" | grep -E "^\s+Summary" | tail -1)
git apply $SRC/patch.diff || { echo "{\"id\":\"$ID\",\"error\":\"patch does not apply\"}" > $SRC/confirm.json; exit 4; }
B=$(cargo build --offline 2>&1 | tail -3)
S1=$(run_suite); s1=$(echo "$S1" | grep -E "^\s+Summary" | tail -1); f1=$(echo "$S1" | grep -E "^\s+(FAIL|TIMEOUT|SIGABRT|SIGSEGV)" | sed 's/.*\] *//' | sort -u | tr '\n' ';')
D1=$(run_demo); d1=$(echo "$D1" | grep -E "^\s+Summary" | tail -1)
python3 - "$ID" "$d0" "$s1" "$f1" "$d1" <<'PY' > $SRC/confirm.json
import json,sys
print(json.dumps({'id':sys.argv[1],'demo_unchanged':sys.argv[2].strip(),'suite_with_change':sys.argv[3].strip(),'suite_failures':sys.argv[4],'demo_with_change':sys.argv[5].strip()},indent=1))
PY
cd /; git -C /repo worktree remove --force $W >/dev/null 2>&1; rm -rf $W
cat $SRC/confirm.json
