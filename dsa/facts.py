"""Fact base: loader, per-function CFG helpers, dominators, symbolic access paths.

Everything here is generic MIR plumbing; no rule lives in this file.
"""
import sys
sys.setrecursionlimit(20000)
import re
from collections import defaultdict

ALLOC_RE = re.compile(r', alloc::alloc::Global')


def clean_ty(t):
    return ALLOC_RE.sub('', t)


# ---------------------------------------------------------------------------------------------
# type strings -> trees

def split_top(s, sep=','):
    """Split s at top-level separators (not inside <>, (), [], {})."""
    out, depth, cur = [], 0, []
    i = 0
    while i < len(s):
        c = s[i]
        if c in '<([{':
            depth += 1
        elif c in '>)]}':
            # '->' inside fn pointer types
            if c == '>' and i > 0 and s[i - 1] == '-':
                pass
            else:
                depth -= 1
        if c == sep and depth == 0:
            out.append(''.join(cur).strip())
            cur = []
        else:
            cur.append(c)
        i += 1
    last = ''.join(cur).strip()
    if last:
        out.append(last)
    return out


def ty_head(t):
    """Head of a printed type: ADT path (without args) or the leading sigil form."""
    t = clean_ty(t).strip()
    while t.startswith('&'):
        t = t[1:].strip()
        if t.startswith('mut '):
            t = t[4:].strip()
    i = t.find('<')
    if t.startswith('{') or t.startswith('(') or t.startswith('['):
        return t
    return t if i < 0 else t[:i]


def ty_args(t):
    """Generic args of the outermost ADT of a printed type (refs peeled)."""
    t = clean_ty(t).strip()
    while t.startswith('&'):
        t = t[1:].strip()
        if t.startswith('mut '):
            t = t[4:].strip()
    i = t.find('<')
    if i < 0 or not t.endswith('>') or t.startswith('{') or t.startswith('(') or t.startswith('<'):
        return []
    return split_top(t[i + 1:-1])


def ty_contains(t, needle):
    return needle in clean_ty(t)


def guard_inner(t):
    """If the printed type contains a MutexGuard<T>, returns T (first occurrence), else None."""
    t = clean_ty(t)
    k = t.find('MutexGuard<')
    if k < 0:
        return None
    j = k + len('MutexGuard<')
    depth, i = 1, j
    while i < len(t) and depth:
        if t[i] == '<':
            depth += 1
        elif t[i] == '>' and t[i - 1] != '-':
            depth -= 1
        i += 1
    return t[j:i - 1]


# ---------------------------------------------------------------------------------------------

_SHORT_RE = re.compile(r'(?<![A-Za-z0-9_])desync::')


def short(name):
    """Readable short form of a fn name: drops the crate prefix of in-crate items."""
    return _SHORT_RE.sub('', name)


class Fn:
    def __init__(self, j, facts):
        self.j = j
        self.facts = facts
        self.name = j['name']
        self.key = j['key']
        self.kind = j['kind']
        self.blocks = j['blocks']
        self.locals = j['locals']
        for l in self.locals:
            l['ty'] = clean_ty(l['ty'])
        self.arg_count = j['arg_count']
        self.file = j['span']['file']
        self.line = j['span']['line']
        self.parent = j.get('parent')
        self.root = j.get('root')
        self.is_coroutine = j.get('coroutine', False)
        self.is_closure = self.kind == 'Closure'
        self.upvars = j.get('upvars', [])
        self.generics = j.get('generics', [])
        self.preds_of = j.get('preds', [])
        self.reachable = j.get('reachable', False)
        self.vis = j.get('vis')
        self.in_macro_crate = 'lazy_static' in self.file or self.file.startswith('/root/.cargo')
        self.is_helper = bool(j.get('helper'))
        self._succ = None
        self._pred = None
        self._dom = {}
        self._defs = None
        self._expr_cache = {}

    def __repr__(self):
        return '<Fn %s>' % self.name

    @property
    def short(self):
        return short(self.name)

    def loc(self, bb, idx=None):
        """file:line of a statement/terminator (for reports only; never used for matching)."""
        b = self.blocks[bb]
        if idx is None or idx == 'term' or idx >= len(b['stmts']):
            sp = b['term'].get('sp') if b['term'] else None
        else:
            sp = b['stmts'][idx].get('sp')
        if not sp:
            return '%s:%s' % (self.file, self.line)
        return '%s:%s' % (sp['file'], sp['line'])

    # ---- CFG -------------------------------------------------------------------------------
    def term(self, bb):
        return self.blocks[bb]['term']

    def succs(self, bb, unwind=False):
        t = self.blocks[bb]['term']
        if not t:
            return []
        k = t['k']
        out = []
        if k in ('goto', 'falseunwind'):
            out.append(t['target'])
        elif k == 'falseedge':
            out.append(t['target'])  # imaginary edges are not control flow
        elif k == 'switch':
            for _, b in t['targets']:
                out.append(b)
            out.append(t['otherwise'])
        elif k in ('drop', 'assert'):
            out.append(t['target'])
        elif k == 'call':
            if t['target'] is not None:
                out.append(t['target'])
        elif k == 'yield':
            out.append(t['target'])
        if unwind:
            u = t.get('unwind')
            if isinstance(u, int):
                out.append(u)
            if k == 'yield' and t.get('drop') is not None:
                out.append(t['drop'])
        # dedupe, keep order
        seen, res = set(), []
        for b in out:
            if b not in seen:
                seen.add(b)
                res.append(b)
        return res

    def edges(self, bb, unwind=False):
        """[(label, target)] with labels describing the edge: ('sw', value|'otherwise'), ('ret',), ('unwind',) ..."""
        t = self.blocks[bb]['term']
        if not t:
            return []
        k = t['k']
        out = []
        if k == 'switch':
            for v, b in t['targets']:
                out.append((('sw', v), b))
            out.append((('sw', 'otherwise'), t['otherwise']))
        else:
            for b in self.succs(bb):
                out.append((('n',), b))
        if unwind:
            u = t.get('unwind')
            if isinstance(u, int):
                out.append((('unwind',), u))
            if k == 'yield' and t.get('drop') is not None:
                out.append((('cdrop',), t['drop']))
        return out

    def preds(self, unwind=False):
        key = '_pred_u' if unwind else '_pred'
        if getattr(self, key, None) is None:
            p = defaultdict(list)
            for i in range(len(self.blocks)):
                for s in self.succs(i, unwind):
                    p[s].append(i)
            setattr(self, key, p)
        return getattr(self, key)

    def reachable_blocks(self, start=0, unwind=False, avoid=()):
        seen, st = set(), [start]
        while st:
            b = st.pop()
            if b in seen or b in avoid:
                continue
            seen.add(b)
            st.extend(self.succs(b, unwind))
        return seen

    def dominators(self, unwind=False):
        """bb -> set of dominating bbs (over blocks reachable from bb0)."""
        key = ('dom', unwind)
        if key in self._dom:
            return self._dom[key]
        reach = self.reachable_blocks(0, unwind)
        order = self._rpo(0, unwind)
        preds = self.preds(unwind)
        dom = {b: set(reach) for b in reach}
        dom[0] = {0}
        changed = True
        while changed:
            changed = False
            for b in order:
                if b == 0:
                    continue
                ps = [p for p in preds[b] if p in reach]
                new = set(reach)
                for p in ps:
                    new &= dom[p]
                new = new | {b}
                if new != dom[b]:
                    dom[b] = new
                    changed = True
        self._dom[key] = dom
        return dom

    def _rpo(self, start, unwind=False):
        seen, order = set(), []

        def dfs(b):
            st = [(b, iter(self.succs(b, unwind)))]
            seen.add(b)
            while st:
                node, it = st[-1]
                adv = False
                for s in it:
                    if s not in seen:
                        seen.add(s)
                        st.append((s, iter(self.succs(s, unwind))))
                        adv = True
                        break
                if not adv:
                    order.append(node)
                    st.pop()
        dfs(start)
        order.reverse()
        return order

    def exits(self):
        """Blocks ending in `return` (normal exits)."""
        return [i for i, b in enumerate(self.blocks) if b['term'] and b['term']['k'] == 'return']

    def must_pass(self, src, targets, through, unwind=False):
        """True iff every path from block `src` (start of block) to any block in `targets` passes a block in `through`."""
        seen, st = set(), [src]
        while st:
            b = st.pop()
            if b in seen:
                continue
            seen.add(b)
            if b in through:
                continue
            if b in targets:
                return False
            st.extend(self.succs(b, unwind))
        return True

    # ---- statements / calls ----------------------------------------------------------------
    def calls(self):
        """Yields (bb, term) for every call terminator."""
        for i, b in enumerate(self.blocks):
            t = b['term']
            if t and t['k'] == 'call':
                yield i, t

    def callee(self, t):
        """Best name for the callee of a call terminator (resolved impl method if known)."""
        if t.get('resolved') and t.get('rk') in ('item', 'closure_once_shim'):
            return t['resolved']
        f = t['func']
        return f.get('fn')

    def callee_decl(self, t):
        return t['func'].get('fn')

    # ---- definitions & symbolic expressions -------------------------------------------------
    def defs(self):
        """local -> list of ('stmt', bb, idx, rvalue) | ('call', bb, term) | ('yield', bb, term) defining the whole local."""
        if self._defs is None:
            d = defaultdict(list)
            for bi, b in enumerate(self.blocks):
                for si, s in enumerate(b['stmts']):
                    if s['k'] == 'assign' and not s['pl']['p']:
                        d[s['pl']['l']].append(('stmt', bi, si, s['rv']))
                t = b['term']
                if t:
                    if t['k'] == 'call' and not t['dest']['p']:
                        d[t['dest']['l']].append(('call', bi, t))
                    elif t['k'] == 'yield' and not t['resume_arg']['p']:
                        d[t['resume_arg']['l']].append(('yield', bi, t))
            self._defs = d
        return self._defs

    def mut_borrowed(self):
        """Locals whose address is taken mutably (`&mut x`, directly): their value can change behind the analysis' back."""
        if getattr(self, '_mutb', None) is None:
            out = set()
            for b in self.blocks:
                for s in b['stmts']:
                    if s['k'] == 'assign' and s['rv']['k'] in ('ref', 'rawptr') and s['rv'].get('m') not in ('shared', 'fake') and not s['rv']['pl']['p']:
                        out.add(s['rv']['pl']['l'])
            self._mutb = out
        return self._mutb

    def live_in(self):
        """Per block: the locals whose current value may still be read at the block's entry (backward liveness over every mention of a
        local; a local whose address is taken anywhere is always live).  Over-approximate: a partial write counts as a use."""
        if getattr(self, '_live', None) is not None:
            return self._live
        nb = len(self.blocks)
        use = [set() for _ in range(nb)]
        kill = [set() for _ in range(nb)]
        always = set(range(0, self.arg_count + 1))

        def mentions(x, acc):
            if isinstance(x, dict):
                if 'l' in x and isinstance(x.get('p'), list):
                    acc.add(x['l'])
                    for p_ in x['p']:
                        if isinstance(p_, dict) and p_.get('k') == 'index' and isinstance(p_.get('l'), int):
                            acc.add(p_['l'])
                for k_, v in x.items():
                    if k_ != 'sp':
                        mentions(v, acc)
            elif isinstance(x, list):
                for e in x:
                    mentions(e, acc)

        for bi, b in enumerate(self.blocks):
            u, k = use[bi], kill[bi]
            for s_ in b['stmts']:
                kk = s_['k']
                if kk == 'assign':
                    acc = set()
                    mentions(s_['rv'], acc)
                    if s_['rv']['k'] in ('ref', 'rawptr'):
                        always.add(s_['rv']['pl']['l'])
                    if s_['pl']['p']:
                        mentions(s_['pl'], acc)
                    u |= (acc - k)
                    if not s_['pl']['p']:
                        k.add(s_['pl']['l'])
                elif kk in ('dead', 'live'):
                    k.add(s_['l'])
                else:
                    acc = set()
                    mentions(s_, acc)
                    u |= (acc - k)
            t = b['term']
            if t:
                acc = set()
                for key_, v in t.items():
                    if key_ in ('dest', 'resume_arg', 'sp'):
                        continue
                    mentions(v, acc)
                for key_ in ('dest', 'resume_arg'):
                    d_ = t.get(key_)
                    if isinstance(d_, dict) and d_.get('p'):
                        mentions(d_, acc)
                u |= (acc - k)
        live = [set() for _ in range(nb)]
        succ = [set(self.succs(bi, unwind=True)) for bi in range(nb)]
        # a call's destination is written on the normal edge only: not killed (conservative)
        changed = True
        while changed:
            changed = False
            for bi in range(nb - 1, -1, -1):
                out = set()
                for s_ in succ[bi]:
                    out |= live[s_]
                new = use[bi] | (out - kill[bi])
                if new != live[bi]:
                    live[bi] = new
                    changed = True
        # the analyses read a value through the chain of moves / copies / references / wrappers it went through (`_20 = move _58` and then
        # a question about _20 is answered from what is known about _58): a local stays live as long as anything derived from it is
        derived = defaultdict(set)
        for b in self.blocks:
            for s_ in b['stmts']:
                if s_['k'] == 'assign' and not s_['pl']['p']:
                    acc = set()
                    mentions(s_['rv'], acc)
                    for y in acc:
                        if y != s_['pl']['l']:
                            derived[s_['pl']['l']].add(y)
            t = b['term']
            if t and t['k'] == 'call' and not t['dest']['p']:
                acc = set()
                mentions(t['args'], acc)
                for y in acc:
                    if y != t['dest']['l']:
                        derived[t['dest']['l']].add(y)
        out_live = []
        for l_ in live:
            cur = set(l_) | always
            work = list(cur)
            while work:
                x = work.pop()
                for y in derived.get(x, ()):
                    if y not in cur:
                        cur.add(y)
                        work.append(y)
            out_live.append(cur)
        self._live = out_live
        return self._live

    def local_name(self, l):
        return self.locals[l].get('name')

    def local_ty(self, l):
        return self.locals[l]['ty']

    def expr_of_local(self, l, depth=0):
        """Symbolic origin of a local, expanded through single-definition temporaries.

        Expression forms (tuples):
          ('arg', idx, name) ('var', local, name) ('upvar', name)
          ('field', base, name) ('downcast', base, variant) ('index', base)
          ('call', fn, [args]) ('agg', kind, what, [ops]) ('const', txt) ('cast', base) ('op', ...)
        Ref / deref and smart-pointer Deref calls are transparent (the designated *object* is what matters).
        """
        if l in self._expr_cache:
            return self._expr_cache[l]
        if depth > 400:
            return ('var', l, self.local_name(l))
        self._expr_cache[l] = ('var', l, self.local_name(l))  # cycle guard
        res = None
        if 1 <= l <= self.arg_count:
            if self.is_closure and l == 1:
                res = ('self_closure',)
            else:
                res = ('arg', l, self.local_name(l))
        else:
            ds = self.defs().get(l, [])
            if len(ds) == 1:
                d = ds[0]
                if d[0] == 'stmt':
                    res = self.expr_of_rvalue(d[3], depth + 1)
                elif d[0] == 'call':
                    res = self.expr_of_call(d[2], depth + 1, site=d[1])
                else:
                    res = ('resume',)
            else:
                res = ('var', l, self.local_name(l))
        self._expr_cache[l] = res
        return res

    TRANSPARENT_CALLS = (
        'core::ops::deref::Deref::deref', 'core::ops::deref::DerefMut::deref_mut',
        'core::clone::Clone::clone',  # Arc/Weak/Waker clone: same designated object
        'core::result::Result::expect', 'core::result::Result::unwrap', 'core::result::Result::ok',
        'core::option::Option::expect', 'core::option::Option::unwrap',
        'core::option::Option::as_mut', 'core::option::Option::as_ref',
        'core::pin::Pin::new_unchecked', 'core::pin::Pin::new', 'core::pin::Pin::as_mut', 'core::pin::Pin::get_mut',
        'core::convert::AsRef::as_ref', 'core::convert::AsMut::as_mut', 'core::borrow::Borrow::borrow',
        'core::borrow::BorrowMut::borrow_mut', 'core::convert::Into::into', 'core::convert::From::from',
        'core::future::into_future::IntoFuture::into_future', 'core::hint::must_use',
    )

    def expr_of_call(self, t, depth=0, site=None):
        name = t['func'].get('fn') or '<indirect>'
        args = [self.expr_of_operand(a, depth + 1) for a in t['args']]
        if name in self.TRANSPARENT_CALLS and args:
            return args[0]
        # the 4th element identifies the call site: two calls with equal arguments are two different values
        return ('call', name, args, site)

    def expr_of_operand(self, o, depth=0):
        k = o['k']
        if k in ('copy', 'move'):
            return self.expr_of_place(o['pl'], depth + 1)
        if k == 'const':
            if 'fn' in o:
                return ('fn', o['fn'])
            if 'val' in o:
                return ('const', o['val'], o['ty'])
            return ('const', o.get('txt', '?'), o['ty'])
        return ('const', k, '')

    def expr_of_place(self, pl, depth=0):
        e = self.expr_of_local(pl['l'], depth + 1)
        for p in pl['p']:
            k = p['k']
            if k == 'deref':
                continue
            if k == 'field':
                if e == ('self_closure',):
                    e = ('upvar', p['n'])
                elif e[0] == 'agg' and e[1] in ('tuple', 'closure') and p['i'] < len(e[3]):
                    e = e[3][p['i']]
                else:
                    e = ('field', e, p['n'], clean_ty(p.get('bty', '')))
            elif k == 'downcast':
                e = ('downcast', e, p['v'])
            elif k in ('index', 'cindex', 'subslice'):
                e = ('index', e)
        return e

    def expr_of_rvalue(self, r, depth=0):
        k = r['k']
        if k == 'use':
            return self.expr_of_operand(r['op'], depth + 1)
        if k in ('ref', 'rawptr'):
            return self.expr_of_place(r['pl'], depth + 1)
        if k == 'cast':
            inner = self.expr_of_operand(r['op'], depth + 1)
            if r['ck'] == 'transmute':
                return ('call', 'transmute', [inner])
            return inner
        if k == 'agg':
            ops = [self.expr_of_operand(o, depth + 1) for o in r['ops']]
            ak = r['ak']
            if ak == 'adt':
                return ('agg', 'adt', '%s::%s' % (r['adt'], r['variant']), ops)
            if ak in ('closure', 'coroutine', 'coroutine_closure'):
                return ('agg', ak, r['def'], ops)
            return ('agg', ak, '', ops)
        if k == 'discr':
            return ('discr', self.expr_of_place(r['pl'], depth + 1))
        if k == 'binop':
            return ('binop', r['op'], self.expr_of_operand(r['a'], depth + 1), self.expr_of_operand(r['b'], depth + 1))
        if k == 'unop':
            return ('unop', r['op'], self.expr_of_operand(r['a'], depth + 1))
        return ('other', k)


def render(e):
    """Human-readable rendering of a symbolic expression (also used as instance keys: no line numbers, no local ids)."""
    k = e[0]
    if k == 'arg':
        return e[2] or 'arg%d' % e[1]
    if k == 'var':
        return e[2] or '_%d' % e[1]
    if k == 'upvar':
        return e[1]
    if k == 'self_closure':
        return '<closure env>'
    if k == 'field':
        return '%s.%s' % (render(e[1]), e[2])
    if k == 'downcast':
        return '(%s as %s)' % (render(e[1]), e[2])
    if k == 'index':
        return '%s[_]' % render(e[1])
    if k == 'call':
        return '%s(%s)' % (short(e[1]).split('::')[-1] if not e[1].startswith('desync') else short(e[1]), ', '.join(render(a) for a in e[2]))
    if k == 'agg':
        if e[1] == 'adt':
            return '%s{%s}' % (e[2].split('::')[-2] + '::' + e[2].split('::')[-1], ', '.join(render(a) for a in e[3]))
        if e[1] in ('closure', 'coroutine'):
            return '{%s %s}' % (e[1], short(e[2]))
        return '(%s)' % ', '.join(render(a) for a in e[3])
    if k == 'const':
        return str(e[1])
    if k == 'fn':
        return 'fn ' + short(e[1])
    if k == 'discr':
        return 'discr(%s)' % render(e[1])
    if k == 'binop':
        return '%s(%s, %s)' % (e[1], render(e[2]), render(e[3]))
    if k == 'unop':
        return '%s(%s)' % (e[1], render(e[2]))
    if k == 'resume':
        return '<resume>'
    return str(e)


def expr_root(e):
    """Innermost base of a field/downcast/index chain."""
    while e[0] in ('field', 'downcast', 'index'):
        e = e[1]
    return e


def expr_fields(e):
    """Field names along a chain, outermost last."""
    out = []
    while e[0] in ('field', 'downcast', 'index'):
        if e[0] == 'field':
            out.append(e[2])
        e = e[1]
    out.reverse()
    return out


class Facts:
    def __init__(self, j):
        from .flatten import flatten
        from .canon import canonicalize
        j = canonicalize(j)
        from .newtypes import transparent
        j, self.new_structs = transparent(j)
        j, helpers = flatten(j)
        self.helpers = helpers
        self.j = j
        self.fns = {}
        self.all_fns = []
        for f in j['fns']:
            fn = Fn(f, self)
            self.all_fns.append(fn)
            # names are unique except for macro-generated duplicates; keep first
            if fn.name not in self.fns:
                self.fns[fn.name] = fn
        self.adts = {a['path']: a for a in j['adts']}
        self.impls = j['impls']
        self.traits = j['traits']
        self.is_test = j.get('is_test', False)

    def fn(self, name):
        return self.fns.get(name)

    def find(self, suffix):
        """Functions whose name ends with `suffix` (convenience for anchors)."""
        return [f for f in self.all_fns if f.name.endswith(suffix)]

    def crate_fns(self):
        """Bodies written in this crate's own source (macro-expanded lazy_static plumbing excluded)."""
        # unit-test modules (only present in the `test` configuration) are not part of the library's behaviour
        # new helper functions are analysed inlined at their call sites (dsa/flatten.py), not on their own
        return [f for f in self.all_fns if not f.in_macro_crate and not (self.is_test and '::test::' in f.name) and not (f.is_helper and self._helper_inlined(f))]

    def _helper_inlined(self, f):
        cache = getattr(self, '_hi', None)
        if cache is None:
            cache = self._hi = set()
            for g in self.all_fns:
                for b in g.blocks:
                    t = b['term']
                    if t and t.get('inlined_call'):
                        cache.add(t['inlined_call'])
        if f.name in cache:
            return True
        # a helper working on a mutex-protected core has no meaning outside its caller's critical section
        prot = ('JobQueueCore', 'PipeStreamCore', 'SchedulerFutureResult', 'DrainWakerState', 'MutexGuard')
        return any(any(p in i for p in prot) for i in f.j.get('inputs', []))

    def children(self, fn):
        return [f for f in self.all_fns if f.parent == fn.name and f.is_closure]

    def adt(self, path):
        return self.adts.get(path)

    def variant_by_discr(self, adt_path, val):
        a = self.adts.get(adt_path)
        if not a:
            return None
        for v in a['variants']:
            if str(v['discr']) == str(val):
                return v['name']
        return None

    def variants(self, adt_path):
        a = self.adts.get(adt_path)
        return [v['name'] for v in a['variants']] if a else []

    def trait_impl_methods(self, trait_path, method):
        """Names of the bodies implementing `method` of an in-crate trait (canonical names: `Type::method`)."""
        out = []
        for i in self.impls:
            if i.get('trait') == trait_path:
                for it in i['items']:
                    if it.endswith('::' + method):
                        out.append(it)
        return out

    def impls_of(self, trait_suffix=None, self_head=None):
        out = []
        for i in self.impls:
            if trait_suffix is not None:
                if not i.get('trait') or not i['trait'].endswith(trait_suffix):
                    continue
            if self_head is not None and i['self_head'] != self_head:
                continue
            out.append(i)
        return out
