#!/usr/bin/env python3
"""Development helper: runs one rule function over every behaviour-preserving variant (and optionally a list of other patches) and
prints what is not `ok`.   usage: benign_rule.py rules_must.must [-j N] [patch ...]"""
import importlib
import json
import os
import sys
from concurrent.futures import ThreadPoolExecutor
VERIF = os.path.dirname(os.path.dirname(os.path.abspath(__file__)))
sys.path.insert(0, VERIF)
sys.path.insert(0, os.path.join(VERIF, 'tools'))
from scratch_ctx import ctx_for  # noqa

rule = sys.argv[1]
args = sys.argv[2:]
j = 6
if '-j' in args:
    j = int(args[args.index('-j') + 1])
    del args[args.index('-j'):args.index('-j') + 2]
mod, fn = rule.split('.')
f = getattr(importlib.import_module('dsa.' + mod), fn)
idx = json.load(open(os.path.join(VERIF, 'mutants', 'index.json')))
patches = args or [os.path.join(VERIF, 'mutants', b['patch']) for b in idx['benign']]


def one(p):
    try:
        ctx = ctx_for(p)
    except Exception as e:
        return p, ['ERROR %s' % str(e)[:200]]
    return p, ['%s %s :: %s' % (i.verdict, i.key, i.detail[:160]) for i in f(ctx) if i.verdict != 'ok']


with ThreadPoolExecutor(max_workers=j) as ex:
    for p, bad in ex.map(one, patches):
        print(os.path.basename(p).ljust(40), 'silent' if not bad else '')
        for b in bad:
            print('     ', b)
