"""A3 + A4: abstract interpretation of the queue-state protocol.

For every function of the crate this runs a forward, path-sensitive (disjunctive) abstract
interpretation over the built MIR.  One abstract *store* tracks, along one class of paths:

  S     the set of QueueState variants the queue may be in (only meaningful while a
        `Mutex<JobQueueCore>` guard is live; None outside a region)
  P     what the state was when this thread, *as owner*, last left a region (None otherwise)
  T     the ownership token: 'N' not held, 'H' held, 'R' released by this function
  V     constants / predicates known for locals (enum variants of locally built enums, bools,
        copies of the state, discriminants, `len()==0` tests, FutureId comparisons, ...)
  flags small path obligations: len0 (queue known empty in this region), own (FutureId of a
        WaitingForPoll state equals ours), resched (an owner wrote Idle and still owes a
        reschedule_queue), sched (a non-owner wrote Pending and still owes push+schedule_thread),
        pend (a job returned Poll::Pending and was not put back yet)

Outputs: the extracted transition relation (element-wise: one (s, s') pair per feasible state),
execution sites with the token state they are reached in, function summaries (how a function
leaves the token, correlated with its return value), and the obligations violated on some path.

Nothing is executed; all facts come from the type-checked program (resolved callees, ADT
variants, field projections).  Roles of states (which states mean "somebody holds the right to
run the queue") are the only protocol knowledge given to the analysis, and the set of variants is
compared with the enum in the program: a new or missing variant makes every dependent rule
UNDECIDED instead of silently passing.
"""
from collections import defaultdict, namedtuple

from .facts import short, clean_ty, ty_head
from .locks import Held

QS = 'desync::QueueState'
JQC = 'desync::JobQueueCore'
ACTIVE_QUEUE = 'desync::ActiveQueue'
SCHEDULED_JOB = 'desync::ScheduledJob'

EXPECTED_VARIANTS = ['Idle', 'Pending', 'Running', 'WaitingForWake', 'WaitingForUnpark', 'WaitingForPoll', 'AwokenWhileRunning', 'Panicked']

# States in which some thread holds the right to run the queue (the token) ...
OWNED = frozenset(['Running', 'AwokenWhileRunning', 'WaitingForUnpark'])
# ... and states an owner moves to when it gives the token up.
UNOWNED = frozenset(['Idle', 'Pending', 'WaitingForWake', 'WaitingForPoll', 'Panicked'])
PARKED = frozenset(['WaitingForWake', 'WaitingForUnpark', 'WaitingForPoll'])
NEEDS_ENTRY = frozenset(['Pending', 'WaitingForPoll'])      # states in which only a schedule entry gets the queue a runner
SCHEDULE_REMOVERS = ('retain', 'retain_mut', 'remove', 'clear', 'drain', 'truncate', 'pop_back', 'split_off')

STD_ENUMS = {
    'core::option::Option': {'0': 'None', '1': 'Some'},
    'core::result::Result': {'0': 'Ok', '1': 'Err'},
    'core::task::poll::Poll': {'0': 'Ready', '1': 'Pending'},
}

Store = namedtuple('Store', 'S P T V len0 own resched sched pend S0 pan pre acq0 act pushed rel susp rm')


def mk_store(T='N', P=None):
    return Store(S=None, P=P, T=T, V=(), len0='?', own='?', resched=0, sched=0, pend=0, S0=None, pan=0, pre=None, acq0=None, act=0, pushed=0, rel=None, susp=0, rm=0)


def vget(st, l):
    for k, v in st.V:
        if k == l:
            return v
    return None


import threading
_TLS = threading.local()     # per thread: locals of the function under analysis whose address is taken mutably (set by Proto.analyse)


def _untracked():
    return getattr(_TLS, 'untracked', ())



PAYLOAD = 1000000      # V key of "the single field of the enum value held in local l" is l + PAYLOAD (Ok(x) / Some(x) / Err(x) wrappers of decisions)


TUPLE = 10000000       # V key of field i of the tuple held in local l is l + TUPLE * (i + 1)  (a helper that returns (new state, flag))
TUPLE_MAX = 4


def vset(st, l, val):
    if l in _untracked() and val is not None and val[0] not in ('qs',):
        val = None
    drop = {l}
    if l < PAYLOAD:
        drop.add(l + PAYLOAD)
        for i_ in range(TUPLE_MAX):
            drop.add(l + TUPLE * (i_ + 1))
    items = [(k, v) for k, v in st.V if k not in drop]
    if val is not None:
        items.append((l, val))
        items.sort(key=lambda kv: kv[0])
    return st._replace(V=tuple(items))


def _prune_dead(st, live):
    """Facts about locals whose value can no longer be read are dropped: they only multiply the stores (a helper inlined at two call sites
    leaves its temporaries behind on every path)."""
    if not st.V:
        return st
    need = set(live)
    changed = True
    while changed:
        changed = False
        for k, v in st.V:
            # "local k is the discriminant of local v[1]": the fact about v[1] is read through k
            if v and v[0] == 'disc' and isinstance(v[1], int) and (k % PAYLOAD) in need and (v[1] % PAYLOAD) not in need:
                need.add(v[1] % PAYLOAD)
                changed = True
    keep = tuple((k, v) for k, v in st.V if (k % PAYLOAD) in need)
    return st if len(keep) == len(st.V) else st._replace(V=keep)


class Bindings:
    """(generic owner item, param name) -> closures / params bound at in-crate instantiation sites."""

    def __init__(self, facts):
        self.facts = facts
        self.b = defaultdict(set)
        self.external = set()
        for fn in facts.all_fns:
            for bb, t in fn.calls():
                name = t['func'].get('fn')
                callee = facts.fn(name) if name else None
                args = t['func'].get('fnargs', [])
                if t.get('trait') and t.get('resolved_local') and t.get('rk') == 'item' and facts.fn(t.get('resolved') or ''):
                    # a method of an in-crate trait, statically resolved to its impl: the impl method's own type parameters are bound by
                    # the arguments that follow `Self` (`SchedulerCoreThreads::schedule_dormant::<SchedulerCore, {closure}, {closure}, _>`)
                    callee = facts.fn(t['resolved'])
                    cparams = [g for g in callee.generics if g['kind'] != 'lifetime' and not g['name'].startswith('<') and g['name'] != 'Self']
                    if len(args) == len(cparams) + 1:
                        args = args[1:]
                if not callee:
                    continue
                params = [g for g in callee.generics if g['kind'] != 'lifetime' and not g['name'].startswith('<') and not (t.get('trait') and g['name'] == 'Self')]
                if len(params) != len(args):
                    continue
                for g, a in zip(params, args):
                    a = clean_ty(a)
                    key = (g['owner'], g['name'])
                    if a.startswith('{closure:') or a.startswith('{coroutine:'):
                        self.b[key].add(('def', a[a.index(':') + 1:-1]))
                    elif a.startswith('{fn:'):
                        self.b[key].add(('def', a[4:a.index('<')]))
                    else:
                        # alias to a type parameter of the caller?
                        for cg in fn.generics:
                            if cg['name'] == a:
                                self.b[key].add(('param', cg['owner'], cg['name']))
        # params of items reachable from the public API can be instantiated by the crate's user
        for fn in facts.all_fns:
            if fn.reachable:
                for g in fn.generics:
                    if g['kind'] == 'type':
                        self.external.add((g['owner'], g['name']))

    def resolve(self, fn, pname, seen=None):
        """-> (set of closure def names, may_be_external)"""
        owner = None
        for g in fn.generics:
            if g['name'] == pname:
                owner = g['owner']
        if owner is None:
            return set(), True
        if not self.b.get((owner, pname)) and (owner, pname) not in self.external:
            # the parameter belongs to a new helper function whose call was inlined (no instantiation site is left to bind it): a body
            # defined inside the helper (an async block it returns) now belongs to the function the helper was inlined into - its
            # parameter of the same name is the one meant; failing that the instantiation is unknown, i.e. possibly the crate's user
            of = self.facts.fn(owner)
            if of is not None and getattr(of, 'is_helper', False):
                host = self.facts.fn(fn.root) if getattr(fn, 'root', None) else None
                if host is not None and host.name != owner:
                    for g in host.generics:
                        if g['name'] == pname:
                            return self._res((g['owner'], pname), set())
                return set(), True
        return self._res((owner, pname), set())

    def _res(self, key, seen):
        if key in seen:
            return set(), False
        seen.add(key)
        out, ext = set(), key in self.external
        for b in self.b.get(key, ()):
            if b[0] == 'def':
                out.add(b[1])
            else:
                o, e = self._res((b[1], b[2]), seen)
                out |= o
                ext = ext or e
        return out, ext


def eval_switch_fn(fn, facts, adt):
    """Evaluate a pure `match self {..} -> const` method for every variant of `adt` (used for is_running)."""
    res = {}
    variants = facts.adts[adt]['variants']
    for v in variants:
        vals = {}
        bb = 0
        steps = 0
        out = None
        while steps < 200:
            steps += 1
            b = fn.blocks[bb]
            for s in b['stmts']:
                if s['k'] != 'assign':
                    continue
                rv = s['rv']
                l = s['pl']['l']
                if rv['k'] == 'discr':
                    vals[l] = ('discr', str(v['discr']))
                elif rv['k'] == 'use' and rv['op']['k'] == 'const' and 'val' in rv['op']:
                    vals[l] = ('const', rv['op']['val'])
                elif rv['k'] == 'use' and rv['op']['k'] in ('copy', 'move') and not rv['op']['pl']['p']:
                    vals[l] = vals.get(rv['op']['pl']['l'])
            t = b['term']
            k = t['k']
            if k == 'return':
                out = vals.get(0)
                break
            if k in ('goto', 'falseedge', 'falseunwind'):
                bb = t['target']
            elif k == 'switch':
                d = t['discr']
                val = vals.get(d['pl']['l']) if d['k'] in ('copy', 'move') else None
                if not val:
                    return None
                tgt = t['otherwise']
                for tv, tb in t['targets']:
                    if tv == val[1]:
                        tgt = tb
                bb = tgt
            else:
                return None
        if not out or out[0] != 'const':
            return None
        res[v['name']] = out[1] == '1'
    return res


class Proto:
    def __init__(self, facts):
        self.facts = facts
        self.variants = facts.variants(QS)
        self.problems = []          # fail-closed conditions (UNDECIDED)
        if self.variants != EXPECTED_VARIANTS:
            self.problems.append('QueueState variants changed: %s (roles table knows %s)' % (self.variants, EXPECTED_VARIANTS))
        self.ALL = frozenset(self.variants)
        self.bind = Bindings(facts)
        isr = facts.fn('desync::QueueState::is_running')
        self.running_set = None
        if isr:
            r = eval_switch_fn(isr, facts, QS)
            if r:
                self.running_set = frozenset(k for k, v in r.items() if v)
        if self.running_set is None:
            self.problems.append('cannot evaluate QueueState::is_running')
            self.running_set = frozenset()
        self.held = {}
        self.summ = {}              # fn name -> frozenset of (T_exit, P_exit, retV)
        self.requires_held = set()
        self.exit_pre = {}                   # function -> {(token at exit, return value): states the queue was last seen in}
        self._call_T = defaultdict(set)      # callee -> token states it is called in (for inferring owner-only helpers)
        self.owner_helpers = set()           # functions inferred to be part of the owner's code from their call contexts
        self.entryP = {}            # fn name -> frozenset (join over call sites)
        self.NO = set()             # non-owner transitions (s, s')
        self.events = None
        self.touch = None
        self.init_states = set()
        self._discover()

    # ------------------------------------------------------------------------------------
    def H(self, fn):
        if fn.name not in self.held:
            self.held[fn.name] = Held(fn)
        return self.held[fn.name]

    def _discover(self):
        """Which functions matter: they touch the state, run jobs, build guards, or call such functions."""
        facts = self.facts
        direct = set()
        self.exec_sites = []        # (fn, bb, kind)
        for fn in facts.crate_fns():
            hit = False
            for bb, b in enumerate(fn.blocks):
                for s in b['stmts']:
                    if s['k'] == 'assign':
                        if self.is_state_place(s['pl']) or (s['rv']['k'] == 'agg' and s['rv'].get('adt') in (ACTIVE_QUEUE, JQC)):
                            hit = True
                        if s['rv']['k'] == 'agg' and s['rv'].get('adt') == JQC:
                            # initial state of a queue
                            for fname, o in zip(s['rv']['fields'], s['rv']['ops']):
                                if fname == 'state':
                                    e = fn.expr_of_operand(o)
                                    if e[0] == 'agg' and e[2].startswith(QS + '::'):
                                        self.init_states.add(e[2].split('::')[-1])
                                    else:
                                        self.problems.append('initial queue state not a constant in %s' % fn.name)
                t = b['term']
                if t and t['k'] == 'call':
                    if self.is_exec_site(fn, t):
                        self.exec_sites.append((fn, bb, self.is_exec_site(fn, t)))
                        hit = True
            # any state read
            if not hit:
                for bb, b in enumerate(fn.blocks):
                    for s in b['stmts']:
                        if s['k'] == 'assign' and self._rvalue_mentions_state(s['rv']):
                            hit = True
            if hit:
                direct.add(fn.name)
        # close under callers
        touch = set(direct)
        changed = True
        while changed:
            changed = False
            for fn in facts.crate_fns():
                if fn.name in touch:
                    continue
                for bb, t in fn.calls():
                    for c in self.callees(fn, t)[0]:
                        if c in touch:
                            touch.add(fn.name)
                            changed = True
                            break
                    if fn.name in touch:
                        break
        self.touch = touch

    def _rvalue_mentions_state(self, rv):
        k = rv['k']
        if k in ('discr', 'ref'):
            return self.is_state_place(rv['pl']) or self.is_state_payload(rv['pl'])
        if k == 'use' and rv['op']['k'] in ('copy', 'move'):
            return self.is_state_place(rv['op']['pl']) or self.is_state_payload(rv['op']['pl'])
        return False

    @staticmethod
    def is_state_place(pl):
        p = pl['p']
        return bool(p) and p[-1]['k'] == 'field' and p[-1]['n'] == 'state' and clean_ty(p[-1].get('bty', '')) == JQC

    @staticmethod
    def is_state_payload(pl):
        p = pl['p']
        for i, x in enumerate(p[:-1]):
            if x['k'] == 'field' and x['n'] == 'state' and clean_ty(x.get('bty', '')) == JQC:
                return True
        return False

    @staticmethod
    def is_queue_place_expr(e):
        return e[0] == 'field' and e[2] == 'queue' and clean_ty(e[3]) == JQC

    @staticmethod
    def is_state_expr(e):
        return e[0] == 'field' and e[2] == 'state' and clean_ty(e[3]) == JQC

    def is_exec_site(self, fn, t):
        """Execution sites: where a queued job (or the sync caller's closure) actually runs."""
        if t.get('trait') == SCHEDULED_JOB and t.get('method') == 'run' and t.get('rk') == 'virtual':
            # delegation inside an impl of ScheduledJob::run is not a site of its own
            if fn.name in self.facts.trait_impl_methods(SCHEDULED_JOB, 'run'):
                return None
            return 'job.run'
        # direct call of a user closure in a scheduler function that owns a queue argument
        if t.get('rk') == 'unresolved' and (t.get('trait') or '').startswith('core::ops::function::Fn') and not fn.is_closure:
            st = clean_ty(t.get('self_ty', ''))
            if any(g['name'] == st and g['kind'] == 'type' for g in fn.generics):
                if any('JobQueue' in clean_ty(i) for i in fn.j.get('inputs', [])):
                    defs, ext = self.bind.resolve(fn, st)
                    if ext:
                        return 'closure()'
        return None

    def callees(self, fn, t):
        """-> (set of in-crate callee names, foreign:bool) for a call terminator."""
        name = t['func'].get('fn')
        if t.get('resolved_local') and t.get('rk') in ('item', 'closure_once_shim'):
            r = t['resolved']
            if self.facts.fn(r):
                return {r}, False
        if name and self.facts.fn(name) and t.get('rk') != 'virtual':
            return {name}, False
        if t.get('rk') == 'unresolved' and (t.get('trait') or '').startswith('core::ops::function::Fn'):
            st = clean_ty(t.get('self_ty', ''))
            defs, ext = self.bind.resolve(fn, st)
            return {d for d in defs if self.facts.fn(d)}, ext
        return set(), False

    # ------------------------------------------------------------------------------------
    def run(self, max_rounds=6):
        facts = self.facts
        fns = [f for f in facts.crate_fns() if f.name in self.touch]
        # helpers that receive the guard's referent (&mut JobQueueCore / &JobQueueCore / the guard itself) are analysed inlined at their call sites
        self.inline_only = set(f.name for f in fns if self._takes_core(f))
        fns = [f for f in fns if f.name not in self.inline_only]
        self.fns = fns
        # ActiveQueue's drop runs as part of the owner's unwinding
        for f in fns:
            if f.name == '<%s as core::ops::drop::Drop>::drop' % ACTIVE_QUEUE or f.root == '<%s as core::ops::drop::Drop>::drop' % ACTIVE_QUEUE:
                self.requires_held.add(f.name)
        prev_sig = None
        for rnd in range(max_rounds):
            self.events = defaultdict(set)
            self.viol = []
            # inner fixpoint on summaries / requires_held / entryP
            for it in range(12):
                changed = False
                self._call_T = defaultdict(set)
                for f in fns:
                    old = (self.summ.get(f.name), f.name in self.requires_held)
                    self.analyse(f)
                    new = (self.summ.get(f.name), f.name in self.requires_held)
                    if old != new:
                        changed = True
                # a private function that writes the state and is only ever called by somebody who holds the queue is part of the owner's
                # code (a "release and reschedule" wrapper shared by the runners): it is analysed as entered with the token held
                for f in fns:
                    if f.name in self.requires_held or f.is_closure or getattr(f, 'reachable', False):
                        continue
                    Ts = self._call_T.get(f.name)
                    if Ts and Ts == {'H'} and self._writes_state(f):
                        self.requires_held.add(f.name)
                        self.owner_helpers.add(f.name)
                        changed = True
                if not changed:
                    break
            # recompute events cleanly with final summaries
            self.events = defaultdict(set)
            self.viol = []
            self._entryP_new = defaultdict(set)
            for f in fns:
                self.analyse(f, record=True)
            # non-owner relation from this round
            NO = set()
            for (kind, fname, key), snaps in self.events.items():
                if kind == 'write':
                    for (s, s2, role) in snaps:
                        if role == 'nonowner' and s != s2:
                            NO.add((s, s2))
            entryP = {k: frozenset(v) for k, v in self._entryP_new.items()}
            sig = (frozenset(NO), tuple(sorted((k, tuple(sorted(v))) for k, v in entryP.items())), frozenset(self.requires_held))
            self.NO = NO
            self.entryP = entryP
            if sig == prev_sig:
                break
            prev_sig = sig
        self.rounds = rnd + 1
        self._check_external_handover(fns)
        return self

    def _writes_state(self, fn):
        for b in fn.blocks:
            if b['cleanup']:
                continue
            for s_ in b['stmts']:
                if s_['k'] == 'assign' and self.is_state_place(s_['pl']):
                    return True
        return False

    def _check_external_handover(self, fns):
        """A closure that takes or gives up the queue token is only understood when the analysis sees who calls it (a stored job, a
        closure parameter of an in-crate function).  When such a closure is run by an out-of-crate higher-order function (an iterator
        adaptor, Option::map ...) the caller's token state after the call is unknown: the dependent rules must not decide."""
        for f in fns:
            if not f.is_closure or f.is_coroutine or not f.parent:
                continue
            summ = self.summ.get(f.name) or ()
            if not any(T in ('H', 'R') for (T, P, ret) in summ) or f.name in self.requires_held:
                continue
            # only a closure that itself writes the state (after helper inlining) is a hand-over; a closure that merely calls a protocol
            # function whose summary leaks the token is that function's defect and must stay decidable
            own = self.events.get(('write', self._evn(f), ''), set())
            if not any(role in ('acquire', 'owner') and a != b for (a, b, role) in own):
                continue
            parent = self.facts.fn(f.parent)
            if not parent:
                continue
            for bb, t in parent.calls():
                name = t['func'].get('fn') or ''
                if self.facts.fn(name) or (t.get('resolved_local') and self.facts.fn(t.get('resolved') or '')):
                    continue
                if name in ('alloc::boxed::Box::new', 'alloc::sync::Arc::new'):
                    continue
                for a in t['args']:
                    if a['k'] != 'const' and clean_ty(a['pl']['ty']).replace('&mut ', '').replace('&', '') == '{closure:%s}' % f.name:
                        self.problems.append('closure %s takes or releases the queue token and is run by %s: the hand-over to its caller is not modelled' % (short(f.name), name))

    @staticmethod
    def _takes_core(fn):
        if fn.is_closure:
            # closures get the guard as a parameter (Result::map(|mut core| ..)); those are entered with the region open already
            return False
        return any(JQC in clean_ty(i) for i in fn.j.get('inputs', []))

    def closure_NO(self, P):
        out = set(P)
        changed = True
        while changed:
            changed = False
            for (a, b) in self.NO:
                if a in out and b not in out:
                    out.add(b)
                    changed = True
        return frozenset(out)

    # ------------------------------------------------------------------------------------
    def analyse(self, fn, record=False):
        _TLS.untracked = fn.mut_borrowed()
        self.exit_pre[fn.name] = {}
        held = self.H(fn)
        core_guards = frozenset(l for l, c in held.guards.items() if c == 'JobQueue.core')
        rh = fn.name in self.requires_held
        if rh:
            P0 = self.entryP.get(fn.name) or frozenset(['Running'])
            init = mk_store('H', frozenset(P0))
        else:
            init = mk_store('N', None)
        # closure params that are guards on the core: region from entry
        inn = defaultdict(set)
        entry_core = bool(core_guards & held.entry.get(0, frozenset())) if held.guards else False
        if entry_core:
            init = self._enter_region(init)
        inn[0].add(init)
        work = [0]
        done = {}
        exits = set()
        nstores = 0
        live = fn.live_in()
        while work:
            bb = work.pop()
            cur = frozenset(inn[bb])
            if done.get(bb) == cur:
                continue
            done[bb] = cur
            for st in cur:
                nstores += 1
                if nstores > 60000:
                    self.problems.append('store explosion in %s' % fn.name)
                    work = []
                    break
                for tgt, st2 in self._block(fn, bb, st, held, core_guards, record, exits):
                    st2 = _prune_dead(st2, live[tgt])
                    if st2 not in inn[tgt]:
                        inn[tgt].add(st2)
                        work.append(tgt)
        # summaries
        summ = frozenset(exits)
        self.summ[fn.name] = summ

    def _debug_only(self, fn):
        """Blocks that only execute when cfg!(debug_assertions): between the true edge of the `if cfg!(debug_assertions)` test that
        debug_assert! expands to and the point where it rejoins the other edge.  (The asserted condition itself carries the user's
        span, so it cannot be recognised by its span.)"""
        cache = getattr(self, '_dbg_cache', None)
        if cache is None:
            cache = self._dbg_cache = {}
        if fn.name in cache:
            return cache[fn.name]
        res = set()
        for bb, b in enumerate(fn.blocks):
            t = b['term']
            if t and t['k'] == 'switch' and 'cfg<debug_assert' in (t['sp'].get('mac') or ''):
                false_t = [tb for v, tb in t['targets'] if v == '0']
                true_t = t['otherwise']
                if not false_t:
                    continue
                r_false = fn.reachable_blocks(false_t[0])
                r_true = fn.reachable_blocks(true_t)
                res |= (r_true - r_false)
        cache[fn.name] = res
        return res

    def _evn(self, fn):
        """Events of an inlined helper belong to the function whose critical section it runs in."""
        return getattr(self, '_attr', None) or fn.name

    def _inline(self, callee, st, record, depth=0, caller=None):
        """Runs a helper that operates on the caller's locked JobQueueCore as if its body were written at the call site."""
        held = self.H(callee)
        init = st._replace(V=())
        inn = defaultdict(set)
        inn[0].add(init)
        work = [0]
        done = {}
        sink = []
        n = 0
        live = callee.live_in()
        self._inline_depth = getattr(self, '_inline_depth', 0) + 1
        outer_attr = getattr(self, '_attr', None)
        if outer_attr is None and caller is not None:
            self._attr = caller.name
        try:
            while work:
                bb = work.pop()
                cur = frozenset(inn[bb])
                if done.get(bb) == cur:
                    continue
                done[bb] = cur
                for x in cur:
                    n += 1
                    if n > 20000:
                        self.problems.append('store explosion while inlining %s' % callee.name)
                        return []
                    for tgt, x2 in self._block(callee, bb, x, held, frozenset(), record, sink, force_region=True):
                        x2 = _prune_dead(x2, live[tgt])
                        if x2 not in inn[tgt]:
                            inn[tgt].add(x2)
                            work.append(tgt)
        finally:
            self._inline_depth -= 1
            self._attr = outer_attr
        return sink

    # -- helpers for the interpreter ----------------------------------------------------
    def _enter_region(self, st):
        if st.T == 'H' and st.P is not None:
            S = self.closure_NO(st.P)
        else:
            S = self.ALL
        st = self._unsame(st)
        return st._replace(S=S, len0='?', own='?', S0=None)

    @staticmethod
    def _unsame(st):
        """Copies of the state stop being 'the current state' when the state may have changed."""
        if not any(v and v[0] == 'qs' and v[2] for _, v in st.V):
            return st
        return st._replace(V=tuple((l, ('qs', v[1], False) if (v and v[0] == 'qs' and v[2]) else v) for l, v in st.V))

    def _leave_region(self, st, fn=None, record=False):
        """-> list of stores.  Predicates on the state that were computed inside the region but are branched on after it
        (`let need = core.state == Idle; drop(core); if need {..}`) are materialised here: the store is split by their value."""
        outs = [st]
        if st.S is not None:
            for l, v in st.V:
                neg = bool(v) and v[0] == 'not'
                pv = v[1] if neg else v
                if pv and pv[0] == 'pred' and pv[1][0] == 'in':
                    nxt = []
                    for x in outs:
                        yes = frozenset(a for a in x.S if a in pv[1][1])
                        no = frozenset(a for a in x.S if a not in pv[1][1])
                        if yes:
                            nxt.append(vset(x._replace(S=yes), l, ('bool', 0 if neg else 1)))
                        if no:
                            nxt.append(vset(x._replace(S=no), l, ('bool', 1 if neg else 0)))
                    outs = nxt
        return [self._leave_one(x, fn, record) for x in outs]

    def _leave_one(self, st, fn=None, record=False):
        if record and fn is not None and st.S is not None:
            enums = tuple(sorted(set(v[1] for l, v in st.V if v and v[0] == 'enum' and self._is_local_enum(fn, l))))
            self.events[('region_exit', self._evn(fn), '')].add((st.S, st.T, enums, st.len0, st.own, st.S0 if st.S0 is not None else st.S))
        P = st.S if st.T == 'H' else None
        pan = 1 if (st.S == frozenset(['Panicked']) and st.T == 'N') else st.pan
        pre = st.S0 if st.S0 is not None else st.S
        acq0 = st.acq0
        if st.T == 'H' and st.S0 is not None and not (st.S0 & OWNED):
            acq0 = (tuple(sorted(st.S0)), st.len0)
        sched = st.sched
        if fn is not None and fn.name.endswith('SchedulerCore::reschedule_queue') and st.S == frozenset(['WaitingForPoll']) and st.T == 'N':
            sched = 1   # a queue abandoned by its polling task must be offered to the pool
        resched = st.resched
        if st.pushed and st.T == 'N' and st.S is not None and 'Idle' in st.S:
            # a job was appended and the queue may be Idle with nobody obliged to run it: somebody must (re)schedule it
            resched = 2
        return st._replace(S=None, P=P, len0='?', own='?', S0=None, pan=pan, pre=pre, acq0=acq0, sched=sched, resched=resched, pushed=0)

    def _is_local_enum(self, fn, l):
        if l >= PAYLOAD:
            # payload of a wrapper (Result<Decision, _>, Option<Decision>): an in-crate enum among the wrapper's type arguments
            import re
            for name in re.findall(r'[A-Za-z_][A-Za-z0-9_]*(?:::[A-Za-z_][A-Za-z0-9_]*)+', fn.local_ty(l - PAYLOAD)):
                a = self.facts.adts.get(name)
                if a and a['kind'] == 'Enum' and name != ty_head(fn.local_ty(l - PAYLOAD)):
                    return True
            return False
        a = self.facts.adts.get(ty_head(fn.local_ty(l)))
        return bool(a) and a['kind'] == 'Enum'

    def _root_local(self, fn, pl):
        """Local a place designates after peeling refs (through single-def `&x` temporaries)."""
        if not pl['p']:
            return pl['l']
        if all(p['k'] == 'deref' for p in pl['p']):
            e = fn.expr_of_local(pl['l'])
            if e[0] == 'var':
                return e[1]
            if e[0] == 'arg':
                return e[1]
        return None

    def _payload_key(self, fn, pl):
        """For a place `(x as Variant).0` (through derefs / single-def reference temporaries): the V key of x's payload."""
        p = [x for x in pl['p'] if x['k'] != 'deref']
        if len(p) == 2 and p[0]['k'] == 'downcast' and p[1]['k'] == 'field' and p[1].get('i', 0) == 0:
            base = {'l': pl['l'], 'p': [x for x in pl['p'] if x['k'] == 'deref'][:1] if pl['p'] and pl['p'][0]['k'] == 'deref' else []}
            r = self._root_local(fn, base)
            if r is not None and r not in _untracked():
                return r + PAYLOAD
        return None

    def _tuple_key(self, fn, pl):
        """For a place `x.i` on a tuple-typed local x: the V key of that field."""
        p = [x for x in pl['p'] if x['k'] != 'deref']
        if len(p) == 2 and p[0]['k'] == 'downcast' and p[1]['k'] == 'field' and len(pl['p']) == 2 and 1 <= p[1].get('i', 0) < TUPLE_MAX and pl['l'] not in _untracked():
            return pl['l'] + TUPLE * (p[1]['i'] + 1)      # field i >= 1 of a multi-field enum variant held in a local
        if len(p) == 1 and p[0]['k'] == 'field' and len(pl['p']) == 1 and clean_ty(fn.local_ty(pl['l'])).startswith('(') and p[0].get('i', 0) < TUPLE_MAX:
            if pl['l'] not in _untracked():
                return pl['l'] + TUPLE * (p[0].get('i', 0) + 1)
        return None

    def _operand_val(self, fn, st, o):
        k = o['k']
        if k == 'const':
            if o['ty'] == 'bool' and 'val' in o:
                return ('bool', int(o['val']))
            if 'val' in o:
                return ('int', o['val'])
            return None
        pl = o['pl']
        pk = self._payload_key(fn, pl)
        if pk is not None:
            return vget(st, pk)
        tk = self._tuple_key(fn, pl)
        if tk is not None:
            return vget(st, tk)
        if self.is_state_place(pl) or (pl['p'] and all(p['k'] == 'deref' for p in pl['p']) and st.S is not None and self.is_state_expr(fn.expr_of_place(pl))):
            if st.S is None:
                return ('qs', self.ALL, False)
            return ('qs', st.S, True)
        l = self._root_local(fn, pl)
        if l is not None:
            return vget(st, l)
        return None

    def _adt_variant_by_discr(self, ty, val):
        head = ty_head(ty)
        if head in STD_ENUMS:
            return STD_ENUMS[head].get(str(val))
        return self.facts.variant_by_discr(head, val)

    def _adt_all_variants(self, ty):
        head = ty_head(ty)
        if head in STD_ENUMS:
            return list(STD_ENUMS[head].values())
        return self.facts.variants(head)

    # -- one block ------------------------------------------------------------------------
    def _block(self, fn, bb, st, held, core_guards, record, exits, force_region=False):
        """Yields (target bb, store) for the normal-flow successors of bb when entered with st."""
        b = fn.blocks[bb]
        stores = [st]
        nst = len(b['stmts'])
        in_region = force_region or (bool(core_guards & held.before.get((bb, 0), frozenset())) if core_guards else False)
        for i, s in enumerate(b['stmts']):
            now = force_region or (bool(core_guards & held.before.get((bb, i), frozenset())) if core_guards else False)
            stores = self._region_edge(stores, in_region, now, fn, record)
            in_region = now
            new = []
            for x in stores:
                new.extend(self._stmt(fn, bb, i, s, x, record))
            stores = new
        now = force_region or (bool(core_guards & held.before.get((bb, nst), frozenset())) if core_guards else False)
        stores = self._region_edge(stores, in_region, now, fn, record)
        in_region = now
        t = b['term']
        if not t:
            return
        out = []
        for x in stores:
            out.extend(self._term(fn, bb, t, x, held, core_guards, record, exits, in_region))
        # region bookkeeping at block entry of successors is derived from `held.entry`
        for tgt, x in out:
            if force_region:
                yield tgt, x
                continue
            tgt_in = bool(core_guards & held.before.get((tgt, 0), frozenset())) if core_guards else False
            cur_in = x.S is not None
            if cur_in and not tgt_in:
                for y in self._leave_region(x, fn, record):
                    yield tgt, y
                continue
            elif not cur_in and tgt_in:
                x = self._enter_region(x)
            yield tgt, x

    def _region_edge(self, stores, was, now, fn=None, record=False):
        if was == now:
            return stores
        if now:
            return [self._enter_region(x) if x.S is None else x for x in stores]
        out = []
        for x in stores:
            if x.S is not None:
                out.extend(self._leave_region(x, fn, record))
            else:
                out.append(x)
        return out

    # -- statements -------------------------------------------------------------------------
    def _stmt(self, fn, bb, i, s, st, record):
        k = s['k']
        if k == 'dead':
            return [vset(st, s['l'], None)]
        if k != 'assign':
            return [st]
        pl, rv = s['pl'], s['rv']
        # write to the queue state
        if self.is_state_place(pl):
            return self._write(fn, bb, i, st, rv, record)
        if self.is_state_payload(pl):
            self.problems.append('write into the payload of the queue state in %s' % fn.name)
            return [st]
        if pl['p'] and pl['p'][-1]['k'] == 'field' and pl['p'][-1]['n'] == 'waker' and 'SchedulerFutureResult' in clean_ty(pl['p'][-1].get('bty', '')):
            e = fn.expr_of_rvalue(rv)
            if e[0] == 'agg' and e[2] == 'core::option::Option::Some':
                st = st._replace(act=st.act | 4)     # this poll registered the current task's waker
                if record:
                    self.events[('waker_store', self._evn(fn), '')].add(st.T)
        if pl['p']:
            # writes through other places: a tracked local may be overwritten via a reference; keep it simple:
            l = self._root_local(fn, pl)
            if l is not None:
                val = self._rvalue_val(fn, st, rv, bb, i, record)
                return [vset(st, l, val)]
            return [st]
        l = pl['l']
        if rv['k'] == 'agg' and rv.get('adt') == 'core::task::poll::Poll' and rv.get('variant') == 'Pending':
            st = st._replace(act=st.act | 8)         # Poll::Pending built in this function
        if rv['k'] == 'agg' and rv.get('adt') == ACTIVE_QUEUE and record:
            self.events[('guard_new', self._evn(fn), '')].add(st.T)
        val = self._rvalue_val(fn, st, rv, bb, i, record)
        payload = None
        if rv['k'] == 'agg' and rv['ak'] == 'adt' and 1 <= len(rv.get('ops', [])) <= TUPLE_MAX:
            payload = self._operand_val(fn, st, rv['ops'][0])
        elif rv['k'] == 'use' and rv['op']['k'] in ('copy', 'move') and not rv['op']['pl']['p']:
            payload = vget(st, rv['op']['pl']['l'] + PAYLOAD)
        fields = None
        if rv['k'] == 'agg' and rv['ak'] == 'tuple' and 0 < len(rv.get('ops', [])) <= TUPLE_MAX:
            fields = [self._operand_val(fn, st, o_) for o_ in rv['ops']]
        elif rv['k'] == 'agg' and rv['ak'] == 'adt' and 1 < len(rv.get('ops', [])) <= TUPLE_MAX and rv.get('adt') != QS:
            # an enum variant / struct with several fields (`Step::Stop { draining, poll }`): its components are tracked like a tuple's
            fields = [self._operand_val(fn, st, o_) for o_ in rv['ops']]
        elif rv['k'] == 'use' and rv['op']['k'] in ('copy', 'move') and not rv['op']['pl']['p'] and \
                (clean_ty(fn.local_ty(rv['op']['pl']['l'])).startswith('(') or any(vget(st, rv['op']['pl']['l'] + TUPLE * (i_ + 1)) is not None for i_ in range(TUPLE_MAX))):
            fields = [vget(st, rv['op']['pl']['l'] + TUPLE * (i_ + 1)) for i_ in range(TUPLE_MAX)]
        st = vset(st, l, val)
        if payload is not None and payload[0] in ('enum', 'bool') and l not in _untracked():
            st = vset(st, l + PAYLOAD, payload)
        if fields and l not in _untracked():
            for i_, fv in enumerate(fields):
                if fv is not None and fv[0] in ('enum', 'bool', 'qs'):
                    items = [(k_, v_) for k_, v_ in st.V if k_ != l + TUPLE * (i_ + 1)] + [(l + TUPLE * (i_ + 1), fv)]
                    items.sort(key=lambda kv: kv[0])
                    st = st._replace(V=tuple(items))
        return [st]

    def _rvalue_val(self, fn, st, rv, bb, i, record):
        k = rv['k']
        if k == 'use':
            return self._operand_val(fn, st, rv['op'])
        if k == 'ref':
            # references to tracked locals are looked through by _root_local; nothing to store
            return None
        if k == 'discr':
            pl = rv['pl']
            if self.is_state_place(pl):
                return ('disc', 'state')
            if pl['p'] and all(p['k'] == 'deref' for p in pl['p']) and st.S is not None and self.is_state_expr(fn.expr_of_place(pl)):
                return ('disc', 'state')      # through a reference temporary (`&core.state` handed to an inlined helper)
            l = self._root_local(fn, pl)
            if l is not None:
                return ('disc', l)
            pk = self._payload_key(fn, pl)
            if pk is not None:
                return ('disc', pk, pl.get('ty', ''))
            return None
        if k == 'agg':
            if rv['ak'] == 'adt':
                adt = rv['adt']
                if adt == QS:
                    return ('qs', frozenset([rv['variant']]), False)
                return ('enum', rv['variant'])
            return None
        if k == 'unop' and rv['op'] == 'Not':
            v = self._operand_val(fn, st, rv['a'])
            return self._neg(v)
        if k == 'binop':
            a = self._operand_val(fn, st, rv['a'])
            b = self._operand_val(fn, st, rv['b'])
            op = rv['op']
            if a == ('len',) and b and b[0] == 'int':
                return ('lencmp', op, int(b[1]))
            if b == ('len',) and a and a[0] == 'int':
                flip = {'Lt': 'Gt', 'Gt': 'Lt', 'Le': 'Ge', 'Ge': 'Le', 'Eq': 'Eq', 'Ne': 'Ne'}
                if op in flip:
                    return ('lencmp', flip[op], int(a[1]))
            if op in ('Eq', 'Ne') and a and b and a[0] == 'bool' and b[0] == 'bool':
                r = int(a[1] == b[1])
                return ('bool', r if op == 'Eq' else 1 - r)
            return None
        if k == 'cast':
            return self._operand_val(fn, st, rv['op']) if rv['ck'] not in ('transmute',) else None
        return None

    @staticmethod
    def _neg(v):
        if not v:
            return None
        if v[0] == 'bool':
            return ('bool', 1 - v[1])
        if v[0] == 'not':
            return v[1]
        if v[0] in ('pred', 'lencmp'):
            return ('not', v)
        return None

    def _write(self, fn, bb, i, st, rv, record):
        val = None
        if rv['k'] == 'use':
            val = self._operand_val(fn, st, rv['op'])
        elif rv['k'] == 'agg' and rv.get('adt') == QS:
            val = ('qs', frozenset([rv['variant']]), False)
        if st.S is None:
            self.problems.append('queue state written outside a JobQueue.core region in %s' % fn.name)
            S = self.ALL
        else:
            S = st.S
        if not val or val[0] != 'qs':
            self.problems.append('queue state written with a value the analysis cannot resolve in %s (%s)' % (fn.name, fn.loc(bb, i)))
            return [st._replace(S=self.ALL)]
        newset, same = val[1], val[2]
        out = []
        for s in sorted(S):
            targets = [s] if same else sorted(newset)
            for s2 in targets:
                x = st
                T = x.T
                role = None
                if T == 'H':
                    role = 'owner'
                    if s2 in UNOWNED and s2 != s:
                        T = 'R'
                    elif s2 in UNOWNED and s2 == s:
                        # identity write of an unowned state by an owner: the owner is confused
                        T = 'R'
                else:
                    if s2 == 'Running' and s not in OWNED:
                        role = 'acquire'
                        T = 'H'
                    else:
                        role = 'nonowner'
                x = x._replace(S=frozenset([s2]), T=T, S0=x.S0 if x.S0 is not None else frozenset([s]))
                if role == 'owner' and T == 'R':
                    x = x._replace(rel=s2)
                if role == 'acquire':
                    x = x._replace(rm=0)
                if s2 != s:
                    x = self._unsame(x)
                if role == 'owner' and s2 == 'Idle' and s != s2:
                    x = x._replace(resched=0 if x.len0 == 'Y' else 1)
                if role == 'nonowner' and s2 == 'Pending' and s != s2:
                    x = x._replace(sched=1)
                if role == 'owner' and s2 in PARKED and s2 != s and record:
                    self.events[('park_write', self._evn(fn), '')].add((s, s2, st.susp))
                if role == 'owner' and s2 in UNOWNED and st.pend:
                    if record:
                        self.viol.append(('TOK-requeue', self._evn(fn), 'release to %s while a job that returned Pending has not been put back' % s2, fn.loc(bb, i)))
                if record:
                    self.events[('write', self._evn(fn), '')].add((s, s2, role))
                    self.events[('writesite', self._evn(fn), (bb, i))].add((s, s2, role, st.own, st.len0))
                out.append(x)
        return out

    # -- terminators ------------------------------------------------------------------------
    def _term(self, fn, bb, t, st, held, core_guards, record, exits, in_region):
        k = t['k']
        if k in ('goto', 'falseedge', 'falseunwind', 'drop', 'assert', 'yield'):
            return [(t['target'], st)]
        if k == 'return':
            self._at_exit(fn, bb, st, record, exits)
            return []
        if k == 'switch':
            return self._switch(fn, bb, t, st)
        if k == 'call':
            return self._call(fn, bb, t, st, held, record)
        return []

    def _at_exit(self, fn, bb, st, record, exits):
        ret = vget(st, 0)
        if ret is not None and ret[0] not in ('bool', 'enum'):
            ret = None
        if isinstance(exits, list):
            exits.append((st, ret))     # inlined helper: hand the whole store back to the caller
            return
        exits.add((st.T, st.P if st.T == 'H' else None, ret))
        # what the function last saw the queue in, per kind of exit (a failed claim reports "the queue was neither Idle nor Pending")
        ep = self.exit_pre.setdefault(fn.name, {})
        ep[(st.T, ret)] = ep.get((st.T, ret), frozenset()) | (st.pre if st.pre is not None else self.ALL)
        if record:
            if st.resched == 1:
                self.viol.append(('TOK-resched', fn.name, 'owner wrote Idle without the queue-empty test and returns without calling reschedule_queue', fn.loc(bb)))
            if st.resched == 2:
                self.viol.append(('TOK-resched', fn.name, 'a job is appended while the queue may be Idle and the function returns without (re)scheduling the queue: nobody is obliged to run it', fn.loc(bb)))
            if st.sched:
                self.viol.append(('TOK-pending', fn.name, 'queue marked Pending but not (pushed on the schedule and a thread asked) before returning', fn.loc(bb)))
            if st.pend:
                self.viol.append(('TOK-requeue', self._evn(fn), 'returns while a job that returned Pending has not been put back', fn.loc(bb)))
            if st.rm and ((st.S if st.S is not None else self.ALL) & NEEDS_ENTRY):
                self.viol.append(('TOK-unschedule', self._evn(fn), 'the queue\'s schedule entries are removed but the queue may be left %s without being claimed: no pool thread will ever pick it up' % '/'.join(sorted((st.S if st.S is not None else self.ALL) & NEEDS_ENTRY)), fn.loc(bb)))
            self.events[('exit', self._evn(fn), '')].add((st.T, ret))
            self.events[('exit_pan', self._evn(fn), '')].add((st.pan, ret))
            self.events[('exit_state', self._evn(fn), '')].add((st.T, st.rel, ret))
            self.events[('exit_act', self._evn(fn), '')].add((st.pre, st.act))
            self.events[('exit_reg', self._evn(fn), '')].add((ret, st.act & 4, st.act & 8))

    def _is_completion_flag(self, fn, l):
        """local l is `*guard` (possibly negated) of the ready flag a blocked sync caller shares with its queued job"""
        from .facts import expr_root
        e = fn.expr_of_local(l)
        while e[0] == 'unop' and e[1] == 'Not':
            return False       # (MIR folds the negation of a loop condition into the edges; an explicit Not is left undecided)
        r = expr_root(e)
        g = self.H(fn).guards
        return r[0] == 'var' and g.get(r[1]) == 'sync.ready'

    def _switch(self, fn, bb, t, st):
        d = t['discr']
        v = self._operand_val(fn, st, d) if d['k'] != 'const' else self._operand_val(fn, st, d)
        dl = d['pl']['l'] if d['k'] in ('copy', 'move') and not d['pl']['p'] else None
        # debug_assert!: never refine on it (release builds do not have it)
        mac = (t['sp'].get('mac') or '')
        no_refine = 'debug_assert' in mac or bb in self._debug_only(fn)
        edges = [(val, tgt) for val, tgt in t['targets']] + [('otherwise', t['otherwise'])]
        listed = [val for val, _ in t['targets']]
        out = []
        if v is None or no_refine:
            if v is not None and v[0] == 'bool':
                pass
            else:
                if st.resched == 2 and dl is not None and self._is_completion_flag(fn, dl):
                    # `*ready` seen true: the job this caller appended has run, so somebody has run the queue since - what is left on it is
                    # that runner's to reschedule, not the caller's
                    return [(tgt, st._replace(resched=0) if val != '0' else st) for val, tgt in edges]
                if v is None and not no_refine and dl is not None and fn.local_ty(dl) == 'bool' and listed == ['0'] and dl not in _untracked():
                    # a flag the analysis knows nothing about (`let steal_now = went_idle && thread::panicking()`): the branch taken fixes
                    # it - and the named local the tested temporary was copied from, in the same block - for the rest of the path
                    outs = []
                    for val, tgt in edges:
                        bv = ('bool', 0 if val == '0' else 1)
                        x = vset(st, dl, bv)
                        ds = [d_ for d_ in fn.defs().get(dl, []) if not fn.blocks[d_[1]]['cleanup']]
                        if len(ds) == 1 and ds[0][0] == 'stmt' and ds[0][1] == bb and ds[0][3]['k'] == 'use' and ds[0][3]['op']['k'] in ('copy', 'move') and not ds[0][3]['op']['pl']['p']:
                            src = ds[0][3]['op']['pl']['l']
                            if vget(x, src) is None and fn.local_ty(src) == 'bool' and src not in _untracked():
                                x = vset(x, src, bv)
                        outs.append((tgt, x))
                    return outs
                return [(tgt, st) for _, tgt in edges]
        kind = v[0]
        if kind == 'bool':
            for val, tgt in edges:
                if (val == 'otherwise' and str(v[1]) not in listed) or val == str(v[1]):
                    out.append((tgt, st))
            return out
        if kind == 'disc' and v[1] == 'state':
            S = st.S if st.S is not None else self.ALL
            for val, tgt in edges:
                if val == 'otherwise':
                    names = set(self._adt_variant_by_discr(QS, x) for x in listed)
                    S2 = frozenset(s for s in S if s not in names)
                else:
                    S2 = frozenset(s for s in S if s == self._adt_variant_by_discr(QS, val))
                if S2:
                    out.append((tgt, st._replace(S=S2)))
            return out
        if kind == 'disc':
            l = v[1]
            lv = vget(st, l)
            ty = v[2] if len(v) > 2 else fn.local_ty(l)
            for val, tgt in edges:
                if val == 'otherwise':
                    names = set(self._adt_variant_by_discr(ty, x) for x in listed)
                    feas = lambda n: n not in names
                else:
                    nm = self._adt_variant_by_discr(ty, val)
                    feas = lambda n, nm=nm: n == nm
                if lv is None:
                    out.append((tgt, st))
                elif lv[0] == 'enum':
                    if feas(lv[1]):
                        out.append((tgt, st))
                elif lv[0] == 'qs':
                    S2 = frozenset(s for s in lv[1] if feas(s))
                    if S2:
                        x = vset(st, l, ('qs', S2, lv[2]))
                        if lv[2] and st.S is not None:
                            x = x._replace(S=frozenset(s for s in st.S if s in S2))
                        elif lv[2] and st.S is None and st.T == 'H' and st.P is not None:
                            x = x._replace(P=frozenset(s for s in st.P if s in S2) or st.P)
                        out.append((tgt, x))
                elif lv[0] == 'runres':
                    nm = None if val == 'otherwise' else self._adt_variant_by_discr(ty, val)
                    x = st
                    if nm == 'Pending' or (val == 'otherwise' and 'Pending' not in [self._adt_variant_by_discr(ty, y) for y in listed]):
                        x = x._replace(pend=1, susp=1)
                        x = vset(x, l, ('enum', 'Pending'))
                    elif nm == 'Ready':
                        x = vset(x, l, ('enum', 'Ready'))
                    out.append((tgt, x))
                else:
                    out.append((tgt, st))
            return out
        # boolean predicates
        for val, tgt in edges:
            truth = not (val == '0')
            if val == 'otherwise' and '0' not in listed and listed:
                truth = False if '1' in listed else True
            x = self._assume(st, v, truth)
            if x is not None:
                if dl is not None:
                    x = vset(x, dl, ('bool', int(truth)))
                    # the tested temporary is a copy of a named local (`let has_jobs = ..; state = if has_jobs {..} else {..}; has_jobs`):
                    # the branch taken fixes the value of that local as well, as long as it still holds the very predicate that was tested
                    src = dl
                    for _ in range(4):
                        ds = [d_ for d_ in fn.defs().get(src, []) if not fn.blocks[d_[1]]['cleanup']]
                        if len(ds) != 1 or ds[0][0] != 'stmt' or ds[0][3]['k'] != 'use' or ds[0][3]['op']['k'] not in ('copy', 'move') or ds[0][3]['op']['pl']['p']:
                            break
                        src = ds[0][3]['op']['pl']['l']
                        if vget(x, src) == v and src not in _untracked():
                            x = vset(x, src, ('bool', int(truth)))
                        else:
                            break
                out.append((tgt, x))
        return out

    def _assume(self, st, v, truth):
        """Refine st assuming predicate value v has the given truth; None if infeasible."""
        k = v[0]
        if k == 'not':
            return self._assume(st, v[1], not truth)
        if k == 'pred':
            atom = v[1]
            if atom[0] == 'in':
                S = st.S if st.S is not None else None
                if S is None:
                    return st
                S2 = frozenset(s for s in S if (s in atom[1]) == truth)
                if not S2:
                    return None
                return st._replace(S=S2)
            if atom[0] == 'lin':
                # predicate on a local copy of the state
                l, sset = atom[1], atom[2]
                lv = vget(st, l)
                if lv and lv[0] == 'qs':
                    S2 = frozenset(s for s in lv[1] if (s in sset) == truth)
                    if not S2:
                        return None
                    return vset(st, l, ('qs', S2, lv[2]))
                return st
            if atom[0] == 'own':
                if st.own != '?' and (st.own == 'Y') != truth:
                    return None
                return st._replace(own='Y' if truth else 'N')
            if atom[0] == 'len0':
                if st.len0 != '?' and (st.len0 == 'Y') != truth:
                    return None
                return st._replace(len0='Y' if truth else 'N')
            if atom[0] == 'runis':
                # the answer of a job's run(): `if job.run(cx).is_pending()` is the same test as `match .. { Poll::Pending => .. }`
                l, var = atom[1], atom[2]
                pending = (var == 'Pending') == truth if var in ('Pending', 'Ready') else None
                if pending is None:
                    return st
                if pending:
                    return vset(st._replace(pend=1, susp=1), l, ('enum', 'Pending'))
                return vset(st, l, ('enum', 'Ready'))
            if atom[0] == 'isvar':
                l, names = atom[1], atom[2]
                lv = vget(st, l)
                if lv and lv[0] == 'enum':
                    if (lv[1] in names) != truth:
                        return None
                    return st
                return st
            return st
        if k == 'lencmp':
            op, c = v[1], v[2]
            # does (len op c) == truth imply len == 0 / len != 0 ?
            def holds(n):
                r = {'Eq': n == c, 'Ne': n != c, 'Lt': n < c, 'Le': n <= c, 'Gt': n > c, 'Ge': n >= c}.get(op)
                return r
            if holds(0) is None:
                return st
            zero_ok = holds(0) == truth
            # sample non-zero lengths 1..4 plus a large one
            nonzero_ok = any(holds(n) == truth for n in (1, 2, 3, 4, 1000))
            if zero_ok and not nonzero_ok:
                if st.len0 == 'N':
                    return None
                return st._replace(len0='Y')
            if nonzero_ok and not zero_ok:
                if st.len0 == 'Y':
                    return None
                return st._replace(len0='N')
            return st
        return st

    def _apply_summary_T(self, st, T2, P2, callee_rh):
        """Token effect of a call whose summary exit is (T2, P2)."""
        if callee_rh:
            if T2 == 'R':
                return st._replace(T='R', P=None)
            return st._replace(T='H', P=P2 if P2 is not None else st.P)
        if T2 == 'H':
            return st._replace(T='H', P=P2)
        return st

    # -- calls ----------------------------------------------------------------------------
    def _call(self, fn, bb, t, st, held, record):
        name = t['func'].get('fn') or ''
        tgt = t['target']
        dest = t['dest']
        dl = dest['l'] if not dest['p'] else None
        args = t['args']

        def done(x, val=None):
            if tgt is None:
                return []
            # a predicate on the state that the current value set already decides is a constant
            if val and val[0] in ('pred', 'not') and x.S is not None:
                neg = val[0] == 'not'
                pv = val[1] if neg else val
                if pv[0] == 'pred' and pv[1][0] == 'in':
                    if x.S <= pv[1][1]:
                        val = ('bool', 0 if neg else 1)
                    elif not (x.S & pv[1][1]):
                        val = ('bool', 1 if neg else 0)
            if dl is not None:
                x = vset(x, dl, val)
            return [(tgt, x)]

        # execution sites
        ex = self.is_exec_site(fn, t)
        if ex:
            if record:
                self.events[('exec', self._evn(fn), ex)].add(st.T)
                if st.T == 'H' and st.P is not None:
                    self.events[('exec_P', self._evn(fn), ex)].add(self.closure_NO(st.P))
            if st.T == 'N' and not (fn.name in self.requires_held):
                # the function runs jobs without having acquired: it needs the token from its caller
                self.requires_held.add(fn.name)
            x = st
            if ex == 'job.run':
                x = x._replace(pend=0, susp=0)
                return done(x, ('runres',))
            return done(x, None)

        if name in ('std::thread::functions::park', 'std::thread::functions::park_timeout') and record:
            # what the owner last saw of its queue when it goes to sleep
            self.events[('park', self._evn(fn), '')].add((st.T, st.P))
        if name == 'core::ops::try_trait::FromResidual::from_residual' and not t['dest']['p']:
            # the early exit of `opt?` / `res?`: the function's own result is built from the residual, i.e. it is None / Err
            head = ty_head(clean_ty(fn.local_ty(t['dest']['l'])))
            if head == 'core::option::Option':
                return done(st, ('enum', 'None'))
            if head == 'core::result::Result':
                return done(st, ('enum', 'Err'))
        PRED = {'core::task::poll::Poll::is_ready': 'Ready', 'core::task::poll::Poll::is_pending': 'Pending', 'core::option::Option::is_some': 'Some',
                'core::option::Option::is_none': 'None', 'core::result::Result::is_ok': 'Ok', 'core::result::Result::is_err': 'Err'}
        if name in PRED and args and args[0]['k'] != 'const':
            l0 = self._root_local(fn, args[0]['pl'])
            for _ in range(4):
                # the method takes `&self`: step from the reference temporary to the value it points at
                if l0 is None or not fn.local_ty(l0).strip().startswith('&'):
                    break
                ds = fn.defs().get(l0, [])
                if len(ds) == 1 and ds[0][0] == 'stmt' and ds[0][3]['k'] == 'ref' and all(p['k'] == 'deref' for p in ds[0][3]['pl']['p']):
                    l0 = ds[0][3]['pl']['l']
                else:
                    break
            v0 = vget(st, l0) if l0 is not None else None
            if v0 == ('runres',):
                return done(st, ('pred', ('runis', l0, PRED[name])))
            if v0 and v0[0] == 'enum':
                return done(st, ('bool', int(v0[1] == PRED[name])))
        # the crate's own vocabulary on the state
        if name == QS + '::is_running':
            e = fn.expr_of_operand(args[0])
            if self.is_state_expr(e):
                return done(st, ('pred', ('in', self.running_set)))
            l = self._root_local(fn, args[0]['pl']) if args[0]['k'] != 'const' else None
            if l is not None:
                return done(st, ('pred', ('lin', l, self.running_set)))
            return done(st, None)
        if name == 'core::cmp::PartialEq::eq' or name == 'core::cmp::PartialEq::ne':
            neg = name.endswith('::ne')
            # `ne` is a provided method: it resolves to the generic default, so look at the operand type as well
            res = (t.get('resolved') or '') + ' ' + clean_ty(t.get('self_ty') or '') + ' ' + (clean_ty(args[0]['pl']['ty']) if args and args[0]['k'] != 'const' else '')
            val = None
            if QS in res:
                ea, eb = fn.expr_of_operand(args[0]), fn.expr_of_operand(args[1])
                va = self._const_qs(fn, st, args[0], ea)
                vb = self._const_qs(fn, st, args[1], eb)
                if self.is_state_expr(ea) and vb:
                    val = ('pred', ('in', vb))
                elif self.is_state_expr(eb) and va:
                    val = ('pred', ('in', va))
                else:
                    def ref_target(a_):
                        # `&x` handed by reference (eq takes &self, &other): the local the reference temporary points at
                        if a_['k'] == 'const':
                            return None
                        l_ = self._root_local(fn, a_['pl'])
                        if l_ is not None and not a_['pl']['p'] and vget(st, l_) is None:
                            ds_ = [d_ for d_ in fn.defs().get(l_, []) if not fn.blocks[d_[1]]['cleanup']]
                            if len(ds_) == 1 and ds_[0][0] == 'stmt' and ds_[0][3]['k'] == 'ref' and not ds_[0][3]['pl']['p']:
                                return ds_[0][3]['pl']['l']
                        return l_
                    la = ref_target(args[0])
                    lb = ref_target(args[1])
                    if la is not None and vb and vget(st, la) and vget(st, la)[0] == 'qs':
                        val = ('pred', ('lin', la, vb))
                    elif lb is not None and va and vget(st, lb) and vget(st, lb)[0] == 'qs':
                        val = ('pred', ('lin', lb, va))
            elif 'FutureId' in res:
                val = ('pred', ('own',))
            else:
                # derived equality on a local enum whose variant is known on this path (`if action == Action::Ignore`)
                def enum_of(a):
                    e = fn.expr_of_operand(a)
                    if e[0] == 'agg' and e[1] == 'adt':
                        return e[2].split('::')[-1]
                    if a['k'] != 'const':
                        cands = []
                        if e[0] in ('var', 'arg'):
                            cands.append(e[1])
                        # the reference temporary points at a user variable: `&action`
                        for d_ in fn.defs().get(a['pl']['l'], []):
                            if d_[0] == 'stmt' and d_[3]['k'] == 'ref' and not d_[3]['pl']['p']:
                                cands.append(d_[3]['pl']['l'])
                        l0 = self._root_local(fn, a['pl'])
                        if l0 is not None:
                            cands.append(l0)
                        for l in cands:
                            v = vget(st, l)
                            if v and v[0] == 'enum':
                                return v[1]
                    return None
                x, y = enum_of(args[0]), enum_of(args[1])
                if x is not None and y is not None:
                    val = ('bool', int(x == y))
            if val and neg:
                val = ('bool', 1 - val[1]) if val[0] == 'bool' else ('not', val)
            return done(st, val)
        if name.endswith('::VecDeque::len') or name.endswith('::VecDeque::is_empty'):
            e = fn.expr_of_operand(args[0])
            if self.is_queue_place_expr(e):
                return done(st, ('len',) if name.endswith('len') else ('pred', ('len0',)))
            return done(st, None)
        if name.endswith('::VecDeque::push_back') or name.endswith('::VecDeque::push_front'):
            e = fn.expr_of_operand(args[0])
            if self.is_queue_place_expr(e):
                return done(st._replace(len0='N', pushed=1 if name.endswith('push_back') else st.pushed), None)
            if e[0] == 'field' and e[2] == 'schedule' or 'VecDeque<alloc::sync::Arc<desync::JobQueue>>' in clean_ty(args[0].get('pl', {}).get('ty', '')):
                if st.sched == 1 and name.endswith('push_back'):
                    return done(st._replace(sched=2), None)
            return done(st, None)
        if name.split('::')[-1] in SCHEDULE_REMOVERS and '::VecDeque::' in name and args and args[0]['k'] != 'const' \
                and 'VecDeque<alloc::sync::Arc<desync::JobQueue>>' in clean_ty(args[0].get('pl', {}).get('ty', '')):
            # entries of the queue at hand are taken off the schedule: whoever does that must claim the queue if it still needs a runner
            if record:
                self.events[('sched_remove', self._evn(fn), name.split('::')[-1])].add((st.S if st.S is not None else self.ALL, st.T))
            if st.T != 'H':
                return done(st._replace(rm=1), None)
            return done(st, None)
        if name.endswith('::VecDeque::pop_front') or name.endswith('::VecDeque::pop_back') or name.endswith('::VecDeque::clear'):
            e = fn.expr_of_operand(args[0])
            if self.is_queue_place_expr(e):
                if record:
                    self.events[('pop', self._evn(fn), name.split('::')[-1])].add((st.S if st.S is not None else self.ALL, st.T))
                return done(st._replace(len0='?'), None)
            return done(st, None)
        if name in ('core::option::Option::is_none', 'core::option::Option::is_some'):
            l = self._root_local(fn, args[0]['pl']) if args[0]['k'] != 'const' else None
            if l is not None and vget(st, l) is not None:
                names = frozenset(['None']) if name.endswith('is_none') else frozenset(['Some'])
                lv = vget(st, l)
                if lv[0] == 'enum':
                    return done(st, ('bool', int(lv[1] in names)))
            return done(st, None)
        if name.endswith('Scheduler::reschedule_queue') or name.endswith('SchedulerCore::reschedule_queue'):
            x = st._replace(resched=0, act=st.act | 1)
            wf = self.facts.fn(name)
            if name.endswith('Scheduler::reschedule_queue') and wf is not None and name in self.touch and self._writes_state(wf):
                # the thin wrapper has been given a part of the owner's exit sequence (it writes the state itself): analyse it as a callee
                # like any other function that takes part in the protocol; the reschedule it ends with is still accounted for
                st = x
            else:
                return done(x, None)
        if name.endswith(('Condvar::wait', 'Condvar::wait_while', 'Condvar::wait_timeout', 'Condvar::wait_timeout_while')) and st.resched == 2:
            if record:
                self.viol.append(('TOK-resched', fn.name, 'a job is appended while the queue may be Idle and the caller goes to sleep on its condition variable without the queue having been '
                                  '(re)scheduled or claimed: nobody is obliged to run it, so nobody will ever signal the caller', fn.loc(bb)))
            return done(st._replace(resched=0), None)
        if name.endswith('thread::Thread::unpark'):
            return done(st._replace(act=st.act | 2), None)
        if name.endswith('::schedule_thread'):
            x = st
            if st.sched == 2:
                x = st._replace(sched=0)
            return done(x, None)
        if name.endswith('JobQueue::requeue'):
            return done(st._replace(pend=0), None)
        if name in ('std::panicking::begin_panic', 'core::panicking::panic', 'core::panicking::panic_fmt'):
            if record:
                self.events[('panic', self._evn(fn), '')].add(st.pan)
                self.events[('panic_T', self._evn(fn), '')].add((st.T, st.P, bb in self._debug_only(fn) or 'assert' in (t['sp'].get('mac') or '')))
            return []

        # helpers working on the locked core: inlined
        callees, foreign = self.callees(fn, t)
        inl = [c for c in callees if c in getattr(self, 'inline_only', ())]
        if inl:
            if st.S is None or getattr(self, '_inline_depth', 0) >= 2:
                self.problems.append('%s is handed the queue core outside a critical section, or helpers nest too deeply (from %s)' % (short(inl[0]), short(fn.name)))
                return done(st, None)
            outs = []
            for c in inl:
                for (x, ret) in self._inline(self.facts.fn(c), st, record, caller=fn):
                    # the callee's locals are gone; keep the caller's
                    y = x._replace(V=st.V)
                    outs.extend(done(y, ret))
            return outs
        # in-crate callees with summaries
        callees = [c for c in callees if c in self.touch]
        if callees:
            outs = []
            for c in sorted(callees):
                crh = c in self.requires_held
                self._call_T[c].add(st.T)
                if record:
                    self.events[('call', self._evn(fn), c)].add((st.T, crh))
                    if crh:
                        self.events[('call_acq', self._evn(fn), c)].add(st.acq0)
                    if crh and st.T == 'H' and st.P is not None:
                        self._entryP_new[c] |= set(st.P)
                if crh and st.T != 'H':
                    if fn.name not in self.requires_held and st.T == 'N':
                        self.requires_held.add(fn.name)
                    if record and st.T == 'R':
                        self.viol.append(('TOK-exec', fn.name, 'calls %s (which runs jobs) after releasing the queue' % short(c), fn.loc(bb)))
                summ = self.summ.get(c)
                if summ is None:
                    continue
                if not summ:
                    continue  # callee has no normal exit (yet)
                seen = set()
                for (T2, P2, rv) in sorted(summ, key=repr):
                    x = self._apply_summary_T(st, T2, P2, crh)
                    if x.resched == 2 and T2 == 'N' and st.T == 'N':
                        # the callee looked at the queue after our job was appended and found it neither Idle nor ours to take: somebody
                        # has claimed it since (or it is on the schedule), and whoever that is runs what was appended before
                        seen_ = self.exit_pre.get(c, {}).get((T2, rv))
                        if seen_ is not None and 'Idle' not in seen_:
                            x = x._replace(resched=0)
                    for r in done(x, rv):
                        if r not in seen:
                            seen.add(r)
                            outs.append(r)
            if outs:
                return outs
            if tgt is None:
                return []
            # callees known but none has produced an exit yet (recursion bottom): no successor this round
            if all(self.summ.get(c) is not None and not self.summ.get(c) for c in callees):
                return []
        return done(st, None)

    def _const_qs(self, fn, st, o, e):
        if e[0] == 'agg' and e[1] == 'adt' and e[2].startswith(QS + '::'):
            return frozenset([e[2].split('::')[-1]])
        return None
