"""WP: waker provenance.  *Which* waker is used is as much part of the protocol as *when* it is used: every place where the crate polls
somebody (a queued job, an input stream, a future it owns) or leaves a waker in a slot for somebody else to fire must use a waker that
comes from its caller (the context it was polled with, a waker parameter) or one of the crate's own wakers (WakeQueue, WakeThread,
DrainWaker, DoubleWaker, PipeWaker).  A waker made from nothing (`noop_waker()`, a default) satisfies every ordering rule and wakes nobody.

Uses of a waker that are examined:
  ctx    the argument of `Context::from_waker`
  slot   a value stored into a field of type Option<Waker> (`Some(w)`)
  arg    a by-value `Waker` argument of any call made by the crate (closure parameters, wake_with, ...)
For the three places that run queued jobs the *kind* of the crate's waker is fixed as well (a pool thread wakes through WakeQueue, a
caller-side runner through WakeThread, a polling task through DrainWaker): the wrong one of these wakes the wrong party.
"""
from .facts import short, clean_ty, render
from .rule import ok, bad, undecided

R = 'WP'
WAKER_TY = 'core::task::wake::Waker'
PASS_THROUGH = ('core::clone::Clone::clone', 'core::task::wake::Context::waker', 'futures_task::waker_ref::waker_ref', 'futures_task::waker::waker',
                'alloc::sync::Arc::new', 'core::ops::deref::Deref::deref', 'core::option::Option::Some', 'core::borrow::Borrow::borrow',
                'core::convert::AsRef::as_ref', 'core::convert::Into::into', 'core::convert::From::from', 'core::option::Option::take',
                'core::option::Option::unwrap', 'core::option::Option::expect', 'core::mem::replace', 'core::mem::take',
                'futures_task::waker_ref::WakerRef::new', 'core::mem::manually_drop::ManuallyDrop::new')


def origin(e, depth=0):
    """-> set of origins: 'param' (comes from the caller / an enclosing scope / a stored slot), 'crate:<Type>' (one of the crate's wakers),
    'nothing:<fn>' (produced by a foreign function from no waker-bearing input), 'unknown'."""
    if depth > 30:
        return {'unknown'}
    k = e[0]
    if k in ('arg', 'upvar', 'var', 'self_closure', 'resume'):
        return {'param'}
    if k in ('field', 'downcast', 'index'):
        return origin(e[1], depth + 1)
    if k == 'agg':
        if e[1] == 'adt' and e[2].startswith('desync::'):
            return {'crate:' + e[2].split('::')[-1]} if len(e[2].split('::')) <= 2 else {'crate:' + e[2].split('::')[1]}
        out = set()
        for a in e[3]:
            out |= origin(a, depth + 1)
        return out or {'unknown'}
    if k == 'call':
        name, args = e[1], e[2]
        if name.startswith('desync::'):
            # a crate constructor (`WakeQueue(..)` as a function, `DrainWaker::new()`): the type it builds
            parts = name.split('::')
            return {'crate:' + parts[1]}
        if not args or all(a[0] in ('const', 'fn') for a in args):
            return {'nothing:' + name.split('::')[-1]}
        out = set()
        for a in args:
            out |= origin(a, depth + 1)
        out.discard('const')
        return out or {'nothing:' + name.split('::')[-1]}
    if k in ('const', 'fn'):
        return {'const'}
    if k in ('unop', 'binop', 'discr'):
        return {'unknown'}
    return {'unknown'}


def _strip(e):
    while e[0] == 'call' and e[2] and e[1].endswith(('::clone', '::deref', '::borrow', '::as_ref')):
        e = e[2][0]
    return e


def _split_top(s):
    out, depth, cur = [], 0, ''
    for ch in s:
        if ch in '<([':
            depth += 1
        elif ch in '>)]':
            depth -= 1
        if ch == ',' and depth == 0:
            out.append(cur)
            cur = ''
        else:
            cur += ch
    if cur.strip():
        out.append(cur)
    return out


def _bad_origin(o):
    o = set(o) - {'const'}
    nothing = [x for x in o if x.startswith('nothing:')]
    real = [x for x in o if x == 'param' or x.startswith('crate:')]
    if nothing and not real:
        return nothing[0][8:]
    return None


# who runs queued jobs, and the waker each of them must poll with
RUNNERS = {
    'desync::JobQueue::run_one_job_now': 'WakeThread',
    'desync::SchedulerFuture::drain_queue': 'DrainWaker',
    'desync::SchedulerCore::schedule_thread': 'WakeQueue',
}


KNOWN_WAKERS = ('WakeQueue', 'WakeThread', 'DrainWaker', 'DoubleWaker', 'PipeWaker')


def wp_forward(ctx):
    """A waker type that is not one of the five reviewed ones (each has its own rules) is a wrapper: whoever is polled with it
    relies on `wake` reaching the party it stands for.  Every path through its wake_by_ref must wake something (a Waker or one of
    the crate's wakers); a path that returns without doing so swallows the wake-up (coalescing on a flag, a 'not now' test)."""
    from .rules_locks import cg
    from .ordq import feasible_reach
    F = ctx.F
    g = cg(ctx)
    out = []
    for fn in F.crate_fns():
        if not fn.name.endswith('as futures_task::arc_wake::ArcWake>::wake_by_ref') or (fn.root and fn.root != fn.name):
            continue
        ty = short(fn.name).split(' as ')[0].lstrip('<').split('::')[-1]
        if ty in KNOWN_WAKERS:
            # a second type with a reviewed name (another module): the body must be the reviewed one's - decided by its own rules
            continue
        key = '%s|forwards-every-wake' % ty
        wakes = set(s_.bb for c in [fn] for s_ in g.sites.get(c.name, []) if s_.kind == 'wake')
        # wakes made inside closures run by Option::map / for_each count at the call
        for c in F.crate_fns():
            if c.root == fn.name and c.name != fn.name and any(s_.kind == 'wake' for s_ in g.sites.get(c.name, [])):
                for bb, t in fn.calls():
                    if any(c.name.split('::')[-1] in str(a.get('pl', {}).get('ty', '')) for a in t['args']):
                        wakes.add(bb)
        exits = set(fn.exits())
        if not wakes:
            out.append(bad(R, key, 'a waker type whose wake_by_ref wakes nothing', fn=fn.name))
        elif fn.must_pass(0, exits, wakes) or not feasible_reach(fn, 0, exits, wakes):
            out.append(ok(R, key, 'every path through wake_by_ref wakes the party the waker stands for', fn=fn.name))
        else:
            out.append(bad(R, key, 'wake_by_ref of the wrapper waker %s can return without waking anything (a wake-up that arrives while a flag says "not now" is swallowed; the source has spent its registration and will not call again)' % ty, fn=fn.name))
    return out


def wp(ctx):
    F = ctx.F
    out = wp_forward(ctx)
    n_ctx = n_slot = n_arg = 0
    for fn in F.crate_fns():
        fam = short(fn.root or fn.name)
        for bb, t in fn.calls():
            if fn.blocks[bb]['cleanup']:
                continue
            name = t['func'].get('fn') or ''
            if name == 'core::task::wake::Context::from_waker' and t['args']:
                n_ctx += 1
                e = fn.expr_of_operand(t['args'][0])
                o = origin(e)
                key = '%s|context-waker' % fam
                b = _bad_origin(o)
                want = None
                for rname, w in RUNNERS.items():
                    if (fn.root or fn.name) == rname:
                        want = w
                if b:
                    out.append(bad(R, key, 'a Context is built from a waker made out of nothing (`%s`): whatever is polled with it registers a waker that wakes nobody, and is never polled again' % b, loc=fn.loc(bb), fn=fn.name))
                elif want and ('crate:' + want) not in o:
                    out.append(bad(R, key, 'the jobs run here must be polled with a %s (it is the party that resumes this kind of runner); found %s' % (want, sorted(o)), loc=fn.loc(bb), fn=fn.name))
                else:
                    out.append(ok(R, key, 'context built from %s' % sorted(o), loc=fn.loc(bb), fn=fn.name))
                continue
            # closure calls pack their arguments into a tuple: look at the Waker element(s)
            if (t.get('trait') or '').startswith('core::ops::function::Fn') and len(t['args']) == 2 and t['args'][1]['k'] in ('move', 'copy'):
                tty = clean_ty(t['args'][1]['pl']['ty'])
                if tty.startswith('(') and WAKER_TY in tty:
                    elems = _split_top(tty[1:-1])
                    te = fn.expr_of_operand(t['args'][1])
                    if te[0] == 'agg' and len(te[3]) == len(elems):
                        for el_ty, el in zip(elems, te[3]):
                            if el_ty.strip() == WAKER_TY:
                                n_arg += 1
                                o = origin(el)
                                b = _bad_origin(o)
                                key = '%s|waker-argument|closure' % fam
                                if b:
                                    out.append(bad(R, key, 'the closure is called with a waker made out of nothing (`%s`): what it polls with that waker is never polled again' % b, loc=fn.loc(bb), fn=fn.name))
                                else:
                                    out.append(ok(R, key, 'waker argument from %s' % sorted(o), loc=fn.loc(bb), fn=fn.name))
            # by-value Waker arguments
            for ai, a in enumerate(t['args']):
                if a['k'] in ('move', 'copy') and clean_ty(a['pl']['ty']) == WAKER_TY and not name.endswith(('Waker::wake', 'core::mem::drop', 'Option::Some')) and name not in PASS_THROUGH:
                    n_arg += 1
                    o = origin(fn.expr_of_operand(a))
                    b = _bad_origin(o)
                    key = '%s|waker-argument|%s' % (fam, name.split('::')[-1] if name else 'closure')
                    if b:
                        out.append(bad(R, key, 'a waker made out of nothing (`%s`) is handed on: the receiver keeps it to be woken later and never is' % b, loc=fn.loc(bb), fn=fn.name))
                    else:
                        out.append(ok(R, key, 'waker argument from %s' % sorted(o), loc=fn.loc(bb), fn=fn.name))
        # stores into Option<Waker> slots
        for bb, b_ in enumerate(fn.blocks):
            if b_['cleanup']:
                continue
            for i, s_ in enumerate(b_['stmts']):
                if s_['k'] != 'assign' or not s_['pl']['p']:
                    continue
                ty = clean_ty(s_['pl'].get('ty') or '')
                if ty != 'core::option::Option<%s>' % WAKER_TY:
                    continue
                ev = fn.expr_of_rvalue(s_['rv'])
                if ev[0] == 'agg' and ev[2].endswith('Option::None'):
                    continue
                n_slot += 1
                o = origin(ev)
                b = _bad_origin(o)
                slot = render(fn.expr_of_place(s_['pl'])).split('.')[-1]
                key = '%s|slot %s' % (fam, slot)
                if b:
                    out.append(bad(R, key, 'the waker left in `%s` is made out of nothing (`%s`): whoever fires this slot wakes nobody' % (slot, b), loc=fn.loc(bb, i), fn=fn.name))
                else:
                    out.append(ok(R, key, 'slot receives a waker from %s' % sorted(o), loc=fn.loc(bb, i), fn=fn.name))
    # the crate's own wakers point at the right party: a WakeQueue / WakeThread names the queue that the same body takes jobs from, and a
    # WakeThread names the thread that is about to park - `thread::current()` evaluated there, not a handle remembered from elsewhere
    n_w = 0
    for fn in F.crate_fns():
        recv = set()
        for bb, t in fn.calls():
            nm = t['func'].get('fn') or ''
            if not fn.blocks[bb]['cleanup'] and nm.endswith(('JobQueue::drain', 'JobQueue::dequeue', 'JobQueue::requeue', 'JobQueue::run_one_job_now')) and t['args']:
                recv.add(render(_strip(fn.expr_of_operand(t['args'][0]))))
        for bb, b_ in enumerate(fn.blocks):
            if b_['cleanup']:
                continue
            for i, s_ in enumerate(b_['stmts']):
                if s_['k'] == 'assign' and s_['rv']['k'] == 'agg' and s_['rv'].get('adt') in ('desync::WakeThread', 'desync::WakeQueue'):
                    e = fn.expr_of_rvalue(s_['rv'])
                    kind = s_['rv']['adt'].split('::')[-1]
                    n_w += 1
                    q = render(_strip(e[3][0])) if e[3] else '?'
                    key = '%s|%s-target' % (short(fn.root or fn.name), kind)
                    probs = []
                    if recv and q not in recv:
                        probs.append('the %s is built for `%s` while the jobs run here come from `%s`: a wake-up resumes another queue' % (kind, q, sorted(recv)[0]))
                    if kind == 'WakeThread':
                        th = _strip(e[3][1]) if len(e[3]) > 1 else ('?',)
                        if not (th[0] == 'call' and th[1].endswith('thread::current') or (th[0] == 'call' and th[1].endswith('::current') and 'thread' in th[1])):
                            probs.append('the thread to unpark is `%s`, not `thread::current()` of the thread that is about to park: the parked thread is never unparked' % render(th)[:50])
                    if probs:
                        out.append(bad(R, key, '; '.join(probs), loc=fn.loc(bb, i), fn=fn.name))
                    else:
                        out.append(ok(R, key, '%s built for the queue whose jobs are run here%s' % (kind, ' and for the current thread' if kind == 'WakeThread' else ''), loc=fn.loc(bb, i), fn=fn.name))
    if n_w < 3:
        out.append(undecided(R, 'floor:crate-wakers', 'found %d constructions of WakeQueue / WakeThread, expected at least 3' % n_w))
    # several uses of one kind in one function: number them so that every instance keeps its own verdict
    seen = {}
    for inst in out:
        n = seen.get(inst.key, 0) + 1
        seen[inst.key] = n
        if n > 1:
            inst.key = '%s#%d' % (inst.key, n)
    if n_ctx < 5:
        out.append(undecided(R, 'floor:contexts', 'found %d Context::from_waker sites, expected at least 5' % n_ctx))
    if n_slot < 6:
        out.append(undecided(R, 'floor:slots', 'found %d stores into Option<Waker> slots, expected at least 6' % n_slot))
    return out
