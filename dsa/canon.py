"""Canonical item names: module paths of the crate are dropped (`desync::scheduler::core::SchedulerCore` -> `desync::SchedulerCore`)
and methods of in-crate traits are named like inherent methods (`<desync::Job as desync::ScheduledJob>::run` -> `desync::Job::run`),
so that moving an item to another module, or turning an inherent method into a private trait method, does not change any anchor."""
import json
import re


def canonicalize(j):
    mods = [m for m in j.get('modules', []) if not m.endswith('::test') and '::test::' not in m]
    crate = j.get('crate', 'desync')
    txt = json.dumps(j)
    if mods:
        mods.sort(key=len, reverse=True)
        pat = re.compile(r'(?<![A-Za-z0-9_])(?<!::)(?:' + '|'.join(re.escape(m) for m in mods) + r')::')
        txt = pat.sub(crate + '::', txt)
    # in-crate trait methods -> inherent style (self type printed without generic arguments by the driver)
    txt = re.sub(r'<(%s::[A-Za-z0-9_]+) as %s::[A-Za-z0-9_]+>::' % (re.escape(crate), re.escape(crate)), r'\1::', txt)
    j2 = json.loads(txt)
    # a statically resolved call of an in-crate trait method names its implementation (as if it were an inherent method)
    names = set(f['name'] for f in j2['fns'])
    for f in j2['fns']:
        for b in f['blocks']:
            t = b.get('term')
            if t and t['k'] == 'call' and t.get('resolved_local') and t.get('rk') == 'item' and (t.get('trait') or '').startswith(crate + '::') \
                    and t.get('resolved') in names and t['func'].get('fn') != t['resolved']:
                t['func']['trait_fn'] = t['func'].get('fn')
                t['func']['fn'] = t['resolved']
    return j2
