#!/bin/bash
# whole detection matrix in N parallel shards: tools/run_matrix.sh [N] -> /var/tmp/dsa-matrix.log
N=${1:-8}
cd "$(dirname "$0")/.."
rm -f /var/tmp/dsa-matrix.*.log
for i in $(seq 0 $((N-1))); do python3 tools/run_mutants.py --shard $i/$N > /var/tmp/dsa-matrix.$i.log 2>&1 & done
wait
cat /var/tmp/dsa-matrix.*.log | grep -v WARNING > /var/tmp/dsa-matrix.log
echo "entries: $(grep -c . /var/tmp/dsa-matrix.log)  not ok: $(grep -c 'MISSED\|FALSE ALARM\|skipped\|error' /var/tmp/dsa-matrix.log)"
grep 'MISSED\|FALSE ALARM\|skipped\|error\|expected:' /var/tmp/dsa-matrix.log
