#!/bin/sh
# Builds the fact-extraction driver (offline, nightly toolchain) and warms the dependency cache.
set -e
cd "$(dirname "$0")"
export CARGO_NET_OFFLINE=true
(cd driver && cargo build --offline 2>&1 | tail -3)
test -x driver/target/debug/dsa-driver
# warm the three configurations' dependency builds (the member crate is re-checked on every run)
python3 -m dsa.extract dev /repo .cache/facts-dev.json >/dev/null
python3 -m dsa.extract release /repo .cache/facts-release.json >/dev/null
python3 -m dsa.extract test /repo .cache/facts-test.json >/dev/null
echo "setup ok"
