"""Pretty printer for the fact base (debugging / --explain)."""
import json, sys

def op(o):
    k = o['k']
    if k in ('copy', 'move'):
        return ('move ' if k == 'move' else '') + o['pl']['t']
    if k == 'const':
        if 'fn' in o: return 'fn ' + o['fn']
        if 'val' in o: return 'const %s:%s' % (o['val'], o['ty'])
        return 'const ' + o.get('txt', '?')
    return k

def rv(r):
    k = r['k']
    if k == 'use': return op(r['op'])
    if k == 'ref': return '&%s %s' % (r['m'], r['pl']['t'])
    if k == 'rawptr': return '&raw %s' % r['pl']['t']
    if k == 'cast': return '%s as %s (%s)' % (op(r['op']), r['ty'], r['ck'])
    if k == 'binop': return '%s(%s, %s)' % (r['op'], op(r['a']), op(r['b']))
    if k == 'unop': return '%s(%s)' % (r['op'], op(r['a']))
    if k == 'discr': return 'discriminant(%s)' % r['pl']['t']
    if k == 'agg':
        ak = r['ak']
        ops = ', '.join(op(x) for x in r['ops'])
        if ak == 'adt': return '%s::%s{%s}' % (r['adt'], r['variant'], ops)
        if ak in ('closure', 'coroutine'): return '[%s %s](%s)' % (ak, r['def'], ops)
        return '%s(%s)' % (ak, ops)
    return k

def term(t):
    k = t['k']
    if k == 'call':
        f = t['func']
        name = f.get('fn') or op(f)
        extra = ''
        if t.get('resolved') and t['resolved'] != name: extra = ' [=> %s]' % t['resolved']
        if t.get('rk') == 'virtual': extra += ' [virtual]'
        return '%s = %s(%s)%s -> bb%s unwind %s' % (t['dest']['t'], name, ', '.join(op(a) for a in t['args']), extra, t['target'], t['unwind'])
    if k == 'switch':
        return 'switch(%s) [%s, otherwise: bb%s]' % (op(t['discr']), ', '.join('%s: bb%s' % (v, b) for v, b in t['targets']), t['otherwise'])
    if k == 'drop': return 'drop(%s) -> bb%s unwind %s' % (t['pl']['t'], t['target'], t['unwind'])
    if k == 'yield': return 'yield(%s) -> bb%s drop bb%s' % (op(t['value']), t['target'], t['drop'])
    if k == 'assert': return 'assert(%s == %s) -> bb%s' % (op(t['cond']), t['expected'], t['target'])
    if k in ('goto',): return 'goto bb%s' % t['target']
    if k == 'falseedge': return 'falseedge bb%s (imaginary bb%s)' % (t['target'], t['imaginary'])
    if k == 'falseunwind': return 'falseunwind bb%s unwind %s' % (t['target'], t['unwind'])
    return k

def pp(fn, out=sys.stdout):
    out.write('fn %s  [%s]  %s:%s\n' % (fn['name'], fn['kind'], fn['span']['file'], fn['span']['line']))
    for i, l in enumerate(fn['locals']):
        out.write('  let _%d: %s%s\n' % (i, l['ty'], '  // ' + l['name'] if 'name' in l else ''))
    for i, b in enumerate(fn['blocks']):
        out.write(' bb%d%s:\n' % (i, ' (cleanup)' if b['cleanup'] else ''))
        for s in b['stmts']:
            if s['k'] == 'assign':
                out.write('    %s = %s   // L%s\n' % (s['pl']['t'], rv(s['rv']), s['sp']['line']))
            elif s['k'] in ('live', 'dead'):
                pass
            elif s['k'] in ('fakeread', 'mention'):
                out.write('    %s(%s)\n' % (s['k'], s['pl']['t']))
            else:
                out.write('    %s\n' % s['k'])
        t = b['term']
        if t: out.write('    %s   // L%s\n' % (term(t), t['sp']['line']))

if __name__ == '__main__':
    f = json.load(open(sys.argv[1]))
    pat = sys.argv[2]
    for fn in f['fns']:
        if pat in fn['name']:
            if len(sys.argv) > 3 and fn['name'] != sys.argv[2]: continue
            pp(fn)
            print()
