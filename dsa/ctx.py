"""Analysis context: one fact base + lazily computed shared analyses."""
from .facts import Facts
from .locks import Held
from .proto import Proto


class Ctx:
    def __init__(self, facts_json, info=None):
        self.F = Facts(facts_json)
        self.info = info or {}
        self._proto = None
        self._held = {}
        self._cg = None

    @property
    def proto(self):
        if self._proto is None:
            self._proto = Proto(self.F).run()
        return self._proto

    def held(self, fn):
        if fn.name not in self._held:
            self._held[fn.name] = Held(fn)
        return self._held[fn.name]

    def stats(self):
        fns = self.F.crate_fns()
        calls = sum(1 for f in fns for _ in f.calls())
        yields = sum(1 for f in fns for b in f.blocks if b['term'] and b['term']['k'] == 'yield')
        return {'bodies_analysed': len(fns), 'bodies_total': len(self.F.all_fns), 'call_sites': calls, 'yield_points': yields,
                'adts': len(self.F.adts), 'impls': len(self.F.impls)}
