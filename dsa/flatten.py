"""Helper inlining ("flattening").

The rules are written against the protocol's named functions (the bodies that exist on the pinned tree: dsa/known_fns.txt).
A function that is *not* in that table is a new helper (an extracted block, a getter, a predicate on the state ...): it is made
transparent by inlining its built MIR at every in-crate call site (bounded depth), so that a behaviour-preserving
"extract function" refactoring does not change any verdict, and a defect hidden inside a new helper is still seen in the
context of its caller.  Closures are never inlined (they are separate bodies reached through the call graph).
"""
import copy
import os

HERE = os.path.dirname(os.path.abspath(__file__))
MAX_DEPTH = 4
MAX_BLOCKS = 6000


def known_fns():
    p = os.path.join(HERE, 'known_fns.txt')
    if not os.path.exists(p):
        return None
    with open(p) as f:
        return set(l.rstrip('\n') for l in f if l.strip())


def _is_macro_fn(f):
    file = f['span']['file']
    return 'lazy_static' in file or file.startswith('/root/.cargo')


def _map_place(pl, off):
    pl = dict(pl)
    pl['l'] = pl['l'] + off
    newp = []
    for p in pl['p']:
        if p['k'] == 'index':
            p = dict(p)
            p['l'] = p['l'] + off
        newp.append(p)
    pl['p'] = newp
    # textual form: renumber locals
    pl['t'] = _renum(pl.get('t', ''), off)
    return pl


def _renum(txt, off):
    import re
    return re.sub(r'_(\d+)', lambda m: '_%d' % (int(m.group(1)) + off), txt)


def _map_operand(o, off):
    if o['k'] in ('copy', 'move'):
        o = dict(o)
        o['pl'] = _map_place(o['pl'], off)
    return o


def _map_rvalue(rv, off):
    rv = dict(rv)
    for k in ('pl',):
        if k in rv:
            rv[k] = _map_place(rv[k], off)
    for k in ('op', 'a', 'b'):
        if k in rv and isinstance(rv[k], dict):
            rv[k] = _map_operand(rv[k], off)
    if 'ops' in rv:
        rv['ops'] = [_map_operand(o, off) for o in rv['ops']]
    return rv


def _subst_ty(s, tymap):
    if not tymap or not isinstance(s, str):
        return s
    # whole-word replacement of generic parameter names
    import re
    for k, v in tymap.items():
        s = re.sub(r'(?<![A-Za-z0-9_:])%s(?![A-Za-z0-9_])' % re.escape(k), v.replace('\\', '\\\\'), s)
    return s


def _inline_into(host, bb_index, callee, tymap):
    """Replaces the call terminator of host block bb_index by the body of callee. Mutates host (a dict)."""
    t = host['blocks'][bb_index]['term']
    loc_off = len(host['locals'])
    bb_off = len(host['blocks'])
    for l in callee['locals']:
        nl = dict(l)
        nl['ty'] = _subst_ty(nl['ty'], tymap)
        nl.pop('name', None) if False else None
        nl['inl'] = callee['name']
        host['locals'].append(nl)
    cont = t['target']
    unwind = t.get('unwind')
    dest = t['dest']
    # argument passing
    pre = []
    for i, a in enumerate(t['args']):
        al = 1 + i + loc_off
        pre.append({'k': 'assign', 'pl': {'l': al, 'p': [], 't': '_%d' % al, 'ty': host['locals'][al]['ty']}, 'rv': {'k': 'use', 'op': a}, 'sp': t['sp']})
    host['blocks'][bb_index]['stmts'] = host['blocks'][bb_index]['stmts'] + pre
    host['blocks'][bb_index]['term'] = {'k': 'goto', 'target': bb_off, 'sp': t['sp'], 'inlined_call': callee['name']}
    host_cleanup = host['blocks'][bb_index]['cleanup']

    def map_unwind(u):
        if isinstance(u, int):
            return u + bb_off
        if u == 'continue':
            return unwind if unwind is not None else 'continue'
        return u

    for cb in callee['blocks']:
        nb = {'cleanup': cb['cleanup'] or host_cleanup, 'stmts': [], 'term': None, 'inl': callee['name']}
        for s in cb['stmts']:
            s = dict(s)
            k = s['k']
            if k == 'assign':
                s['pl'] = _map_place(s['pl'], loc_off)
                s['rv'] = _map_rvalue(s['rv'], loc_off)
                if 'ty' in s['rv']:
                    s['rv']['ty'] = _subst_ty(s['rv']['ty'], tymap)
            elif k in ('dead', 'live'):
                s['l'] = s['l'] + loc_off
            elif k in ('fakeread', 'mention', 'setdiscr'):
                s['pl'] = _map_place(s['pl'], loc_off)
            nb['stmts'].append(s)
        ct = cb['term']
        if ct is not None:
            ct = dict(ct)
            k = ct['k']
            if k in ('goto', 'falseedge', 'falseunwind', 'drop', 'assert', 'yield'):
                ct['target'] = ct['target'] + bb_off
            if k == 'falseedge':
                ct['imaginary'] = ct['imaginary'] + bb_off
            if k == 'yield':
                if isinstance(ct.get('drop'), int):
                    ct['drop'] = ct['drop'] + bb_off
                if isinstance(ct.get('resume_arg'), dict):
                    ct['resume_arg'] = _map_place(ct['resume_arg'], loc_off)
                if isinstance(ct.get('value'), dict):
                    ct['value'] = _map_operand(ct['value'], loc_off)
            if k == 'switch':
                ct['discr'] = _map_operand(ct['discr'], loc_off)
                ct['targets'] = [[v, b + bb_off] for v, b in ct['targets']]
                ct['otherwise'] = ct['otherwise'] + bb_off
            if k == 'drop':
                ct['pl'] = _map_place(ct['pl'], loc_off)
            if k == 'assert':
                ct['cond'] = _map_operand(ct['cond'], loc_off)
            if k == 'call':
                ct['func'] = _map_operand(ct['func'], loc_off) if ct['func']['k'] != 'const' else dict(ct['func'])
                if 'fnargs' in ct['func']:
                    ct['func']['fnargs'] = [_subst_ty(x, tymap) for x in ct['func']['fnargs']]
                ct['args'] = [_map_operand(a, loc_off) for a in ct['args']]
                ct['dest'] = _map_place(ct['dest'], loc_off)
                if ct['target'] is not None:
                    ct['target'] = ct['target'] + bb_off
                if 'self_ty' in ct:
                    ct['self_ty'] = _subst_ty(ct['self_ty'], tymap)
            if 'unwind' in ct:
                ct['unwind'] = map_unwind(ct['unwind'])
            if k == 'return':
                # hand the result to the call's destination and continue in the host
                nb['stmts'].append({'k': 'assign', 'pl': dest, 'rv': {'k': 'use', 'op': {'k': 'move', 'pl': {'l': loc_off, 'p': [], 't': '_%d' % loc_off, 'ty': host['locals'][loc_off]['ty']}}}, 'sp': ct['sp']})
                if cont is None:
                    ct = {'k': 'unreachable', 'sp': ct['sp']}
                else:
                    ct = {'k': 'goto', 'target': cont, 'sp': ct['sp'], 'inlined_return': callee['name']}
            if k == 'resume':
                if isinstance(unwind, int):
                    ct = {'k': 'goto', 'target': unwind, 'sp': ct['sp']}
        nb['term'] = ct
        host['blocks'].append(nb)


def _is_local_closure(host, t, host_name):
    """A direct call of a closure that this very function defines (`let done = || ..; while !done() { .. }`): reading it inline is reading
    the loop it abbreviates.  Closures that arrive as arguments or escape into other values are left alone."""
    cname = str(t.get('self_ty', ''))[len('{closure:'):-1]
    if not cname.startswith(host_name + '::{closure#') or cname.count('::{closure#') != host_name.count('::{closure#') + 1:
        return False
    return True


def _adapt_closure_call(host, t, closure):
    """Rewrites `Fn*::call*(f, (a, b, ..))` into a plain call `closure(f, a, b, ..)` when the way the closure value is passed matches what
    its body expects (by reference for call / call_mut, by value for call_once).  Returns the new terminator or None."""
    if closure is None or closure.get('coroutine') or len(t['args']) != 2 or t['args'][0]['k'] not in ('copy', 'move'):
        return None
    method = t.get('method') or (t['func'].get('fn') or '').split('::')[-1]
    env_ty = closure['locals'][1]['ty'].strip() if len(closure['locals']) > 1 else ''
    passed = t['args'][0]['pl']['ty'].strip()
    import re as _re
    if _re.match(r'^[A-Za-z_][A-Za-z0-9_]*$', passed) and str(t.get('self_ty', '')).startswith('{closure:'):
        # the argument is still printed as the helper's type parameter (`TFn`); the call's self type says which closure it is
        passed = str(t['self_ty']).strip()
    want = {'call': '&', 'call_mut': '&mut ', 'call_once': '{'}.get(method)
    if want is None or not env_ty.startswith(want) or not passed.startswith(want) or (method == 'call' and env_ty.startswith('&mut ')):
        return None
    n = closure['arg_count'] - 1
    args = [t['args'][0]]
    tup = t['args'][1]
    if n > 0:
        if tup['k'] not in ('copy', 'move') or tup['pl']['p']:
            return None
        for i in range(n):
            ty = closure['locals'][2 + i]['ty']
            args.append({'k': 'move', 'pl': {'l': tup['pl']['l'], 'p': [{'k': 'field', 'i': i, 'n': str(i), 'bty': tup['pl']['ty'], 'ty': ty}], 't': '(_%d.%d)' % (tup['pl']['l'], i), 'ty': ty}})
    nt = dict(t)
    nt['args'] = args
    nt['closure_call'] = closure['name']
    return nt


def _visit_places(x, fn_):
    if isinstance(x, dict):
        if 'l' in x and isinstance(x.get('p'), list):
            fn_(x)
        for v in x.values():
            _visit_places(v, fn_)
    elif isinstance(x, list):
        for e in x:
            _visit_places(e, fn_)


def _await_of(host, call_bb):
    """The await that consumes the value returned by the call ending block call_bb: -> (poll block, its destination place) or None.
    Shape (rustc's desugaring): d = f(..); e = IntoFuture::into_future(move d); x = move e; loop { p = Pin::new_unchecked(&mut x);
    c = get_context(resume); r = Future::poll(p, c); match r { Ready(v) => break v, Pending => yield } }"""
    t = host['blocks'][call_bb]['term']
    if t.get('target') is None or t['dest']['p']:
        return None
    holders = {t['dest']['l']}
    bb = t['target']
    seen_into = False
    for _ in range(10):
        b = host['blocks'][bb]
        for s_ in b['stmts']:
            if s_['k'] == 'assign' and not s_['pl']['p']:
                rv = s_['rv']
                if rv['k'] == 'use' and rv['op']['k'] in ('move', 'copy') and not rv['op']['pl']['p'] and rv['op']['pl']['l'] in holders:
                    holders.add(s_['pl']['l'])
                elif rv['k'] == 'ref' and rv['pl']['l'] in holders:
                    holders.add(s_['pl']['l'])
        tt = b['term']
        if tt is None or b['cleanup']:
            return None
        if tt['k'] == 'call':
            name = tt['func'].get('fn') or ''
            a0 = tt['args'][0] if tt['args'] else None
            uses = a0 is not None and a0['k'] in ('move', 'copy') and a0['pl']['l'] in holders
            if name.endswith('IntoFuture::into_future') and uses:
                seen_into = True
                holders.add(tt['dest']['l'])
            elif name.endswith('Pin::new_unchecked') and uses:
                holders.add(tt['dest']['l'])
            elif name.endswith('future::get_context'):
                pass
            elif name == 'core::future::future::Future::poll' and uses and seen_into and not tt['dest']['p'] and tt['target'] is not None:
                return bb, tt
            else:
                return None
            bb = tt['target']
        elif tt['k'] in ('goto', 'falseunwind', 'falseedge'):
            bb = tt['target']
        else:
            return None
        if bb is None:
            return None
    return None


def _splice_await(host, call_bb, ctor, cor, tymap):
    """`helper(args).await` where `helper` is a new async fn: its body (the coroutine `cor`) is spliced into the awaiting coroutine in place
    of the poll loop, so that a poll coroutine split over async helper functions reads like the single body it was.  The awaited body's
    own awaits stay awaits (its yields are kept).  Returns True when done."""
    aw = _await_of(host, call_bb)
    if aw is None:
        return False
    poll_bb, poll_t = aw
    t = host['blocks'][call_bb]['term']
    # the constructor returns `Coroutine { upvars: params.. }`: which call argument feeds which captured variable
    agg = None
    for b_ in ctor['blocks']:
        for s_ in b_['stmts']:
            if s_['k'] == 'assign' and s_['rv']['k'] == 'agg' and s_['rv'].get('ak') == 'coroutine' and s_['rv'].get('def') == cor['name'] and not s_['pl']['p'] and s_['pl']['l'] == 0:
                agg = s_['rv']
    # the constructor does nothing else (built MIR keeps no-op drops of the parameters that were moved into the coroutine)
    if agg is None or any(b_['term'] is None or b_['term']['k'] not in ('return', 'drop', 'goto') for b_ in ctor['blocks'] if not b_['cleanup']):
        return False
    if sum(1 for b_ in ctor['blocks'] if not b_['cleanup'] for s_ in b_['stmts'] if s_['k'] == 'assign') != 1:
        return False
    feeds = []
    for o in agg.get('ops', []):
        if o['k'] not in ('copy', 'move') or o['pl']['p'] or not (1 <= o['pl']['l'] <= len(t['args'])):
            return False
        feeds.append(t['args'][o['pl']['l'] - 1])
    body = copy.deepcopy(cor)
    base = len(body['locals'])
    ups = body.get('upvars') or []
    if len(ups) != len(feeds):
        return False
    for u in ups:
        body['locals'].append({'ty': u['ty'], 'name': u.get('name')})

    def rewrite(pl):
        if pl['l'] == 1 and pl['p'] and pl['p'][0]['k'] == 'field' and isinstance(pl['p'][0].get('i'), int) and pl['p'][0]['i'] < len(ups):
            pl['l'] = base + pl['p'][0]['i']
            pl['p'] = pl['p'][1:]
            pl['t'] = '_%d%s' % (pl['l'], ''.join('.?' for _ in pl['p']))
    _visit_places(body['blocks'], rewrite)
    loc_off = len(host['locals'])
    sp = t['sp']
    # a landing block: the awaited value becomes Poll::Ready(value) in the place the poll wrote, and control continues at the test of it
    ret_ty = body['locals'][0]['ty']
    tmp = {'ty': ret_ty}
    host['locals'].append(tmp)
    tmp_l = loc_off
    loc_off += 1
    land = len(host['blocks'])
    pd = poll_t['dest']
    # continue on the Ready edge of the test of the poll result (the Pending edge leads back into the poll loop, which is gone)
    after_poll = poll_t['target']
    swb = host['blocks'][after_poll]
    if swb['term'] and swb['term']['k'] == 'switch' and any(s_['k'] == 'assign' and s_['rv']['k'] == 'discr' and s_['rv']['pl']['l'] == pd['l'] and not s_['rv']['pl']['p'] for s_ in swb['stmts']):
        ready_ = [tb for v_, tb in swb['term']['targets'] if v_ == '0']
        if ready_:
            after_poll = ready_[0]
        elif all(v_ != '0' for v_, tb in swb['term']['targets']):
            after_poll = swb['term']['otherwise']
    host['blocks'].append({'cleanup': False, 'stmts': [
        {'k': 'assign', 'pl': pd, 'rv': {'k': 'agg', 'ak': 'adt', 'adt': 'core::task::poll::Poll', 'variant': 'Ready', 'vi': 0, 'fields': [], 'args': [],
                                         'ops': [{'k': 'move', 'pl': {'l': tmp_l, 'p': [], 't': '_%d' % tmp_l, 'ty': ret_ty}}]}, 'sp': sp}],
        'term': {'k': 'goto', 'target': after_poll, 'sp': sp}, 'inl': cor['name']})
    # argument passing: captured variables and the resume argument (the awaiting coroutine's own)
    pre = []
    for i_, a in enumerate(feeds):
        al = base + i_ + loc_off
        pre.append({'k': 'assign', 'pl': {'l': al, 'p': [], 't': '_%d' % al, 'ty': ups[i_]['ty']}, 'rv': {'k': 'use', 'op': a}, 'sp': sp})
    if len(host['locals']) > 2 and len(body['locals']) > 2:
        pre.append({'k': 'assign', 'pl': {'l': 2 + loc_off, 'p': [], 't': '_%d' % (2 + loc_off), 'ty': body['locals'][2]['ty']},
                    'rv': {'k': 'use', 'op': {'k': 'copy', 'pl': {'l': 2, 'p': [], 't': '_2', 'ty': host['locals'][2]['ty']}}}, 'sp': sp})
    nt = dict(t)
    nt['args'] = []
    nt['dest'] = {'l': tmp_l, 'p': [], 't': '_%d' % tmp_l, 'ty': ret_ty}
    nt['target'] = land
    host['blocks'][call_bb]['term'] = nt
    host['blocks'][call_bb]['stmts'] = host['blocks'][call_bb]['stmts'] + pre
    assert len(host['locals']) == loc_off
    _inline_into(host, call_bb, body, tymap)
    host['blocks'][call_bb]['term']['spliced_await'] = cor['name']
    # what was the poll loop is dead now: neutralise it (rules count polls, awaits and yields)
    live, work = set(), [0]
    while work:
        bi = work.pop()
        if bi in live or not isinstance(bi, int) or bi >= len(host['blocks']):
            continue
        live.add(bi)
        tt = host['blocks'][bi]['term']
        if not tt:
            continue
        for k_ in ('target', 'unwind', 'otherwise', 'drop'):
            if isinstance(tt.get(k_), int):
                work.append(tt[k_])
        for v_, tb in tt.get('targets', []) or []:
            work.append(tb)
    for bi, b_ in enumerate(host['blocks']):
        if bi not in live and b_['term'] is not None and b_['term']['k'] != 'unreachable':
            b_['stmts'] = []
            b_['term'] = {'k': 'unreachable', 'sp': b_['term']['sp'], 'dead_after_splice': True}
    return True


def _tail_self_calls_to_loops(f):
    """A helper that ends by calling itself (`park(); return self.park_until_awoken()`) is the loop it replaced: the tail call becomes an
    assignment of the arguments to the parameters and a jump to the entry.  Only for calls whose result is returned as it is, through a
    chain of gotos that does nothing but end storage; anything else is left alone (and the recursion is then not followed)."""
    name = f['name']
    nargs = f['arg_count']
    done_any = False
    for bi, b in enumerate(f['blocks']):
        t = b['term']
        if not t or t['k'] != 'call' or b['cleanup'] or t['func'].get('fn') != name or t.get('rk') == 'virtual' or t['target'] is None:
            continue
        if len(t['args']) != nargs or t['dest']['p']:
            continue
        # the result goes straight to the return place
        cur, ok_, d = t['target'], True, t['dest']['l']
        for _ in range(12):
            cb = f['blocks'][cur]
            for s_ in cb['stmts']:
                if s_['k'] in ('dead', 'live'):
                    continue
                if s_['k'] == 'assign' and not s_['pl']['p'] and s_['pl']['l'] == 0 and s_['rv']['k'] == 'use' and s_['rv']['op']['k'] in ('move', 'copy') \
                        and not s_['rv']['op']['pl']['p'] and s_['rv']['op']['pl']['l'] == d:
                    d = 0
                    continue
                ok_ = False
            ct = cb['term']
            if not ok_ or ct is None:
                ok_ = False
                break
            if ct['k'] == 'return':
                break
            if ct['k'] != 'goto':
                ok_ = False
                break
            cur = ct['target']
        else:
            ok_ = False
        if not ok_ or d != 0:
            continue
        # arguments: a parameter may only be passed in its own position
        clash = False
        for i, a in enumerate(t['args']):
            if a['k'] in ('copy', 'move') and 1 <= a['pl']['l'] <= nargs and a['pl']['l'] != i + 1:
                clash = True
        if clash:
            continue
        pre = []
        for i, a in enumerate(t['args']):
            if a['k'] in ('copy', 'move') and not a['pl']['p'] and a['pl']['l'] == i + 1:
                continue
            pre.append({'k': 'assign', 'pl': {'l': i + 1, 'p': [], 't': '_%d' % (i + 1), 'ty': f['locals'][i + 1]['ty']}, 'rv': {'k': 'use', 'op': a}, 'sp': t['sp']})
        b['stmts'] = b['stmts'] + pre
        b['term'] = {'k': 'goto', 'target': 0, 'sp': t['sp'], 'tail_self_call': name}
        done_any = True
    return done_any


def flatten(j):
    """Returns the fact dict with new helper functions inlined at their in-crate call sites; marks them `helper`."""
    known = known_fns()
    if known is None:
        return j, []
    fns = {}
    for f in j['fns']:
        fns.setdefault(f['name'], f)
    helpers = set()
    for name, f in fns.items():
        if name in known or f['kind'] == 'Closure' or _is_macro_fn(f) or '::test::' in name:
            continue
        # derived std traits on new types (PartialEq, Clone, Debug, ...) stay ordinary calls: the rules model them as such
        if name.startswith('<') and any((' as core::%s::' % m) in name for m in ('cmp', 'clone', 'fmt', 'hash', 'default', 'marker')):
            continue
        helpers.add(name)
    if not helpers:
        return j, []
    done = {}
    spliced = set()
    closure_inlined = set()

    def flat(name, depth, stack):
        """Flattened copy of function `name`."""
        if name in done:
            return done[name]
        f = copy.deepcopy(fns[name])
        if name in helpers:
            _tail_self_calls_to_loops(f)
        changed = True
        rounds = 0
        while changed and rounds < 50 and len(f['blocks']) < MAX_BLOCKS:
            changed = False
            rounds += 1
            for bi, b in enumerate(f['blocks']):
                t = b['term']
                if not t or t['k'] != 'call':
                    continue
                callee = None
                if t.get('resolved_local') and t.get('rk') in ('item',) and t.get('resolved') in helpers:
                    callee = t['resolved']
                elif t['func'].get('fn') in helpers and t.get('rk') != 'virtual':
                    callee = t['func']['fn']
                elif (t.get('trait') or '').startswith('core::ops::function::Fn') and str(t.get('self_ty', '')).startswith('{closure:') \
                        and (b.get('inl') or _is_local_closure(f, t, name)):
                    # inside an inlined helper, a call of its closure parameter is now a call of a known closure: inline that too, so that
                    # `helper(|| test())` reads like the loop it replaced
                    cname = t['self_ty'][len('{closure:'):-1]
                    adapted = _adapt_closure_call(f, t, fns.get(cname))
                    if adapted is not None and cname not in stack and depth < MAX_DEPTH:
                        t = adapted
                        b['term'] = t
                        callee = cname
                        if b.get('inl'):
                            closure_inlined.add(cname)
                if callee is None or callee in stack or callee == name or depth >= MAX_DEPTH:
                    continue
                if f.get('coroutine') and not t.get('closure_call'):
                    # `new_async_helper(..).await`: splice the helper's body in place of the await
                    cname_ = callee + '::{closure#0}'
                    cor_ = fns.get(cname_)
                    if cor_ is not None and cor_.get('coroutine') and cname_ not in stack and not b['cleanup']:
                        params_ = [g['name'] for g in fns[callee].get('generics', []) if g['kind'] != 'lifetime' and not g['name'].startswith('<')]
                        fnargs_ = t['func'].get('fnargs', [])
                        tymap_ = dict((p_, a_) for p_, a_ in zip(params_, fnargs_) if p_ != a_) if len(params_) == len(fnargs_) else {}
                        corf_ = flat(cname_, depth + 1, stack | {name})
                        if _splice_await(f, bi, fns[callee], corf_, tymap_):
                            spliced.add(cname_)
                            changed = True
                            break
                cf = flat(callee, depth + 1, stack | {name})
                if len(cf['args_check']) != len(t['args']):
                    continue
                params = [g['name'] for g in cf.get('generics', []) if g['kind'] != 'lifetime' and not g['name'].startswith('<')]
                fnargs = t['func'].get('fnargs', [])
                tymap = dict((p, a) for p, a in zip(params, fnargs) if p != a) if len(params) == len(fnargs) and not t.get('closure_call') else {}
                if not tymap and not t.get('closure_call') and params and len(fnargs) == len(params) + 1 and (t.get('trait') or '').startswith(str(j.get('crate', 'desync')) + '::'):
                    # a method of `impl<T> Ext<T> for Mutex<T>` called through the trait: the call's arguments are [Self, T..], the impl's are [T..]
                    self_ty_ = str(fnargs[0])
                    if all(str(a) in self_ty_ for a in fnargs[1:]):
                        tymap = dict((p, a) for p, a in zip(params, fnargs[1:]) if p != a)
                _inline_into(f, bi, cf, tymap)
                changed = True
                break
        f['args_check'] = list(range(f['arg_count']))
        done[name] = f
        return f

    out_fns = []
    hosts_of = {}
    for f in j['fns']:
        if f['name'] in fns and fns[f['name']] is f:
            nf = flat(f['name'], 0, frozenset())
        else:
            nf = f
        out_fns.append(nf)
    # mark helpers, re-root closures defined inside helpers
    inlined_in = {}
    for nf in out_fns:
        for b in nf['blocks']:
            t = b['term']
            if t and t.get('inlined_call'):
                inlined_in.setdefault(t['inlined_call'], nf.get('root') if nf['kind'] == 'Closure' else nf['name'])
            if t and t.get('spliced_await'):
                # the async fn whose body was spliced in: closures defined in that body now belong to the awaiting function
                inlined_in.setdefault(t['spliced_await'][:-len('::{closure#0}')], nf.get('root') if nf['kind'] == 'Closure' else nf['name'])
    def final_host(h):
        seen = set()
        while h in helpers and h in inlined_in and h not in seen:
            seen.add(h)
            h = inlined_in[h]
        return h
    inlined_in = dict((k, final_host(v)) for k, v in inlined_in.items())
    # a closure that was handed to an inlined helper and called there (`queue.with_core(|core| ..)`) has been read inline in its host;
    # if no remaining call receives it, it is not a body of its own any more
    still_passed = set()
    for nf in out_fns:
        for b in nf['blocks']:
            t = b['term']
            if t and t['k'] == 'call':
                for a in t['args']:
                    if a['k'] in ('copy', 'move'):
                        ty_ = str(a['pl'].get('ty', ''))
                        if '{closure:' in ty_:
                            for c_ in closure_inlined:
                                if '{closure:%s}' % c_ in ty_:
                                    still_passed.add(c_)
    for nf in out_fns:
        if nf['name'] in closure_inlined and nf['name'] not in still_passed and nf['kind'] == 'Closure':
            nf['helper'] = True
    for nf in out_fns:
        if nf['name'] in helpers or nf['name'] in spliced:
            nf['helper'] = True
            if nf['name'] in spliced:
                nf['spliced'] = True
        if nf['kind'] == 'Closure' and nf.get('root') in helpers and nf['root'] in inlined_in:
            nf['orig_root'] = nf['root']
            nf['root'] = inlined_in[nf['root']]
    j2 = dict(j)
    j2['fns'] = out_fns
    return j2, sorted(helpers)
