#!/usr/bin/env python3
"""Systematic gap finder (not a check): applies small syntactic mutations to /repo's sources and records which ones NO property check
reports (neither violation nor undecided).  Phase 2 runs the crate's own test suite on the unreported ones: a mutant that compiles,
passes the suite and is reported by nothing is either behaviour-preserving or a gap in the rules - those are listed for review.

usage: mutscan.py scan [-j N] [--only FILE_SUBSTR]     -> .cache/mutscan/scan.json
       mutscan.py tests [-j N]                          -> .cache/mutscan/tests.json   (suite on the unreported ones)
       mutscan.py show                                   -> prints the survivors (compile + suite passes + nothing reported)
Everything happens in scratch copies under /var/tmp; nothing is written to /repo.
"""
import json
import os
import re
import shutil
import subprocess
import sys
import tempfile

VERIF = os.path.dirname(os.path.dirname(os.path.abspath(__file__)))
sys.path.insert(0, VERIF)
OUT = os.path.join(VERIF, '.cache', 'mutscan')
REPO = '/repo'
STATES = ['Idle', 'Pending', 'Running', 'WaitingForWake', 'WaitingForUnpark', 'AwokenWhileRunning', 'Panicked']


def source_files():
    out = []
    for root, _, files in os.walk(os.path.join(REPO, 'src')):
        for f in files:
            if f.endswith('.rs'):
                out.append(os.path.relpath(os.path.join(root, f), REPO))
    return sorted(out)


def code_lines(path):
    """(index, line) of lines that are code: outside comments, doc comments and the #[cfg(test)] module."""
    lines = open(os.path.join(REPO, path)).read().split('\n')
    out = []
    in_test = False
    for i, l in enumerate(lines):
        s = l.strip()
        if s.startswith('#[cfg(test)]'):
            in_test = True
        if in_test:
            continue
        if not s or s.startswith('//') or s.startswith('#') or s.startswith('*') or s.startswith('/*'):
            continue
        out.append((i, l))
    return lines, out


def mutations(path, ops=None):
    """Yields (line index, operator, new line or None for deletion).  A new line may contain '\n' (two statements swapped)."""
    lines, code = code_lines(path)
    codeset = dict(code)
    if ops is None or 'swapadj' in ops:
        # two adjacent single-line statements exchanged (same indentation, both complete statements)
        def stmt(x):
            t = x.strip()
            return t.endswith(';') and t.count('(') == t.count(')') and t.count('{') == t.count('}') and not t.startswith(('use ', 'pub ', '//', '}'))
        for i, l in code:
            if i + 1 in codeset and stmt(l) and stmt(lines[i + 1]) and (len(l) - len(l.lstrip())) == (len(lines[i + 1]) - len(lines[i + 1].lstrip())) and l.strip() != lines[i + 1].strip():
                yield i, 'swapadj', lines[i + 1] + '\n' + l + '\n//swapped'
        for i, l in code:
            t = l.strip()
            if re.match(r'^(return\b.*;|break;|continue;)$', t):
                yield i, 'delret', None
            m = re.search(r'=\s*Some\((.*)\);\s*$', l.split('//')[0].rstrip())
            if m and not t.startswith('let '):
                yield i, 'some->none', re.sub(r'=\s*Some\(.*\);', '= None;', l, count=1)
            for a, b in ((' + 1', ' + 2'), (' - 1', ' - 0'), ('+= 1', '+= 2')):
                if a in l.split('//')[0]:
                    yield i, a.strip() + '->' + b.strip(), l.replace(a, b, 1)
    if ops is not None and 'reinit' in ops:
        # a clone of a shared object replaced by a fresh object built the same way (`x.clone()` -> `Arc::new(..)` as in `let x = Arc::new(..)`):
        # the two parties of a hand-shake no longer share it
        inits = {}
        for i, l in code:
            m = re.match(r'^\s*let\s+(?:mut\s+)?([a-z_][a-z_0-9]*)\s*(?::[^=]+)?=\s*((?:Arc|Mutex|Condvar|VecDeque|Vec)::new\(.*\));\s*$', l.split('//')[0].rstrip())
            if m and m.group(2).count('(') == m.group(2).count(')'):
                inits[m.group(1)] = (i, m.group(2))
        for i, l in code:
            c = l.split('//')[0]
            for name, (di, init) in inits.items():
                if i <= di or i - di > 120:
                    continue
                for pat in (r'\b%s\.clone\(\)' % name, r'Arc::clone\(&%s\)' % name, r'Arc::downgrade\(&%s\)' % name):
                    m = re.search(pat, c)
                    if m:
                        rep = init if 'downgrade' not in pat else 'Arc::downgrade(&%s)' % init
                        yield i, 'reinit:%s' % name, l[:m.start()] + rep + l[m.end():]
    if ops is not None and 'relock' in ops:
        # a critical section cut in two: at a statement boundary inside `let g = x.lock()...; ...` the guard is released and taken
        # again ("narrowed critical section"): whatever was decided before the cut is acted on after somebody else may have moved
        for i, l in code:
            m = re.match(r'^(\s*)let\s+(mut\s+)?([a-z_][a-z_0-9]*)\s*(?::[^=]+)?=\s*(.+\.lock\(\)\s*(?:\.expect\(.*\)|\.unwrap\(\)))\s*;\s*$', l.split('//')[0].rstrip())
            if not m:
                continue
            ind, mut, name, expr = m.group(1), m.group(2) or '', m.group(3), m.group(4)
            prev = l.strip()
            first = True
            for j in range(i + 1, min(i + 80, len(lines))):
                lj = lines[j]
                s = lj.strip()
                if not s or s.startswith('//'):
                    continue
                indj = lj[:len(lj) - len(lj.lstrip())]
                if len(indj) < len(ind) or re.search(r'\bdrop\(%s\)' % name, s):
                    break
                if j in codeset and indj == ind and prev.endswith((';', '}')) and not s.startswith(('}', '.', ')', '|', 'else', '=>', '&&', '||')) \
                        and re.search(r'\b%s\b' % name, '\n'.join(lines[j:j + 40])):
                    if not first:
                        yield j, 'relock:%s' % name, '%sdrop(%s); let %s%s = %s; %s' % (ind, name, mut, name, expr, s)
                    first = False
                elif j in codeset and mut and len(indj) > len(ind) and prev.endswith((';', '}', '{')) and (s.endswith(';') or s.endswith('{')) \
                        and not s.startswith(('}', '.', ')', '|', 'else', '&&', '||')) and '=>' not in s and not s.startswith('QueueState::') \
                        and re.search(r'\b%s\b' % name, '\n'.join(lines[j:j + 12])):
                    # inside a nested block of the critical section: the guard is released and assigned again
                    yield j, 'relock-in:%s' % name, '%sdrop(%s); %s = %s; %s' % (indj, name, name, expr, s)
                prev = s
    if ops is not None and 'itertrunc' in ops:
        # an iteration that silently covers less than everything
        for i, l in code:
            c = l.split('//')[0]
            for m in re.finditer(r'\.(iter|iter_mut|into_iter|drain\(\.\.\))\(?\)?', c):
                end = m.end()
                for extra in ('.skip(1)', '.take(1)', '.rev()'):
                    yield i, 'itertrunc:%s@%d' % (extra, m.start()), l[:end] + extra + l[end:]
    if ops is not None and 'guard' in ops:
        # a call statement made conditional on something no analysis can evaluate: separates rules that say "X happens only here"
        # (dominance) from rules that say "X always happens here" (must-pass-through)
        for i, l in code:
            s = l.strip()
            if s.endswith(';') and not re.match(r'^(let|use|pub|return|break|continue|type|const|static|mod|extern|fn|impl|struct|enum|trait)\b', s) \
                    and '(' in s and s.count('(') == s.count(')') and s.count('{') == s.count('}') and 'panic!' not in s and 'debug_assert' not in s:
                ind = l[:len(l) - len(l.lstrip())]
                yield i, 'guard', '%sif !::std::thread::panicking() { %s }' % (ind, s)
    if ops is not None and 'ifopaque' in ops:
        # a condition weakened / strengthened by something no analysis can evaluate: `cond || opaque` lets the guarded code run when the
        # test failed, `cond && !opaque` lets it be skipped when the test held
        for i, l in code:
            code_part = l.split('//')[0]
            m = re.match(r'^(\s*)(\}\s*else\s+)?(if|while)\s+(?!let\b)(.+?)\s*\{\s*$', code_part.rstrip())
            if m:
                pre = m.group(1) + (m.group(2) or '')
                yield i, 'or-opaque', '%s%s (%s) || ::std::thread::panicking() {' % (pre, m.group(3), m.group(4))
                yield i, 'and-opaque', '%s%s (%s) && !::std::thread::panicking() {' % (pre, m.group(3), m.group(4))
    if ops is not None and 'adjcmp' in ops:
        # a comparison keeps its shape but one side is shifted by an opaque allowance (`len() < max + k`, `len() == 0 + k`)
        for i, l in code:
            c = l.split('//')[0]
            m = re.search(r'(\.len\(\)\s*(?:==|!=|>=|<=|>|<)\s*)([A-Za-z0-9_\.]+)', c)
            if m:
                yield i, 'adjcmp:rhs', l.replace(m.group(0), m.group(1) + '(' + m.group(2) + ' + (::std::thread::panicking() as usize))', 1)
                yield i, 'adjcmp:lhs', l.replace(m.group(0), m.group(0).replace('.len()', '.len().saturating_sub(::std::thread::panicking() as usize)', 1), 1)
    if ops is not None and 'boolarg' in ops:
        for i, l in code:
            c = l.split('//')[0]
            for m in re.finditer(r'\((true|false)\)', c):
                other = 'false' if m.group(1) == 'true' else 'true'
                yield i, 'boolarg@%d' % m.start(), l[:m.start()] + '(' + other + ')' + l[m.end():]
            for m in re.finditer(r'\b(None|0)\b(?=\)\)?;)', c):
                pass
    if ops is not None and 'cmpstate' in ops:
        for i, l in code:
            m = re.search(r'([=!]=\s*)QueueState::(\w+)', l.split('//')[0])
            if m:
                for v in STATES:
                    if v != m.group(2):
                        yield i, 'cmp=%s' % v, l.replace('QueueState::' + m.group(2), 'QueueState::' + v, 1)
                yield i, 'cmp-flip', l.replace(m.group(1), ('!= ' if m.group(1).startswith('=') else '== '), 1)
    if ops is not None and 'dup' in ops:
        for i, l in code:
            s_ = l.strip()
            if s_.endswith(';') and not re.match(r'^(let|use|pub|return|break|continue|type|const|static|mod|extern|fn|impl|struct|enum|trait)\b', s_) \
                    and '(' in s_ and s_.count('(') == s_.count(')') and s_.count('{') == s_.count('}') and 'panic!' not in s_ and 'assert' not in s_:
                yield i, 'dup', l + ' ' + s_
    if ops is not None and 'ifconst' in ops:
        for i, l in code:
            code_part = l.split('//')[0]
            m = re.match(r'^(\s*)(\}\s*else\s+)?(if|while)\s+(?!let\b)(.+?)\s*\{\s*$', code_part.rstrip())
            if m:
                pre = m.group(1) + (m.group(2) or '')
                if m.group(3) == 'if':
                    yield i, 'if-true', '%sif (%s) || true {' % (pre, m.group(4))
                yield i, '%s-false' % m.group(3), '%s%s (%s) && false {' % (pre, m.group(3), m.group(4))
    if ops is not None and 'noopwaker' in ops:
        # a waker that is registered or used for a poll is replaced by one that does nothing (data flow: *which* waker)
        for i, l in code:
            c = l.split('//')[0]
            m = re.search(r'(\b[a-z_\.]+\.waker\(\)\.clone\(\)|\b[a-z_]*waker\.clone\(\))', c)
            if m:
                yield i, 'noopwaker', l.replace(m.group(1), '::futures::task::noop_waker()', 1)
            m = re.search(r'Context::from_waker\(&([a-z_]+)\)', c)
            if m:
                yield i, 'noopctx', l.replace('&' + m.group(1), '::futures::task::noop_waker_ref()', 1)
            m = re.search(r'task::waker\(([a-z_A-Z:\(\)]+)\)', c)
            if m and 'fn ' not in c:
                yield i, 'noopwaker2', l.replace(m.group(0), '{ let _unused = %s; ::futures::task::noop_waker() }' % m.group(1), 1)
    if ops is not None and 'earlyret' in ops:
        # an early exit inserted at a statement boundary of a function that returns () or bool: "the function can stop here"
        ret = None
        sig = None
        prev = ''
        for i, l in code:
            s = l.strip()
            if re.search(r'\bfn\s+\w+', s) and not s.startswith('//'):
                sig = s
                j = i
                while '{' not in sig and j + 1 < len(lines) and j - i < 12:
                    j += 1
                    sig += ' ' + lines[j].strip()
                head = sig.split('{')[0]
                m = re.search(r'->\s*([^{]+?)\s*(where\b.*)?$', head)
                rt = m.group(1).strip() if m else '()'
                ret = {'()': ['return;'], 'bool': ['return true;', 'return false;']}.get(rt)
                if ret is None and 'Poll<' in rt:
                    ret = ['return ::std::task::Poll::Pending;']
                elif ret is None and rt.startswith('Option<'):
                    ret = ['return None;']
                prev = s
                continue
            if ret and prev.endswith((';', '{', '}')) and (s.endswith(';') or s.endswith('{')) and not s.startswith(('}', '.', ')', '|', 'else', '=>', '&&', '||', 'where', 'pub ', 'fn ', 'impl', '#')) \
                    and '=>' not in s.split('//')[0][:s.find('{')] if '{' in s else ret and prev.endswith((';', '{', '}')) and s.endswith(';') and not s.startswith(('}', '.', ')', '|', 'else', '&&', '||')):
                ind = l[:len(l) - len(l.lstrip())]
                for r_ in ret:
                    yield i, 'earlyret:' + r_, '%sif ::std::thread::panicking() { %s } %s' % (ind, r_, s)
            prev = s
    if ops is not None and 'base' not in ops:
        return
    for i, l in code:
        s = l.strip()
        code_part = l.split('//')[0]
        # DEL: single-line expression statements
        if s.endswith(';') and not re.match(r'^(let|use|pub|return|break|continue|type|const|static|mod|extern|fn|impl|struct|enum|trait)\b', s) \
                and '(' in s and s.count('(') == s.count(')') and s.count('{') == s.count('}') and 'panic!' not in s and 'debug_assert' not in s:
            yield i, 'del', None
        # state writes: another variant
        m = re.search(r'(\.state\s*=\s*)QueueState::(\w+)', code_part)
        if m:
            for v in STATES:
                if v != m.group(2):
                    yield i, 'state=%s' % v, l.replace('QueueState::' + m.group(2), 'QueueState::' + v, 1)
        # match arms on states: retarget a pattern
        m = re.match(r'^(\s*)QueueState::(\w+)(\(_\)|\([a-z_]+\))?\s*(\||=>)', l)
        if m and not m.group(3):
            for v in ('Running', 'Idle', 'AwokenWhileRunning', 'WaitingForUnpark', 'Panicked'):
                if v != m.group(2):
                    yield i, 'arm=%s' % v, l.replace('QueueState::' + m.group(2), 'QueueState::' + v, 1)
        # negate simple conditions
        m = re.match(r'^(\s*)(if|while)\s+(?!let\b)(.+?)\s*\{\s*$', code_part.rstrip())
        if m and '&&' not in m.group(3) and '||' not in m.group(3):
            yield i, 'neg', '%s%s !(%s) {' % (m.group(1), m.group(2), m.group(3))
        # swaps
        for a, b in (('push_back', 'push_front'), ('push_front', 'push_back'), ('pop_front', 'pop_back'), ('notify_one', 'notify_all'),
                     (' >= ', ' > '), (' > ', ' >= '), (' <= ', ' < '), (' < ', ' <= '), (' == 0', ' != 0'), ('.len() > 0', '.len() > 1'),
                     ('&&', '||'), ('||', '&&'), ('.take()', '.clone()'), ('.is_none()', '.is_some()'), ('.is_some()', '.is_none()'),
                     ('Poll::Pending', 'Poll::Ready(())'), ('return true', 'return false'), ('return false', 'return true'),
                     ('.lock()', '.try_lock()'), ('Arc::downgrade(&', 'Arc::clone(&'), ('wake_by_ref', 'wake')):
            if a in code_part and not (a in ('||', '&&') and ('|' in code_part.replace('||', '') and 'move' in code_part)):
                if a == '||' and re.search(r'\|\|\s*(\{|[a-z_]+\s*[,)])', code_part):
                    continue      # closure with no parameters
                yield i, '%s->%s' % (a.strip(), b.strip()), l.replace(a, b, 1)
        # literal booleans in assignments / struct fields
        m = re.search(r'(=|:)\s*(true|false)\s*(;|,)?\s*$', code_part.rstrip())
        if m:
            other = 'false' if m.group(2) == 'true' else 'true'
            yield i, 'bool', re.sub(r'\b%s\b(?!.*\b(true|false)\b)' % m.group(2), other, l, count=1)


def make_tree():
    d = tempfile.mkdtemp(prefix='dsa-mutscan-', dir='/var/tmp')
    dst = os.path.join(d, 'repo')
    shutil.copytree(REPO, dst, ignore=shutil.ignore_patterns('target', '.git'))
    return d, dst


_state = {}


def _init_worker():
    from dsa import extract
    pid = os.getpid()
    base = os.path.join(extract.CACHE, 'target')
    tdir = os.path.join(extract.CACHE, 'target-m%d' % (pid % 1000))
    if not os.path.exists(tdir) and os.path.exists(os.path.join(base, 'debug')):
        os.makedirs(tdir, exist_ok=True)
        try:
            shutil.copytree(os.path.join(base, 'debug'), os.path.join(tdir, 'debug'), symlinks=True, ignore=shutil.ignore_patterns('incremental', 'examples', '*.d', 'desync-*', 'libdesync-*'))
        except shutil.Error:
            pass
    d, tree = make_tree()
    _state.update(tdir=tdir, d=d, tree=tree, pristine={})


def _apply(tree, path, idx, new):
    full = os.path.join(tree, path)
    if path not in _state['pristine']:
        _state['pristine'][path] = open(full).read()
    lines = _state['pristine'][path].split('\n')
    if new is None:
        lines[idx] = ''
    elif new.endswith('\n//swapped'):
        a, b, _ = new.split('\n')
        lines[idx], lines[idx + 1] = a, b
    else:
        lines[idx] = new
    open(full, 'w').write('\n'.join(lines))


def _restore(tree, path):
    open(os.path.join(tree, path), 'w').write(_state['pristine'][path])


def scan_one(job):
    path, idx, op, new, old = job
    from dsa import extract, props
    from dsa.ctx import Ctx
    tree = _state['tree']
    res = {'file': path, 'line': idx + 1, 'op': op, 'old': old.strip()[:140], 'new': (new.strip()[:140] if new is not None else None)}
    _apply(tree, path, idx, new)
    try:
        try:
            facts, info = extract.extract(tree, 'dev', target_dir=_state['tdir'])
        except extract.ExtractError:
            res['status'] = 'nobuild'
            return res
        ctx = Ctx(facts, info)
        hits = {}
        for pid in sorted(props.PROPS):
            try:
                insts = props.evaluate(pid, ctx)
            except Exception as e:      # an analysis crash is a report too (exit 2 in the real check)
                hits[pid] = ['CRASH:' + type(e).__name__]
                continue
            v = sorted(set(('%s%s' % (i.rule, '?' if i.verdict == 'undecided' else '')) for i in insts if i.verdict in ('violation', 'undecided')
                           and not (pid == 'C04' and i.rule == 'CV1' and i.key == 'SchedulerCore::reschedule_queue|notify')))
            if v:
                hits[pid] = v
        res['status'] = 'reported' if hits else 'silent'
        res['hits'] = hits
        return res
    finally:
        _restore(tree, path)


def cmd_scan(argv):
    import multiprocessing as mp
    j = 8
    only = None
    if '-j' in argv:
        j = int(argv[argv.index('-j') + 1])
    if '--only' in argv:
        only = argv[argv.index('--only') + 1]
    ops = None
    if '--ops' in argv:
        ops = set(argv[argv.index('--ops') + 1].split(','))
    outname = 'scan.json' if ops is None else 'scan-%s.json' % '-'.join(sorted(ops))
    jobs = []
    for path in source_files():
        if only and only not in path:
            continue
        lines, _ = code_lines(path)
        seen = set()
        for idx, op, new in mutations(path, ops):
            if new is not None and new == lines[idx]:
                continue
            k = (idx, new)
            if k in seen:
                continue
            seen.add(k)
            jobs.append((path, idx, op, new, lines[idx]))
    print('%d mutants' % len(jobs), flush=True)
    os.makedirs(OUT, exist_ok=True)
    results = []
    with mp.Pool(j, initializer=_init_worker) as pool:
        for n, r in enumerate(pool.imap_unordered(scan_one, jobs, chunksize=4)):
            results.append(r)
            if (n + 1) % 50 == 0:
                c = {}
                for x in results:
                    c[x['status']] = c.get(x['status'], 0) + 1
                print(n + 1, c, flush=True)
                json.dump(results, open(os.path.join(OUT, outname), 'w'), indent=0)
    json.dump(results, open(os.path.join(OUT, outname), 'w'), indent=0)
    c = {}
    for x in results:
        c[x['status']] = c.get(x['status'], 0) + 1
    print('done', c)
    # scratch trees of the workers
    for d in os.listdir('/var/tmp'):
        if d.startswith('dsa-mutscan-'):
            shutil.rmtree(os.path.join('/var/tmp', d), ignore_errors=True)


def _init_test_worker():
    d, tree = make_tree()
    # a mutant that hangs a test must not cost ten minutes: nextest kills a test after 2 x 20 s
    os.makedirs(os.path.join(tree, '.config'), exist_ok=True)
    open(os.path.join(tree, '.config', 'nextest.toml'), 'w').write('[profile.default]\nslow-timeout = { period = "20s", terminate-after = 2 }\n')
    _state.update(d=d, tree=tree, pristine={}, tdir=os.path.join(d, 'target'))


def test_one(job):
    tree = _state['tree']
    path, idx, new = job['file'], job['line'] - 1, None
    lines = open(os.path.join(REPO, path)).read().split('\n')
    # recompute the mutated line from the recorded operator
    fam = None
    if job['op'] in ('dup', 'if-true', 'if-false', 'while-false'):
        fam = {'dup', 'ifconst'}
    elif job['op'] == 'guard':
        fam = {'guard'}
    elif job['op'].startswith('earlyret'):
        fam = {'earlyret'}
    elif job['op'].startswith('noop'):
        fam = {'noopwaker'}
    elif job['op'].startswith('cmp'):
        fam = {'cmpstate'}
    elif job['op'].startswith('adjcmp'):
        fam = {'adjcmp'}
    elif job['op'].startswith('relock'):
        fam = {'relock'}
    cand = [(i, op, nw) for (i, op, nw) in mutations(path, fam) if i == idx and op == job['op']]
    if not cand:
        job['tests'] = 'lost'
        return job
    _apply(tree, path, idx, cand[0][2])
    try:
        env = dict(os.environ, CARGO_TARGET_DIR=_state['tdir'], CARGO_NET_OFFLINE='true')
        r = subprocess.run(['timeout', '600', 'cargo', 'nextest', 'run', '--workspace', '--no-fail-fast', '--test-threads', '4', '--offline'],
                           cwd=tree, env=env, capture_output=True, text=True)
        out = r.stdout + r.stderr
        m = re.search(r'Summary \[.*?\]\s+(\d+) tests run: (\d+) passed(?:, (\d+) failed)?(?:, (\d+) timed out)?', out)
        fails = sorted(set(re.findall(r'^\s+(?:FAIL|TIMEOUT|SIGABRT|SIGSEGV)\s+\[.*?\]\s+\S+\s+(\S+)', out, re.M)))
        job['tests'] = {'passed': int(m.group(2)) if m else -1, 'failed': fails}
        return job
    finally:
        _restore(tree, path)


def cmd_tests(argv):
    import multiprocessing as mp
    j = 3
    if '-j' in argv:
        j = int(argv[argv.index('-j') + 1])
    src = argv[argv.index('--from') + 1] if '--from' in argv else 'scan.json'
    status = argv[argv.index('--status') + 1] if '--status' in argv else 'silent'
    opsf = set(argv[argv.index('--ops') + 1].split(',')) if '--ops' in argv else None
    scan = json.load(open(os.path.join(OUT, src)))
    todo = [x for x in scan if x['status'] == status and (opsf is None or x['op'].split('=')[0] in opsf)]
    outname = 'tests.json' if (src, status) == ('scan.json', 'silent') else 'tests-%s-%s.json' % (src.replace('.json', ''), status)
    print('%d %s mutants to test' % (len(todo), status), flush=True)
    results = []
    with mp.Pool(j, initializer=_init_test_worker) as pool:
        for n, r in enumerate(pool.imap_unordered(test_one, todo, chunksize=1)):
            results.append(r)
            if (n + 1) % 10 == 0:
                print(n + 1, flush=True)
                json.dump(results, open(os.path.join(OUT, outname), 'w'), indent=0)
    json.dump(results, open(os.path.join(OUT, outname), 'w'), indent=0)
    for d in os.listdir('/var/tmp'):
        if d.startswith('dsa-mutscan-'):
            shutil.rmtree(os.path.join('/var/tmp', d), ignore_errors=True)


def cmd_show(argv):
    res = json.load(open(os.path.join(OUT, 'tests.json')))
    surv = [x for x in res if isinstance(x.get('tests'), dict) and x['tests']['passed'] >= 64 and set(x['tests']['failed']) <= {'scheduler::asynchronous::panicking_panics_with_future_queues'}]
    print('%d tested, %d survive the suite' % (len(res), len(surv)))
    for x in sorted(surv, key=lambda x: (x['file'], x['line'])):
        print('%s:%d  [%s]\n      - %s\n      + %s' % (x['file'], x['line'], x['op'], x['old'], x['new']))


if __name__ == '__main__':
    cmd = sys.argv[1] if len(sys.argv) > 1 else 'scan'
    if cmd != 'rescan':
        {'scan': cmd_scan, 'tests': cmd_tests, 'show': cmd_show}[cmd](sys.argv[2:])


def cmd_rescan(argv):
    """Re-evaluates only the mutants that were silent in the last scan (after rules changed)."""
    import multiprocessing as mp
    scan = json.load(open(os.path.join(OUT, 'scan.json')))
    jobs = []
    for x in scan:
        if x['status'] != 'silent':
            continue
        path, idx = x['file'], x['line'] - 1
        lines = open(os.path.join(REPO, path)).read().split('\n')
        cand = [(i, op, nw) for (i, op, nw) in mutations(path) if i == idx and op == x['op']]
        if cand:
            jobs.append((path, idx, x['op'], cand[0][2], lines[idx]))
    res = []
    with mp.Pool(6, initializer=_init_worker) as pool:
        for r in pool.imap_unordered(scan_one, jobs, chunksize=2):
            res.append(r)
    json.dump(res, open(os.path.join(OUT, 'rescan.json'), 'w'), indent=0)
    still = [r for r in res if r['status'] == 'silent']
    print('%d re-evaluated, %d still silent' % (len(res), len(still)))
    for x in sorted(still, key=lambda x: (x['file'], x['line'])):
        print('%s:%d [%s]  %s   =>   %s' % (x['file'].replace('src/scheduler/', ''), x['line'], x['op'], x['old'][:70], (x['new'] or '<deleted>')[:70]))
    for d in os.listdir('/var/tmp'):
        if d.startswith('dsa-mutscan-') and not os.path.exists(os.path.join('/var/tmp', d, 'repo', '.config')):
            shutil.rmtree(os.path.join('/var/tmp', d), ignore_errors=True)


if __name__ == '__main__' and len(sys.argv) > 1 and sys.argv[1] == 'rescan':
    cmd_rescan(sys.argv[2:])
