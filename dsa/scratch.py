"""Scratch copies of a desync tree (outside /repo and /verif), for mutants and seeded changes."""
import os
import shutil
import subprocess
import tempfile

SCRATCH_ROOT = os.environ.get('DSA_SCRATCH', '/var/tmp')


def make_copy(repo='/repo'):
    d = tempfile.mkdtemp(prefix='dsa-scratch-', dir=SCRATCH_ROOT)
    dst = os.path.join(d, 'repo')
    shutil.copytree(repo, dst, ignore=shutil.ignore_patterns('target', '.git'))
    return d, dst


def apply_patch(tree, patch):
    """Returns True if the patch applied cleanly."""
    r = subprocess.run(['patch', '-p1', '--no-backup-if-mismatch', '-s', '-f', '-i', os.path.abspath(patch)], cwd=tree, capture_output=True, text=True)
    return r.returncode == 0, (r.stdout + r.stderr)[-2000:]


def remove(d):
    shutil.rmtree(d, ignore_errors=True)
