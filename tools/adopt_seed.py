#!/usr/bin/env python3
"""Adopts a confirmed seeded change into /verif/seeded/<name>/ and registers it in mutants/index.json (origin: seeded).
usage: adopt_seed.py <out dir of the sub-agent> <seed name> <property> [--first-pass detected|missed] """
import json
import os
import shutil
import subprocess
import sys

VERIF = os.path.dirname(os.path.dirname(os.path.abspath(__file__)))
sys.path.insert(0, VERIF)
from dsa import selfcheck, props  # noqa

src, name, pid = sys.argv[1], sys.argv[2], sys.argv[3]
first = sys.argv[5] if len(sys.argv) > 5 and sys.argv[4] == '--first-pass' else 'unknown'
conf = json.load(open(os.path.join(src, 'confirm.json')))
assert 'error' not in conf, conf
dst = os.path.join(VERIF, 'seeded', name)
os.makedirs(dst, exist_ok=True)
shutil.copy(os.path.join(src, 'patch.diff'), os.path.join(dst, 'patch.diff'))
demos = []
for f in sorted(os.listdir(src)):
    if f.endswith('.rs'):
        shutil.copy(os.path.join(src, f), os.path.join(dst, f))
        demos.append(f)
if os.path.exists(os.path.join(src, 'notes.md')):
    shutil.copy(os.path.join(src, 'notes.md'), os.path.join(dst, 'notes.md'))
# which checks report it now
m = {'patch': os.path.join(dst, 'patch.diff')}
r = selfcheck.run_mutant(m, '/repo', sorted(props.PROPS))
known = json.load(open(os.path.join(VERIF, 'known_findings.json')))
kset = set((k['property'], k['rule'], k['key']) for k in known['findings'])
det = {}
if r['status'] == 'ran':
    for p, v in r['violations'].items():
        v2 = [x for x in v if (p, x['rule'], x['key']) not in kset]
        if v2:
            det[p] = v2
notes = open(os.path.join(src, 'notes.md')).read() if os.path.exists(os.path.join(src, 'notes.md')) else ''
meta = {
    'name': name,
    'property_broken': pid,
    'origin': 'written by a fresh sub-agent that was given only the property text and a scratch worktree of /repo (nothing from /verif)',
    'needs_to_manifest': '(see notes.md) ' + ' '.join(l.strip() for l in notes.splitlines() if 'manifest' in l.lower())[:600],
    'what_i_ran': {
        'command': 'tools/confirm_seed.sh: fresh worktree of /repo HEAD; demo on the unchanged tree; git apply patch.diff; cargo build; '
                   'cargo nextest run --workspace --no-fail-fast --test-threads 8 --offline; demo again',
        'demo_on_unchanged_tree': conf['demo_unchanged'],
        'suite_with_change': conf['suite_with_change'],
        'suite_failures_with_change': conf['suite_failures'],
        'demo_with_change': conf['demo_with_change'],
    },
    'demo_files': demos,
    'detected_by': {p: sorted(set('%s|%s' % (x['rule'], x['key']) for x in v)) for p, v in sorted(det.items())},
    'detected_on_first_pass': first,
}
with open(os.path.join(dst, 'meta.json'), 'w') as f:
    json.dump(meta, f, indent=1)
# register in the self-validation corpus
idxp = os.path.join(VERIF, 'mutants', 'index.json')
idx = json.load(open(idxp))
idx['mutants'] = [x for x in idx['mutants'] if x['name'] != 'seeded-' + name]
exp = {}
if pid in det:
    exp[pid] = {'rules': sorted(set(x['rule'] for x in det[pid]))}
shutil.copy(os.path.join(dst, 'patch.diff'), os.path.join(VERIF, 'mutants', 'seeded-%s.patch' % name))
idx['mutants'].append({'name': 'seeded-' + name, 'patch': 'seeded-%s.patch' % name, 'what': 'seeded change against %s (see seeded/%s)' % (pid, name), 'origin': 'seeded', 'expect': exp})
json.dump(idx, open(idxp, 'w'), indent=1)
print(name, pid, 'detected by', {p: sorted(set(x['rule'] for x in v)) for p, v in det.items()} or 'NOTHING')
