"""A2 / A6 rules about locks: lock order (LO), blocking or foreign code under an internal lock (BL),
guards across awaits (AW), try_lock read as a state decision (TRY), condition-variable handshakes (CV)."""
from collections import defaultdict

from .callgraph import CallGraph, BLOCKING, WAKE_FNS
from .facts import short, clean_ty, render, expr_root
from .locks import lock_sites, USER_CODE_CLASSES, guard_locals, Held
from .rule import ok, bad, undecided

# Audited exceptions to BL, one reason per line.  key = (function, site kind/what, held class)
BL_EXCEPTIONS = {
    ('desync::PipeContext::poll', 'desync-drop', 'PipeStream.core'):
        'PipeContext::poll runs under PipeStream.core only when PipeStream::drop wakes the close notifier, and that wake precedes the release of '
        'the on_drop closure, which owns an Arc<Desync<_>> of the same target (checked by ORD-C16 wake-before-release): the Arc upgraded here is never the last owner on that path',
    ('<desync::PipeStream as core::ops::drop::Drop>::drop', 'wake', 'PipeStream.core'):
        'the slot notify_stream_closed only ever holds the pipe\'s own PipeWaker (checked: every store is the producer closure\'s waker parameter); '
        'its wake schedules a job and never takes PipeStream.core (lock order checked by LO)',
    ('<desync::PipeStream as core::ops::drop::Drop>::drop', 'wake', 'PipeStream.core'):
        'the slot notify_stream_closed only ever holds the pipe\'s own PipeWaker (checked by LW-prov: every store is the producer closure\'s waker parameter); '
        'its wake schedules a job and never takes PipeStream.core (lock order checked by LO)',
}


def cg(ctx):
    if getattr(ctx, '_cg', None) is None:
        ctx._cg = CallGraph(ctx.F, ctx.proto.bind)
    return ctx._cg


# Wake sites whose waker provenance is known (checked by LW-prov in rules_lw): the call can only reach these ArcWake impls.
WAKE_PROVENANCE = {
    '<desync::PipeStream as core::ops::drop::Drop>::drop': ['<desync::PipeWaker as futures_task::arc_wake::ArcWake>::wake_by_ref'],
}


def _targets(s):
    root = s.fn.root or s.fn.name
    if s.kind == 'wake' and root in WAKE_PROVENANCE:
        return [t for t in s.targets if t in WAKE_PROVENANCE[root]]
    return s.targets


def ctx_held(ctx):
    """fn name -> set of lock classes that may be held by (transitive, same-thread) callers when fn runs."""
    if getattr(ctx, '_ctx_held', None) is not None:
        return ctx._ctx_held
    g = cg(ctx)
    F = ctx.F
    held = defaultdict(set)
    why = {}
    changed = True
    rounds = 0
    while changed and rounds < 50:
        changed = False
        rounds += 1
        for fn in F.crate_fns():
            H = ctx.held(fn)
            base = held[fn.name]
            for s in g.sites.get(fn.name, []):
                if s.kind in ('static', 'param', 'hof', 'dyn_run', 'wake'):
                    here = set(H.held_at_term(s.bb)) | base
                    for c in _targets(s):
                        new = here - held[c]
                        if new:
                            held[c] |= new
                            for cls in new:
                                why.setdefault((c, cls), (fn.name, s.loc))
                            changed = True
    ctx._ctx_held = held
    ctx._ctx_held_why = why
    return held


def may_acquire(ctx):
    """fn name -> {class: (path description)} classes the function may acquire, transitively on the same thread."""
    if getattr(ctx, '_may_acq', None) is not None:
        return ctx._may_acq
    g = cg(ctx)
    F = ctx.F
    acq = defaultdict(dict)
    for fn in F.crate_fns():
        for bb, t, kind, cls in lock_sites(fn):
            acq[fn.name].setdefault(cls, '%s (%s)' % (short(fn.name), fn.loc(bb)))
    changed = True
    while changed:
        changed = False
        for fn in F.crate_fns():
            for s in g.sites.get(fn.name, []):
                if s.kind in ('static', 'param', 'hof', 'dyn_run', 'wake'):
                    for c in _targets(s):
                        for cls, path in acq.get(c, {}).items():
                            if cls not in acq[fn.name]:
                                acq[fn.name][cls] = '%s -> %s' % (short(fn.name), path)
                                changed = True
    ctx._may_acq = acq
    return acq


def is_internal(cls):
    return cls not in USER_CODE_CLASSES


# ---------------------------------------------------------------------------------------------
def lock_classes(ctx):
    """Every lock site is classified (a new mutex is a new obligation, not a pass)."""
    out = []
    n = 0
    seen = defaultdict(int)
    for fn in ctx.F.crate_fns():
        for bb, t, kind, cls in lock_sites(fn):
            n += 1
            seen[cls] += 1
            if cls.startswith('UNCLASSIFIED'):
                out.append(undecided('LOCK-class', '%s|%s' % (short(fn.name), cls), 'lock site on a mutex the class table does not know', loc=fn.loc(bb), fn=fn.name))
    for cls, k in sorted(seen.items()):
        if cls.startswith('auto:'):
            out.append(ok('LOCK-class', cls, '%d lock sites on a mutex outside the role table: checked by the lock-order and under-a-lock rules as a class of its own' % k))
        elif not cls.startswith('UNCLASSIFIED'):
            out.append(ok('LOCK-class', cls, '%d lock sites' % k))
    if n < 80 and not ctx.F.is_test:
        out.append(undecided('LOCK-class', 'floor', 'only %d lock sites found, expected at least 80' % n))
    return out


def lo(ctx):
    """The lock-class graph held -> acquired (interprocedural) restricted to internal classes is acyclic."""
    g = cg(ctx)
    F = ctx.F
    out = []
    for p in g.problems:
        out.append(undecided('LO', 'analysis:' + p, p))
    H0 = ctx_held(ctx)
    acq = may_acquire(ctx)
    edges = {}
    for fn in F.crate_fns():
        H = ctx.held(fn)
        # direct lock sites
        for bb, t, kind, cls in lock_sites(fn):
            for h in set(H.held_at_term(bb)) | H0[fn.name]:
                edges.setdefault((h, cls), '%s takes %s while holding %s (%s)' % (short(fn.name), cls, h, fn.loc(bb)))
        # calls made while holding something
        for s in g.sites.get(fn.name, []):
            if s.kind not in ('static', 'param', 'hof', 'dyn_run', 'wake'):
                continue
            here = set(H.held_at_term(s.bb))
            if not here:
                continue
            for c in _targets(s):
                for cls, path in acq.get(c, {}).items():
                    for h in here:
                        edges.setdefault((h, cls), '%s calls %s while holding %s (%s); callee path: %s' % (short(fn.name), short(c), h, s.loc, path))
    ctx._lo_edges = edges
    internal = {(a, b): w for (a, b), w in edges.items() if is_internal(a) and is_internal(b)}
    # self edges
    graph = defaultdict(set)
    for (a, b) in internal:
        graph[a].add(b)
    # cycle detection (report each cycle once)
    cycles = []
    color = {}

    def dfs(u, stack):
        color[u] = 1
        stack.append(u)
        for v in sorted(graph[u]):
            if color.get(v, 0) == 0:
                dfs(v, stack)
            elif color.get(v) == 1:
                cyc = stack[stack.index(v):] + [v]
                cycles.append(cyc)
        stack.pop()
        color[u] = 2
    for u in sorted(graph):
        if color.get(u, 0) == 0:
            dfs(u, [])
    for (a, b), w in sorted(internal.items()):
        in_cycle = any(any(c[i] == a and c[i + 1] == b for i in range(len(c) - 1)) for c in cycles)
        key = '%s -> %s' % (a, b)
        if in_cycle:
            cyc = [c for c in cycles if any(c[i] == a and c[i + 1] == b for i in range(len(c) - 1))][0]
            steps = [internal[(cyc[i], cyc[i + 1])] for i in range(len(cyc) - 1)]
            out.append(bad('LO', key, 'lock-order cycle %s: %s' % (' -> '.join(cyc), ' ;; '.join(steps)), extra={'cycle': cyc, 'steps': steps}))
        else:
            out.append(ok('LO', key, w))
    if len(internal) < 8:
        out.append(undecided('LO', 'floor', 'only %d lock-order edges found, expected at least 8' % len(internal)))
    return out


def _blocking_sites(ctx):
    g = cg(ctx)
    for fn in ctx.F.crate_fns():
        for s in g.sites.get(fn.name, []):
            name = s.t['func'].get('fn')
            if name in BLOCKING:
                yield fn, s, 'block', BLOCKING[name]


def _job_drop_sites(ctx):
    """Drop terminators of values that (may) contain a queued job: user destructors and signaller wake-ups run there.
    Built MIR still has a Drop for values that were moved away; only drops of possibly-initialised locals count."""
    for fn in ctx.F.crate_fns():
        tracked = {i: 'job' for i, l in enumerate(fn.locals) if 'dyn(desync::ScheduledJob' in l['ty'] and not l['ty'].startswith('&') and not l['ty'].startswith('*')}
        if not tracked:
            continue
        live = Held(fn, tracked)
        for bb, b in enumerate(fn.blocks):
            t = b['term']
            if t and t['k'] == 'drop' and not b['cleanup'] and not t['pl']['p']:
                l = t['pl']['l']
                if l in tracked and l in live.at_term.get(bb, frozenset()):
                    yield fn, bb, fn.local_ty(l)


SCHED_WIDE = ('JobQueue.core', 'SchedulerCore.schedule', 'SchedulerCore.threads', 'SchedulerCore.max_threads', 'thread.busy')


def _user_drop_sites(ctx):
    """Drop terminators that can run code the crate does not control, other than queued jobs:
      desync   a value that owns an `Arc<Desync<_>>`: if it is the last owner `Desync::drop` runs, which queues a job and *waits* for it;
      user     a by-value local whose type is a type parameter of the function (the caller's closure, future, stream, payload) or a
               `Waker` (a caller-supplied waker's destructor is the caller's code).
    -> (fn, bb, kind, type)"""
    for fn in ctx.F.crate_fns():
        gen = set(g_['name'] for g_ in fn.generics if g_['kind'] == 'type')
        tracked = {}
        for i, l in enumerate(fn.locals):
            ty = clean_ty(l['ty']).strip()
            if ty.startswith(('&', '*')):
                continue
            if 'alloc::sync::Arc<desync::Desync<' in ty and 'Weak<' not in ty.split('alloc::sync::Arc<desync::Desync<')[0][-30:]:
                tracked[i] = 'desync'
            elif ty in gen or ty == 'core::task::wake::Waker' or ty == 'core::option::Option<core::task::wake::Waker>':
                tracked[i] = 'user'
        if not tracked:
            continue
        live = Held(fn, tracked)
        for bb, b in enumerate(fn.blocks):
            t = b['term']
            if t and t['k'] == 'drop' and not b['cleanup'] and not t['pl']['p']:
                l = t['pl']['l']
                if l in tracked and l in live.at_term.get(bb, frozenset()):
                    yield fn, bb, tracked[l], fn.local_ty(l)


JOIN_HANDLE_TYPES = ('desync::SchedulerThread', 'std::thread::join_handle::JoinHandle')


def _reach_avoiding(fn, a, b, avoid):
    """Is there a path (normal edges) from block a to block b that does not pass through `avoid`?"""
    seen, work = set(), [t for _, t in fn.edges(a, unwind=False)]
    while work:
        x = work.pop()
        if x in seen or x == avoid:
            continue
        seen.add(x)
        if x == b:
            return True
        work.extend(t for _, t in fn.edges(x, unwind=False))
    return False


def bounded_join(ctx, fn, bb):
    """A join is bounded (not a blocking site) when the handle can only be one for which is_finished() returned true:
    every push onto the vector the joined handle is drawn from is dominated by the true edge of an is_finished() test."""
    from .ordq import result_edges, edom
    fin_true = set()
    fin_holds = frozenset()
    H = ctx.held(fn)
    for b2, t in fn.calls():
        name = t['func'].get('fn') or ''
        if name.endswith('::is_finished'):
            e = result_edges(fn, b2)
            if e and e.get('otherwise') is not None:
                fin_true.add(e['otherwise'])
                fin_holds |= H.holds_at_term(b2)
    # `iter().position(|(_, thread)| thread.is_finished())`: the Some edge of the search is the true edge of the test for the element found
    from .callgraph import _closure_args
    from .ordq import edge_for
    for b2, t in fn.calls():
        name = t['func'].get('fn') or ''
        if name.endswith(('::position', '::rposition')) and not fn.blocks[b2]['cleanup']:
            for c in _closure_args(t):
                cf = ctx.F.fn(c)
                # the closure's answer *is* the answer of is_finished() (the call writes the return place; a negation would not)
                if cf and len(list(cf.calls())) == 1 and all((t3['func'].get('fn') or '').endswith('::is_finished') and not t3['dest']['p'] and t3['dest']['l'] == 0 for _, t3 in cf.calls()):
                    e = result_edges(fn, b2)
                    se = edge_for(e, 'core::option::Option', 'Some') if e else None
                    if se is not None:
                        fin_true.add(se)
                        fin_holds |= H.holds_at_term(b2)
    if not fin_true:
        return None
    # the handle that is taken out of the table is the one that was tested: removal and test under one hold of the table's lock
    # (an index that survives a release of the lock designates whatever thread sits there afterwards)
    for b2, t in fn.calls():
        name = t['func'].get('fn') or ''
        if name.endswith(('::Vec::remove', '::Vec::swap_remove')) and not fn.blocks[b2]['cleanup'] and H.guards:
            if H.holds_at_term(b2) and fin_holds and not (H.holds_at_term(b2) & fin_holds):
                return None
            # ... and no acquisition lies between the test and the removal (inside a loop the same acquisition site is met by every turn)
            for site in H.holds_at_term(b2):
                if site[0] not in ('c', 'a'):
                    continue
                sb = site[1]
                for fb, ft in fn.calls():
                    if (ft['func'].get('fn') or '').endswith('::is_finished') and sb != fb and _reach_avoiding(fn, fb, sb, b2) and _reach_avoiding(fn, sb, b2, fb):
                        return None
    pushes = []
    for b2, t in fn.calls():
        name = t['func'].get('fn') or ''
        if name.endswith('::Vec::push') and any(h in clean_ty(t['args'][0]['pl']['ty']) for h in JOIN_HANDLE_TYPES):
            pushes.append(b2)
    if not pushes:
        return None
    for b2 in pushes:
        if not any(edom(fn, ft, b2) for ft in fin_true):
            return None
    # the joined handle comes out of an iteration (into_iter / next) in this function, not from a parameter or field
    e = fn.expr_of_operand(fn.blocks[bb]['term']['args'][0])
    txt = render(e)
    if 'next(' not in txt and 'into_iter' not in txt and 'despawn' not in txt:
        return None
    return 'every handle pushed for joining was seen is_finished() == true (%d push site(s))' % len(pushes)


def join_unknown(ctx, fn):
    """A join that bounded_join cannot prove, but whose handle plausibly went through an is_finished() filter: some function that tests
    is_finished() reaches the joining function (the filter sits in a closure or in another helper).  Such a site is reported undecided."""
    g = cg(ctx)
    for f2 in ctx.F.crate_fns():
        if any((t['func'].get('fn') or '').endswith('::is_finished') for bb, t in f2.calls()):
            top = f2.root or f2.name
            if fn.name == top or fn.name in g.reachable(top):
                return 'an is_finished() test in %s may guard this join, but the data flow from the test to the joined handle is not of the recognised shape' % short(f2.name)
    return None


def bl(ctx):
    """No blocking call and no foreign code (jobs, user closures, wakers, user futures/streams) while an internal lock is held."""
    g = cg(ctx)
    F = ctx.F
    H0 = ctx_held(ctx)
    out = []
    counts = defaultdict(int)

    def check(fn, bb, kind, what, loc, allowed=frozenset()):
        H = ctx.held(fn)
        here = set(H.held_at_term(bb)) | set(H0[fn.name])
        internal = sorted(c for c in here if is_internal(c) and c not in allowed)
        counts[kind] += 1
        key = '%s|%s:%s' % (short(fn.name), kind, what)
        excused = []
        for c in list(internal):
            r = BL_EXCEPTIONS.get((fn.root or fn.name, kind, c))
            if r:
                excused.append(c)
                internal.remove(c)
        if internal:
            why = []
            for c in internal:
                w = getattr(ctx, '_ctx_held_why', {}).get((fn.name, c))
                if c in H.held_at_term(bb):
                    why.append('%s held in this function' % c)
                elif w:
                    why.append('%s held by caller %s (%s)' % (c, short(w[0]), w[1]))
                else:
                    why.append(c)
            out.append(bad('BL', key, '%s while holding %s' % (what, '; '.join(why)), loc=loc, fn=fn.name))
        else:
            d = 'no internal lock held'
            if excused:
                d = 'audited exception (%s held): %s' % (', '.join(excused), BL_EXCEPTIONS[(fn.root or fn.name, kind, excused[0])])
            user = sorted(c for c in here if not is_internal(c))
            if user:
                d += '; under %s by design' % ', '.join(user)
            out.append(ok('BL', key, d, loc=loc, fn=fn.name))

    for fn, s, kind, what in _blocking_sites(ctx):
        if what == 'JoinHandle::join':
            r = bounded_join(ctx, fn, s.bb)
            if r:
                counts['block'] += 1
                out.append(ok('BL', '%s|bounded-join' % short(fn.name), 'not a blocking site: ' + r, loc=s.loc, fn=fn.name))
                continue
            u = join_unknown(ctx, fn)
            if u:
                counts['block'] += 1
                out.append(undecided('BL', '%s|bounded-join' % short(fn.name), u))
                continue
        check(fn, s.bb, 'block', what, s.loc)
    for fn in F.crate_fns():
        for s in g.sites.get(fn.name, []):
            if s.kind == 'dyn_run':
                check(fn, s.bb, 'job', 'ScheduledJob::run', s.loc)
            elif s.kind == 'param' and s.foreign:
                check(fn, s.bb, 'user-closure', s.what, s.loc)
            elif s.kind == 'wake':
                check(fn, s.bb, 'wake', s.what, s.loc)
            elif s.kind == 'poll' and s.foreign:
                check(fn, s.bb, 'user-poll', s.what, s.loc)
    for fn, bb, ty in _job_drop_sites(ctx):
        check(fn, bb, 'job-drop', 'drop of a queued job', fn.loc(bb))
    for fn, bb, kind, ty in _user_drop_sites(ctx):
        if kind == 'desync':
            check(fn, bb, 'desync-drop', 'release of an Arc<Desync<_>> (the last owner runs Desync::drop, which waits for the queue)', fn.loc(bb))
        else:
            # slot locks (a waker stored under the lock replaces - and drops - the previous one by design) are not scheduler-wide
            H = ctx.held(fn)
            here = set(H.held_at_term(bb)) | set(H0[fn.name])
            wide = sorted(c for c in here if c in SCHED_WIDE)
            counts['user-drop'] += 1
            key = '%s|user-drop:%s' % (short(fn.name), clean_ty(ty)[:40])
            if wide:
                out.append(bad('BL', key, 'a value whose destructor is the caller\'s code (%s) is dropped while holding %s: a destructor that calls back into the scheduler dead-locks, one that panics poisons the lock' % (clean_ty(ty)[:50], ', '.join(wide)), loc=fn.loc(bb), fn=fn.name))
            else:
                out.append(ok('BL', key, 'dropped with no scheduler-wide lock held', loc=fn.loc(bb), fn=fn.name))
    floors = {'block': 5, 'job': 4, 'wake': 10, 'user-closure': 5}
    for k, v in floors.items():
        if counts[k] < v:
            out.append(undecided('BL', 'floor:' + k, 'found %d %s sites, expected at least %d' % (counts[k], k, v)))
    ctx._bl_counts = dict(counts)
    return out


def aw(ctx):
    """No lock region is live across an await (Yield)."""
    out = []
    n = 0
    for fn in ctx.F.crate_fns():
        H = None
        for bb, b in enumerate(fn.blocks):
            t = b['term']
            if t and t['k'] == 'yield':
                n += 1
                H = H or ctx.held(fn)
                here = sorted(H.held_at_term(bb))
                key = '%s|yield#%d' % (short(fn.name), sum(1 for x in out if x.fn == fn.name))
                if here:
                    out.append(bad('AW', key, 'guard of %s is live across an await' % ', '.join(here), loc=fn.loc(bb), fn=fn.name))
                else:
                    out.append(ok('AW', key, 'no guard live', loc=fn.loc(bb), fn=fn.name))
    # 9 on the pinned tree; the wrappers in Desync::{future_desync, future_sync, after} can legitimately go, the scheduler's and the pipes' cannot
    if n < 6:
        out.append(undecided('AW', 'floor', 'found %d await points, expected at least 6' % n))
    return out


TRY_AUDITED = {}  # (function, class) -> reason why a failed try_lock is harmless; empty since fix 4f2730b


def try_rule(ctx):
    """A Mutex::try_lock on an internal lock turns a transient hold into a decision about the protected state: every site must be audited."""
    out = []
    n_lock = 0
    for fn in ctx.F.crate_fns():
        for bb, t, kind, cls in lock_sites(fn):
            n_lock += 1
            if kind != 'try_lock':
                continue
            key = '%s|try_lock:%s' % (short(fn.name), cls)
            if (fn.name, cls) in TRY_AUDITED:
                out.append(ok('TRY', key, 'audited: ' + TRY_AUDITED[(fn.name, cls)], loc=fn.loc(bb), fn=fn.name))
            elif is_internal(cls):
                out.append(bad('TRY', key, 'try_lock on %s: a lock that is merely held for a moment is read as a fact about the protected value (the holder may be about to change it)' % cls, loc=fn.loc(bb), fn=fn.name))
    # handshake lock of the dormant-thread protocol must be a blocking lock
    dorm = ctx.F.fn('desync::SchedulerCore::schedule_dormant')
    if not dorm:
        out.append(undecided('TRY', 'anchor', 'SchedulerCore::schedule_dormant not found'))
    else:
        kinds = [(kind, cls) for bb, t, kind, cls in lock_sites(dorm) if cls == 'thread.busy']
        if not kinds:
            out.append(undecided('TRY', 'schedule_dormant|busy', 'schedule_dormant no longer locks thread.busy'))
        elif all(k == 'lock' for k, _ in kinds):
            out.append(ok('TRY', 'schedule_dormant|busy', 'the dormant-thread handshake takes thread.busy with a blocking lock', fn=dorm.name))
    return out


# ---------------------------------------------------------------------------------------------
def _stored_condvar(ctx, fn, e):
    """True if a condvar expression comes from storage shared with other threads: a field of an in-crate struct,
    a function parameter, or a closure parameter (element handed in by an iterator)."""
    def walk(x):
        if not isinstance(x, tuple):
            return False
        if x[0] == 'field':
            from .facts import ty_head
            if ty_head(x[3]) in ctx.F.adts:
                return True
            return walk(x[1])
        if x[0] == 'arg':
            return True
        if x[0] == 'call':
            return any(walk(a) for a in x[2])
        if x[0] in ('downcast', 'index'):
            return walk(x[1])
        return False
    return walk(e)


def _condvar_field(ctx, e):
    """(struct, field) when the condition variable expression is a named field of an in-crate struct (through Arc / clone), else None."""
    from .facts import ty_head
    x = e
    for _ in range(20):
        if not isinstance(x, tuple):
            return None
        if x[0] == 'field':
            if ty_head(x[3]) in ctx.F.adts:
                return (ty_head(x[3]), x[2])
            x = x[1]
        elif x[0] in ('downcast', 'index'):
            x = x[1]
        elif x[0] == 'call' and x[2]:
            x = x[2][0]
        else:
            return None
    return None


def cv(ctx):
    """Condition variables: a notifier that can reach a waiter changes the waiter's condition under the waiter's mutex before notifying;
    the waiter re-tests in a loop."""
    F = ctx.F
    out = []
    waits = []
    wait_fields = set()
    for fn in F.crate_fns():
        H = None
        for bb, t in fn.calls():
            name = t['func'].get('fn') or ''
            if name.startswith('std::sync::poison::condvar::Condvar::wait'):
                gl = guard_locals(fn)
                cls = None
                for a in t['args']:
                    if a['k'] == 'move' and a['pl']['l'] in gl:
                        cls = gl[a['pl']['l']]
                waits.append((fn, bb, cls))
                wait_fields.add(_condvar_field(ctx, fn.expr_of_operand(t['args'][0])))
    wait_classes = sorted(set(c for _, _, c in waits if c))
    for fn, bb, cls in waits:
        key = '%s|wait:%s' % (short(fn.name), cls)
        # CV2: the wait lies on a cycle (loop) -> condition re-tested
        succ = fn.blocks[bb]['term']['target']
        on_cycle = succ is not None and bb in fn.reachable_blocks(succ)
        if not on_cycle:
            out.append(bad('CV2', key, 'Condvar::wait is not inside a loop that re-tests its condition (spurious or early wake-ups are taken as completion)', loc=fn.loc(bb), fn=fn.name))
        else:
            out.append(ok('CV2', key, 'wait re-tested in a loop', loc=fn.loc(bb), fn=fn.name))
    # CV3: the guard handed to wait() is a hold under which the waiter has looked at its condition: on every path from the
    # acquisition of that hold to the wait there is a read through the guard.  (Test under one hold, release, lock again and
    # wait: the notifier that ran in between found nobody waiting and will not come back.)
    for fn, bb, cls in waits:
        if cls is None:
            continue
        key = '%s|wait:%s' % (short(fn.name), cls)
        H = ctx.held(fn)
        gl = guard_locals(fn)
        t = fn.blocks[bb]['term']
        sites = H.holds_before(bb, len(fn.blocks[bb]['stmts']), cls)
        arg_locals = [a['pl']['l'] for a in t['args'] if a['k'] == 'move' and a['pl']['l'] in gl]
        sites = frozenset(s_ for (l_, s_) in H.gbefore.get((bb, len(fn.blocks[bb]['stmts'])), frozenset()) if l_ in arg_locals)
        stale = []
        for site in sorted(sites, key=str):
            if site[0] == 'arg':
                continue
            if site[0] == 'c':
                start, from_idx = fn.blocks[site[1]]['term'].get('target'), 0
            else:
                start, from_idx = site[1], site[2] + 1
            if start is None:
                continue
            reads = set()
            # a read through the guard: `*g` is Deref::deref(&g) (or a direct deref of the guard in the place)
            refs = {}
            for b2, blk in enumerate(fn.blocks):
                for i2, st in enumerate(blk['stmts']):
                    if st['k'] == 'assign' and st['rv']['k'] == 'ref' and not st['pl']['p'] and not st['rv']['pl']['p'] and st['rv']['pl']['l'] in gl and gl[st['rv']['pl']['l']] == cls:
                        refs[st['pl']['l']] = st['rv']['pl']['l']
            for b2, blk in enumerate(fn.blocks):
                if blk['cleanup']:
                    continue
                n2 = len(blk['stmts'])
                for i2, st in enumerate(blk['stmts']):
                    if st['k'] != 'assign' or (b2 == start and i2 < from_idx):
                        continue
                    from .rules_lw import _places_in_rvalue
                    for pl in _places_in_rvalue(st['rv']):
                        if pl['l'] in gl and gl[pl['l']] == cls and any(p_['k'] == 'deref' for p_ in pl['p']) and site in H.holds_before(b2, i2, cls):
                            reads.add(b2)
                t2 = blk['term']
                if t2 and t2['k'] == 'call' and (t2['func'].get('fn') or '').startswith(('core::ops::deref::Deref::deref', 'core::ops::deref::DerefMut::deref_mut')) and b2 != bb:
                    a0 = t2['args'][0] if t2['args'] else None
                    if a0 and a0['k'] in ('copy', 'move') and not a0['pl']['p'] and a0['pl']['l'] in refs:
                        g_ = refs[a0['pl']['l']]
                        if site in frozenset(s_ for (l_, s_) in H.gbefore.get((b2, n2), frozenset()) if l_ == g_):
                            reads.add(b2)
            # a path from the start of the hold to the wait that meets no read under this hold
            seen, work, hit = set(), [start], False
            while work:
                x = work.pop()
                if x in seen or x in reads:
                    continue
                seen.add(x)
                if x == bb:
                    hit = True
                    break
                for lab, tgt in fn.edges(x, unwind=False):
                    if site in H.holds_before(tgt, 0, cls) or tgt == bb:
                        work.append(tgt)
            if hit:
                stale.append(site)
        if stale:
            out.append(bad('CV3', key, 'waits with a guard taken after the last test of the condition (the mutex was released and locked again between the test and the wait): a notification sent in between is lost', loc=fn.loc(bb), fn=fn.name))
        else:
            out.append(ok('CV3', key, 'every hold of the mutex that reaches the wait has read the guarded condition first (%d hold(s))' % len(sites), loc=fn.loc(bb), fn=fn.name))
    if not waits:
        out.append(undecided('CV2', 'floor', 'no Condvar::wait site found (expected 1)'))
    # notify sites
    n_notify = 0
    seen_keys = {}
    for fn in F.crate_fns():
        H = None
        for bb, t in fn.calls():
            name = t['func'].get('fn') or ''
            if not (name.endswith('Condvar::notify_one') or name.endswith('Condvar::notify_all')):
                continue
            n_notify += 1
            e = fn.expr_of_operand(t['args'][0])
            root = expr_root(e)
            # keyed by the enclosing named function: whether the notify sits in a closure, a loop or an extracted helper is not part of the identity
            base = '%s|notify' % short(fn.root or fn.name)      # notify_one / notify_all: the same instance
            seen_keys[base] = seen_keys.get(base, 0) + 1
            key = base if seen_keys[base] == 1 else '%s#%d' % (base, seen_keys[base])
            stored = _stored_condvar(ctx, fn, e)
            cf = _condvar_field(ctx, e)
            if stored and cf is not None and cf not in wait_fields and None not in wait_fields:
                out.append(ok('CV1', key, 'the condition variable is the field %s.%s, which no function of the crate ever waits on: no waiter to lose a wake-up' % (short(cf[0]), cf[1]), loc=fn.loc(bb), fn=fn.name))
                continue
            if not stored:
                # upvar / local: look at the creating function for a waiter
                rootfn = F.fn(fn.root) if fn.root else fn
                has_wait = any(w[0].root == (rootfn.name if rootfn else None) or w[0].name == (rootfn.name if rootfn else None) for w in waits)
                if not has_wait:
                    out.append(ok('CV1', key, 'condition variable created and used only in %s, which never waits on it: no waiter to lose a wake-up' % short(fn.root or fn.name), loc=fn.loc(bb), fn=fn.name))
                    continue
            H = ctx.held(fn)
            dom = fn.dominators()
            good = None
            # a critical section of a waiter's mutex class, containing a write through the guard, that dominates (or encloses) the notify
            gl = H.guards
            for l, cls in gl.items():
                if cls not in wait_classes:
                    continue
                for b2, blk in enumerate(fn.blocks):
                    if b2 not in dom.get(bb, set()):
                        continue
                    for si, s in enumerate(blk['stmts']):
                        if s['k'] == 'assign' and s['pl']['p'] and l in H.before.get((b2, si), frozenset()):
                            ee = fn.expr_of_place(s['pl'])
                            # a write through the guard `l`
                            base = fn.expr_of_local(s['pl']['l'])
                            if ('var', l, fn.local_name(l)) == base or base == fn.expr_of_local(l):
                                good = '%s written under %s (%s) before the notify' % (render(ee), cls, fn.loc(b2, si))
            if good:
                out.append(ok('CV1', key, good, loc=fn.loc(bb), fn=fn.name))
            else:
                held_here = sorted(H.held_at_term(bb))
                out.append(bad('CV1', key, 'notifies a waiter (waiter mutex: %s) without first changing the waiter\'s condition under that mutex (held here: %s): a waiter that has tested its condition but not yet called wait() misses this wake-up' % (', '.join(wait_classes) or '?', ', '.join(held_here) or 'nothing'), loc=fn.loc(bb), fn=fn.name))
    if n_notify < 3:
        out.append(undecided('CV1', 'floor', 'found %d notify sites, expected at least 3' % n_notify))
    return out
