#!/bin/bash
# For a two-site seed: each half alone must build and leave the demonstration passing.  usage: confirm_halves.sh Cxx <out base>
set -u
ID=$1
SRC=${2:-/tmp/seed-out}/$ID
for H in a b; do
  W=/tmp/confirm/half-$(basename ${2:-seed-out})-$ID-$H
  rm -rf $W; mkdir -p /tmp/confirm
  git -C /repo worktree remove --force $W >/dev/null 2>&1
  git -C /repo worktree add --detach $W HEAD >/dev/null 2>&1 || exit 3
  export CARGO_TARGET_DIR=$W/target CARGO_NET_OFFLINE=true
  cd $W
  for f in $SRC/*.rs; do cp $f tests/; done
  demos=$(cd $SRC; ls *.rs | sed 's/\.rs$//' | sed 's/^/--test /' | tr '\n' ' ')
  if ! git apply $SRC/half_$H.diff 2>/dev/null; then echo "half_$H: patch does not apply"; cd /; git -C /repo worktree remove --force $W >/dev/null 2>&1; rm -rf $W; continue; fi
  R=$(timeout 900 cargo nextest run --offline --no-fail-fast $demos 2>&1 | grep -E "^\s+Summary" | tail -1)
  echo "half_$H alone: demo $R"
  cd /; git -C /repo worktree remove --force $W >/dev/null 2>&1; rm -rf $W
done
