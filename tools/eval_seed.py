#!/usr/bin/env python3
"""Run every property check against a tree = /repo + one patch. Usage: eval_seed.py <patch> [<patch>...]"""
import json
import os
import sys

VERIF = os.path.dirname(os.path.dirname(os.path.abspath(__file__)))
sys.path.insert(0, VERIF)
from dsa import selfcheck, props  # noqa

known = json.load(open(os.path.join(VERIF, 'known_findings.json')))
kset = set((k['property'], k['rule'], k['key']) for k in known['findings'])
for patch in sys.argv[1:]:
    m = {'patch': os.path.abspath(patch)}
    r = selfcheck.run_mutant(m, '/repo', sorted(props.PROPS), want=('violation', 'undecided') if os.environ.get('UNDECIDED') else ('violation',))
    name = patch
    if r['status'] != 'ran':
        print('%-40s %s %s' % (name, r['status'], r.get('why', '')[:300]))
        continue
    hits = {}
    for p, v in r['violations'].items():
        v2 = [x for x in v if (p, x['rule'], x['key']) not in kset]
        if v2:
            hits[p] = v2
    print('%-40s %s' % (name, ', '.join('%s[%s]' % (p, ','.join(sorted(set(x['rule'] for x in v)))) for p, v in sorted(hits.items())) or 'NOT DETECTED'))
    if os.environ.get('VERBOSE'):
        seen = set()
        for p, v in sorted(hits.items()):
            for x in v:
                if (x['rule'], x['key']) in seen:
                    continue
                seen.add((x['rule'], x['key']))
                print('      ', p, x.get('verdict'), x['rule'], x['key'])
