#!/usr/bin/env python3
"""Regenerates /verif/MANIFEST.json from dsa/props.py (single source of truth for what each check claims)."""
import json
import os
import sys

VERIF = os.path.dirname(os.path.dirname(os.path.abspath(__file__)))
sys.path.insert(0, VERIF)
from dsa import props  # noqa

ALL = ['C%02d' % i for i in range(1, 18)]

NA_REASONS = getattr(props, 'NOT_APPLICABLE', {})

checks = []
for pid in ALL:
    if pid not in props.PROPS:
        continue
    spec = props.PROPS[pid]
    checks.append({
        'property_id': pid,
        'quick_cmd': './check %s --tier quick' % pid,
        'thorough_cmd': './check %s --tier thorough' % pid,
        'evidence_file': '/verif/evidence/%s.json' % pid,
        'replay_cmd_template': './check %s --explain {path}' % pid,
        'engine': 'dsa',
        'level_claimed': {
            'category': 'other',
            'text': 'static structural rules (necessary conditions) decided on the type-checked program for all schedules at once; clauses decided: '
                    + '; '.join(spec['decided']) + '. The behaviour as a whole is NOT decided: ' + '; '.join(spec['not_decided']) + '.',
            'design_ref': 'DESIGN.md §5 ' + pid,
        },
        'level_note': 'trusted base: ' + '; '.join(props.ASSUMPTIONS + spec.get('assumptions', [])),
        'technique': spec.get('technique', 'static analysis: custom rules over rustc built MIR (dataflow / typestate / dominance / call graph)'),
    })

na = []
for pid in ALL:
    if pid not in props.PROPS:
        na.append({'property_id': pid, 'reason': NA_REASONS.get(pid, 'no static rule of this framework covers a clause of this property yet')})

man = {
    'version': 1,
    'setup_cmd': './setup.sh',
    'hooks': {
        'guard': 'desync_verif',
        'enable': 'none needed: the analysis reads the unmodified source through a rustc driver (RUSTC_WORKSPACE_WRAPPER under cargo +nightly check); the guard name is reserved and unused',
        'baseline_off_cmd': 'cd /repo && cargo nextest run --workspace --no-fail-fast --test-threads 8 --offline',
        'source_commits': [],
        'add_only': True,
    },
    'engines': [{
        'name': 'dsa',
        'path': '/verif/dsa',
        'serves_properties': [c['property_id'] for c in checks],
        'kind_free_text': 'rustc_private fact extractor (/verif/driver) + Python rule engine over built MIR: lock regions, state-machine abstract interpretation, '
                          'ownership-token typestate, protocol counting abstraction, lock-order / foreign-code-under-lock, lost-wakeup slot rules, ordering (dominance) rules, unsafe audit; '
                          'compile_fail witnesses (/verif/witness) for type-level clauses',
    }],
    'checks': checks,
    'not_applicable': na,
    'notes': 'exit 0 = held (known findings printed as KNOWN-FINDING), exit 1 = VIOLATION line(s), exit 2 = UNDECIDED (build failed / anchor missing / floor not met): never reported as a violation. '
             'Repository fixes: see known_findings.json ("fixed" records).',
}
with open(os.path.join(VERIF, 'MANIFEST.json'), 'w') as f:
    json.dump(man, f, indent=1)
print('wrote MANIFEST.json: %d checks, %d not_applicable' % (len(checks), len(na)))
