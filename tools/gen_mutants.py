#!/usr/bin/env python3
"""Regenerates the checker self-validation corpus (mutants/*.patch + mutants/index.json) from edit descriptions.

Each mutant is one realistic edit to /repo (textual old -> new in one file).  The patches are produced with `diff -u` against the
current /repo working tree, so re-run this after /repo changes.  The 'unfix-*' patches (reverse of the fix: commits) are kept as they are.
"""
import json
import os
import subprocess
import sys
import tempfile

VERIF = os.path.dirname(os.path.dirname(os.path.abspath(__file__)))
MUT = os.path.join(VERIF, 'mutants')
REPO = '/repo'

DS = 'src/scheduler/desync_scheduler.rs'
CORE = 'src/scheduler/core.rs'
JQ = 'src/scheduler/job_queue.rs'
SF = 'src/scheduler/scheduler_future.rs'
SYF = 'src/scheduler/sync_future.rs'
WQ = 'src/scheduler/wake_queue.rs'
WT = 'src/scheduler/wake_thread.rs'
PIPE = 'src/pipe.rs'
DESYNC = 'src/desync.rs'
UJ = 'src/scheduler/unsafe_job.rs'
AQ = 'src/scheduler/active_queue.rs'

M = []


def mut(name, what, file, old, new, expect, count=1):
    M.append({'name': name, 'what': what, 'file': file, 'old': old, 'new': new, 'expect': expect, 'count': count})


def E(**kw):
    out = {}
    for pid, v in kw.items():
        out[pid] = {'rules': [v] if isinstance(v, str) else list(v)}
    return out


# ---- state machine / token -------------------------------------------------------------------------------------------------
mut('sync-awoken-drains', 'sync treats AwokenWhileRunning as drainable (second runner)', DS,
    "                QueueState::AwokenWhileRunning  => RunAction::WaitForBackground,\n                QueueState::Panicked            => RunAction::Panic,\n                QueueState::Pending             => { core.state = QueueState::Running; RunAction::DrainOnThisThread },\n                QueueState::Idle                => { \n                    core.state = QueueState::Running;\n                    if core.queue.len() == 0 {\n                        RunAction::Immediate \n                    } else {\n                        RunAction::DrainOnThisThread\n                    } \n                }\n            }\n        };\n\n        match run_action {\n            RunAction::Immediate            => self.sync_immediate(queue, job),",
    "                QueueState::AwokenWhileRunning  => { core.state = QueueState::Running; RunAction::DrainOnThisThread },\n                QueueState::Panicked            => RunAction::Panic,\n                QueueState::Pending             => { core.state = QueueState::Running; RunAction::DrainOnThisThread },\n                QueueState::Idle                => { \n                    core.state = QueueState::Running;\n                    if core.queue.len() == 0 {\n                        RunAction::Immediate \n                    } else {\n                        RunAction::DrainOnThisThread\n                    } \n                }\n            }\n        };\n\n        match run_action {\n            RunAction::Immediate            => self.sync_immediate(queue, job),",
    E(C01=['TOK-exec', 'PA-excl', 'PA-stuck'], C04=['TR-defer', 'TOK-exec']))

mut('claim-accepts-waitingforwake-running', 'claim_pending_queue also claims a Running queue', CORE,
    "            QueueState::Pending |\n            QueueState::Idle    => {\n                // Move the queue to the running state",
    "            QueueState::Pending |\n            QueueState::Running |\n            QueueState::Idle    => {\n                // Move the queue to the running state",
    E(C01=['PA-excl', 'TOK-exec', 'PA-stuck']))

mut('next_to_run-accepts-running', 'next_to_run hands out a queue that is already Running', CORE,
    "                QueueState::Pending |\n                QueueState::WaitingForPoll(_) => {\n                    // Queue is ready to run. Mark it as running and return it",
    "                QueueState::Pending |\n                QueueState::Running |\n                QueueState::WaitingForPoll(_) => {\n                    // Queue is ready to run. Mark it as running and return it",
    E(C01=['PA-excl', 'TOK-exec', 'PA-stuck']))

mut('wakequeue-running-to-idle', 'WakeQueue maps Running to Idle (a second runner can claim)', WQ,
    "                QueueState::Running             => queue_core.state = QueueState::AwokenWhileRunning,",
    "                QueueState::Running             => queue_core.state = QueueState::Idle,",
    E(C01=['PA-excl', 'PA-stuck'], C06=['TR-sibling', 'PA-wake']))

mut('wakethread-drop-unpark-arm', 'WakeThread no longer resumes WaitingForUnpark', WT,
    "                QueueState::WaitingForUnpark    => queue_core.state = QueueState::Running,\n",
    "",
    E(C06=['PA-wake']))

mut('wakethread-no-unpark', 'WakeThread changes the state but never unparks the thread', WT,
    "        // Wake the thread\n        thread.unpark();",
    "        // Wake the thread\n        let _ = thread;",
    E(C06=['PARK-wake']))

mut('wakequeue-no-reschedule', 'WakeQueue changes the state but never reschedules', WQ,
    "        // Cause the core to reschedule its events\n        core.reschedule_queue(queue, Arc::clone(core));",
    "        // Cause the core to reschedule its events\n        let _ = core;",
    E(C06=['PARK-wake'], C03=['PARK-wake']))

mut('sync_immediate-no-reschedule', 'sync_immediate forgets to reschedule after going Idle', DS,
    "        queue.core.lock().expect(\"JobQueue core lock\").state = QueueState::Idle;\n\n        // Not running any more\n        self.reschedule_queue(queue);\n\n        result",
    "        queue.core.lock().expect(\"JobQueue core lock\").state = QueueState::Idle;\n\n        result",
    E(C03=['TOK-resched'], C09=['TOK-resched']))

mut('drain_queue-no-reschedule', 'drain_queue final release without reschedule', SF,
    "        self.queue.core.lock().expect(\"JobQueue core lock\").state = QueueState::Idle;\n        self.scheduler.core.reschedule_queue(&self.queue, Arc::clone(&self.scheduler.core));\n\n        // Result must be available by this point",
    "        self.queue.core.lock().expect(\"JobQueue core lock\").state = QueueState::Idle;\n\n        // Result must be available by this point",
    E(C03=['TOK-resched']))

mut('drain-idle-without-empty-test', 'drain releases to Idle even when jobs are queued', JQ,
    "                if core.queue.len() == 0 {\n                    if core.state.is_running() {\n                        core.state = QueueState::Idle;\n                    }\n                    done = true;",
    "                if core.queue.len() <= 1 {\n                    if core.state.is_running() {\n                        core.state = QueueState::Idle;\n                    }\n                    done = true;",
    E(C03=['TOK-resched']))

mut('reschedule-body-skips-nonempty', 'reschedule_queue leaves an Idle queue with one job unscheduled', CORE,
    "                    if core.queue.len() > 0 {\n                        // Need to schedule the queue after this event",
    "                    if core.queue.len() > 1 {\n                        // Need to schedule the queue after this event",
    E(C03=['TOK-resched-body']))

mut('schedule_job-thread-before-push', 'schedule_thread is asked before the queue is on the schedule', DS,
    "                // Add the queue to the schedule\n                self.core.schedule.lock().expect(\"Schedule lock\").push_back(queue.clone());\n\n                // Wake up a thread to run it if we can\n                self.schedule_thread();",
    "                // Wake up a thread to run it if we can\n                self.schedule_thread();\n\n                // Add the queue to the schedule\n                self.core.schedule.lock().expect(\"Schedule lock\").push_back(queue.clone());",
    E(C03=['TOK-pending']))

mut('reschedule-no-schedule_thread', 'reschedule_queue pushes but asks no thread', CORE,
    "            self.schedule.lock().expect(\"Schedule lock\").push_back(queue.clone());\n            self.schedule_thread(core);",
    "            self.schedule.lock().expect(\"Schedule lock\").push_back(queue.clone());\n            let _ = core;",
    E(C03=['TOK-pending']))

mut('drain-drop-requeue', 'drain parks the queue without putting the suspended job back', JQ,
    "                        // Job needs requeuing\n                        self.requeue(job);\n\n                        // Queue should move from the 'running' state to the 'waiting for wake' state",
    "                        // Queue should move from the 'running' state to the 'waiting for wake' state",
    E(C01=['TOK-requeue'], C03=['TOK-requeue'], C02=['TOK-requeue']))

mut('requeue-push_back', 'a suspended job is put back at the back of the queue', JQ,
    "        core.queue.push_front(job);",
    "        core.queue.push_back(job);",
    E(C02=['QD-queue'], C01=['QD-queue']))

mut('dequeue-ignores-waitingforwake', 'dequeue hands out jobs while the queue is parked (WaitingForWake)', JQ,
    "            QueueState::WaitingForWake      => None,\n            QueueState::WaitingForPoll(_)   => None,",
    "            QueueState::WaitingForPoll(_)   => None,",
    E(C01=['QD-queue']))

mut('schedule_job-push_front', 'new jobs are queued at the front', DS,
    "            // Push the job onto the queue\n            core.queue.push_back(job);",
    "            // Push the job onto the queue\n            core.queue.push_front(job);",
    E(C02=['QD-queue']))

mut('future_desync-schedule-in-future', 'future_desync schedules lazily, inside the returned future', DS,
    "        // Schedule the job\n        self.schedule_job_desync(queue, Box::new(perform_job));\n\n        // Receive channel will be notified when the job is completed\n        receive",
    "        // Schedule the job\n        if queue.core.lock().unwrap().queue.len() < usize::MAX { self.schedule_job_desync(queue, Box::new(perform_job)); return receive; }\n\n        // Receive channel will be notified when the job is completed\n        receive",
    E(), )  # placeholder (kept out of the index when expect is empty)

mut('sync-pending-waits', 'sync treats Pending as WaitForBackground (nobody obliged to run the queue with no pool)', DS,
    "                QueueState::Pending             => { core.state = QueueState::Running; RunAction::DrainOnThisThread },\n                QueueState::Idle                => { \n                    core.state = QueueState::Running;\n                    if core.queue.len() == 0 {\n                        RunAction::Immediate \n                    } else {\n                        RunAction::DrainOnThisThread\n                    } \n                }\n            }\n        };\n\n        match run_action {\n            RunAction::Immediate            => self.sync_immediate(queue, job),",
    "                QueueState::Pending             => RunAction::WaitForBackground,\n                QueueState::Idle                => { \n                    core.state = QueueState::Running;\n                    if core.queue.len() == 0 {\n                        RunAction::Immediate \n                    } else {\n                        RunAction::DrainOnThisThread\n                    } \n                }\n            }\n        };\n\n        match run_action {\n            RunAction::Immediate            => self.sync_immediate(queue, job),",
    E(C04=['TR-defer'], C02=['TR-sibling']))

mut('poll-pending-waits', 'SchedulerFuture::poll waits on a Pending queue instead of draining it', SF,
    "                        QueueState::Pending                     => { core.state = QueueState::Running; SchedulerAction::DrainQueue },",
    "                        QueueState::Pending                     => SchedulerAction::WaitForCompletion,",
    E(C07=['TR-defer']))

mut('sync_no_panic-differs', 'sync_no_panic drains a queue in WaitingForWake (diverges from sync)', DS,
    "                QueueState::WaitingForWake      => RunAction::WaitForBackground,\n                QueueState::WaitingForUnpark    => RunAction::WaitForBackground,\n                QueueState::WaitingForPoll(_)   => RunAction::WaitForBackground,\n                QueueState::AwokenWhileRunning  => RunAction::WaitForBackground,\n                QueueState::Panicked            => RunAction::Panic,\n                QueueState::Pending             => { core.state = QueueState::Running; RunAction::DrainOnThisThread },\n                QueueState::Idle                => { \n                    core.state = QueueState::Running;\n                    if core.queue.len() == 0 {\n                        RunAction::Immediate \n                    } else {\n                        RunAction::DrainOnThisThread\n                    } \n                }\n            }\n        };\n\n        match run_action {\n            RunAction::Immediate            => { self.sync_immediate(queue, job); false },",
    "                QueueState::WaitingForWake      => { core.state = QueueState::Running; RunAction::DrainOnThisThread },\n                QueueState::WaitingForUnpark    => RunAction::WaitForBackground,\n                QueueState::WaitingForPoll(_)   => RunAction::WaitForBackground,\n                QueueState::AwokenWhileRunning  => RunAction::WaitForBackground,\n                QueueState::Panicked            => RunAction::Panic,\n                QueueState::Pending             => { core.state = QueueState::Running; RunAction::DrainOnThisThread },\n                QueueState::Idle                => { \n                    core.state = QueueState::Running;\n                    if core.queue.len() == 0 {\n                        RunAction::Immediate \n                    } else {\n                        RunAction::DrainOnThisThread\n                    } \n                }\n            }\n        };\n\n        match run_action {\n            RunAction::Immediate            => { self.sync_immediate(queue, job); false },",
    E(C02=['TR-sibling']))

# ---- panics ------------------------------------------------------------------------------------------------------------------
mut('wakequeue-revives-panicked', 'WakeQueue moves a Panicked queue back to Idle', WQ,
    "                QueueState::WaitingForWake      => queue_core.state = QueueState::Idle,\n                QueueState::Running             => queue_core.state = QueueState::AwokenWhileRunning,",
    "                QueueState::WaitingForWake      => queue_core.state = QueueState::Idle,\n                QueueState::Panicked            => queue_core.state = QueueState::Idle,\n                QueueState::Running             => queue_core.state = QueueState::AwokenWhileRunning,",
    E(C15=['TR-dead']))

mut('schedule_job-panicked-silent', 'scheduling on a panicked queue is silently accepted', DS,
    "                QueueState::Panicked => ScheduleState::Panicked,\n",
    "                QueueState::Panicked => ScheduleState::Running,\n",
    E(C15=['ORD-C15-refuse']))

mut('try_sync-panicked-busy', 'try_sync reports Busy on a panicked queue', DS,
    "                QueueState::Panicked            => RunAction::Panic,\n                QueueState::Pending             => RunAction::Busy,",
    "                QueueState::Panicked            => RunAction::Busy,\n                QueueState::Pending             => RunAction::Busy,",
    E(C15=['ORD-C15-refuse']))

mut('activequeue-always-marks', 'ActiveQueue::drop marks the queue Panicked even when not panicking', AQ,
    "        if thread::panicking() {",
    "        if thread::panicking() || true {",
    E(C15=['AQ-drop', 'TR-dead', 'TOK-guard']))

mut('drain-no-activequeue', 'drain runs jobs without the ActiveQueue guard', JQ,
    "        let _active = ActiveQueue { queue: self };\n\n        debug_assert!(self.core.lock().unwrap().state.is_running());\n        let mut done = false;",
    "        debug_assert!(self.core.lock().unwrap().state.is_running());\n        let mut done = false;",
    E(C15=['TOK-guard']))

mut('dormant-no-reap', 'schedule_dormant no longer reaps finished threads', CORE,
    "        // Try to despawn any threads that have finished since the last time we were called\n        self.remove_finished_threads();\n",
    "",
    E(C15=['ORD-C15-reap']))

mut('drop-always-sync', 'Desync::drop uses the panicking sync even while unwinding', DESYNC,
    "        if thread::panicking() {",
    "        if thread::panicking() && false {",
    E(C15=['ORD-C15-refuse']))

# ---- locks -------------------------------------------------------------------------------------------------------------------
mut('claim-lock-order-swap', 'claim_pending_queue takes the queue core before the schedule', CORE,
    "        // Lock the schedule first\n        let mut schedule    = self.schedule.lock().expect(\"Schedule lock\");\n\n        // Now claim the queue\n        let mut queue_core  = queue.core.lock().expect(\"Queue lock\");",
    "        // Now claim the queue\n        let mut queue_core  = queue.core.lock().expect(\"Queue lock\");\n\n        // Lock the schedule\n        let mut schedule    = self.schedule.lock().expect(\"Schedule lock\");",
    E(C04=['LO'], C10=['LO']))

mut('signal-wake-under-lock', 'the awaiting task is woken while SchedulerFuture.result is locked', SF,
    "            // Set the result\n            future_result.result = FutureResultState::Some(Ok(result));\n\n            // Retrieve the waker\n            future_result.waker.take()\n        };\n\n        // If we retrieved a waker from the result, wake it up\n        waker.map(|waker| waker.wake());",
    "            // Set the result\n            future_result.result = FutureResultState::Some(Ok(result));\n\n            // Retrieve the waker\n            let waker = future_result.waker.take();\n            waker.map(|waker| waker.wake());\n        };",
    E(C04=['BL'], C10=['BL']))

mut('dormant-run-job-under-busy', 'the pool thread runs jobs while holding its busy lock', CORE,
    "                            let job_data = {\n                                let mut busy = also_busy.lock().expect(\"Thread busy lock\");\n                                let job_data = next_job();\n\n                                // If there's no next job, then this thread is no longer busy\n                                if job_data.is_none() {\n                                    *busy = false;\n                                }\n\n                                job_data\n                            };\n\n                            // Run the job if there is one, stop the thread if there is not\n                            if let Some(job_data) = job_data {\n                                job(job_data);\n                            } else {\n                                done = true;\n                            }",
    "                            let mut busy = also_busy.lock().expect(\"Thread busy lock\");\n                            let job_data = next_job();\n\n                            // If there's no next job, then this thread is no longer busy\n                            if job_data.is_none() {\n                                *busy = false;\n                            }\n\n                            // Run the job if there is one, stop the thread if there is not\n                            if let Some(job_data) = job_data {\n                                job(job_data);\n                            } else {\n                                done = true;\n                            }",
    E(C10=['BL', 'ORD-C03-dormant'], C03=['ORD-C03-dormant']))

mut('dormant-busy-false-outside-region', 'the pool thread clears busy after releasing the busy lock', CORE,
    "                                // If there's no next job, then this thread is no longer busy\n                                if job_data.is_none() {\n                                    *busy = false;\n                                }\n\n                                job_data\n                            };",
    "                                job_data\n                            };\n\n                            // If there's no next job, then this thread is no longer busy\n                            if job_data.is_none() {\n                                *also_busy.lock().expect(\"Thread busy lock\") = false;\n                            }",
    E(C03=['ORD-C03-dormant'], C10=['ORD-C03-dormant']))

mut('despawn-join-under-lock', 'despawn joins the threads while the thread table is locked', DS,
    "            while threads.len() > max_threads {\n                to_despawn.push(threads.pop().expect(\"Missing threads\").1.despawn());\n            }",
    "            while threads.len() > max_threads {\n                to_despawn.push(threads.pop().expect(\"Missing threads\").1.despawn());\n            }\n            while let Some(handle) = to_despawn.pop() { handle.join().ok(); }",
    E(C17=['BL', 'ORD-C17']))

mut('pipe-wake-consumer-under-lock', 'the pipe wakes the consumer while holding the stream core lock', PIPE,
    "                                stream_core.pending.push_back(next_item);\n                                stream_core.notify.take()\n                            };\n                            notify.map(|notify| notify.wake());",
    "                                stream_core.pending.push_back(next_item);\n                                let notify = stream_core.notify.take();\n                                notify.map(|notify| notify.wake());\n                            };",
    E(C12=['BL']))

# ---- condvar / waiter ---------------------------------------------------------------------------------------------------------
mut('unsafejob-notify-before-flag', 'UnsafeJob::drop notifies before setting the finished flag', UJ,
    "            (*is_finished.lock().unwrap()) = true;\n            on_finish.notify_all();",
    "            on_finish.notify_all();\n            (*is_finished.lock().unwrap()) = true;",
    E(C04=['CV1']))

mut('sync_background-wait-if', 'sync_background waits once instead of in a loop', DS,
    "            while !*ready {\n                // Use the condition variable to wait for the wakeup",
    "            if !*ready {\n                // Use the condition variable to wait for the wakeup",
    E(C04=['CV2', 'UA-wait'], C14=['UA-wait']))

mut('sync_background-no-claim', 'the blocked caller never tries to run the queue itself', DS,
    "                    if self.core.claim_pending_queue(queue) {",
    "                    if false && self.core.claim_pending_queue(queue) {",
    E(C04=['ORD-C04-steal']))

mut('sync_drain-default-result', 'sync_drain loop exits without the job having stored its result', DS,
    "        while result.0.lock().expect(\"Sync queue result lock\").is_none() {\n            match JobQueue::run_one_job_now(queue) {\n                JobStatus::Finished | JobStatus::NoJobsWaiting => { },\n            }\n        }",
    "        if result.0.lock().expect(\"Sync queue result lock\").is_none() {\n            match JobQueue::run_one_job_now(queue) {\n                JobStatus::Finished | JobStatus::NoJobsWaiting => { },\n            }\n        }",
    E(C14=['UA-wait'], C04=['UA-wait']))

# ---- waker slots -----------------------------------------------------------------------------------------------------------------
mut('poll-store-waker-after-unlock', 'SchedulerFuture::poll stores its waker in a second critical section', SF,
    "                    SchedulerAction::WaitForCompletion  |\n                    SchedulerAction::ReturnValue(_)     |\n                    SchedulerAction::Panic              => { future_result.waker = Some(context.waker().clone()); }\n                }\n\n                run_action\n            }\n        };",
    "                    SchedulerAction::WaitForCompletion  |\n                    SchedulerAction::ReturnValue(_)     |\n                    SchedulerAction::Panic              => { }\n                }\n\n                run_action\n            }\n        };\n        if let SchedulerAction::WaitForCompletion = &next_action { self.result.lock().expect(\"Scheduler future result\").waker = Some(context.waker().clone()); }",
    E(C07=['LW1']))

mut('signal-no-take', 'signal sets the result but leaves the waker in its slot', SF,
    "            // Retrieve the waker\n            future_result.waker.take()\n        };\n\n        // If we retrieved a waker from the result, wake it up\n        waker.map(|waker| waker.wake());",
    "            // Retrieve the waker\n            future_result.waker.as_ref().map(|_| ())\n        };\n\n        // If we retrieved a waker from the result, wake it up\n        let _ = waker;",
    E(C07=['LW2']))

mut('pipe-push-no-notify', 'the producer pushes an output without taking the consumer waker', PIPE,
    "                                stream_core.pending.push_back(next_item);\n                                stream_core.notify.take()\n                            };\n                            notify.map(|notify| notify.wake());",
    "                                stream_core.pending.push_back(next_item);\n                            };",
    E(C12=['LW2']))

mut('poll_next-no-backpressure-release', 'the consumer pops an item without releasing the throttled producer', PIPE,
    "                // Value waiting at the start of the stream\n                let notify_backpressure = core.backpressure_release_notify.take();\n\n                (Poll::Ready(Some(item)), notify_backpressure)",
    "                // Value waiting at the start of the stream\n                (Poll::Ready(Some(item)), None)",
    E(C12=['LW2']))

mut('pipestream-drop-no-wake', 'dropping the output stream no longer wakes the producer', PIPE,
    "        // Wake the stream to finish closing it\n        core.notify_stream_closed.take().map(|notify_stream_closed| notify_stream_closed.wake());\n",
    "",
    E(C16=['LW2']))

mut('pipe-backpressure-blind', 'the producer registers for back-pressure release without looking at the buffer', PIPE,
    "                    if stream_core.pending.len() >= stream_core.max_pipe_depth {\n                        // Wake when the stream accepts some input\n                        stream_core.backpressure_release_notify = Some(desync_waker.clone());\n\n                        // Go back to sleep without reading from the stream\n                        return true;\n                    }\n\n                    // If the core is closed, finish up\n                    stream_core.closed\n                };",
    "                    let full = stream_core.pending.len() >= stream_core.max_pipe_depth;\n                    let closed = stream_core.closed;\n                    (full, closed)\n                };\n                let (full, is_closed) = is_closed;\n                if full {\n                    stream_core.lock().unwrap().backpressure_release_notify = Some(desync_waker.clone());\n                    return true;\n                }",
    E(C12=['LW1']))

# ---- ordering / futures ---------------------------------------------------------------------------------------------------------
mut('future_sync-signal-before-await', 'the future_sync slot job signals completion before the user future finished', DS,
    "                // Wait for the job to complete (if cancelled, the SyncFuture was dropped, which means it's safe to continue)\n                done_recv.await.ok();\n                send.signal(());",
    "                // Wait for the job to complete (if cancelled, the SyncFuture was dropped, which means it's safe to continue)\n                send.signal(());\n                done_recv.await.ok();",
    E(C08=['ORD-C08', 'ORD-C07-signal']))

mut('future_sync-cancel-skips-signal', 'a cancelled future_sync never releases its slot', DS,
    "                done_recv.await.ok();\n                send.signal(());",
    "                if done_recv.await.is_ok() { send.signal(()); }",
    E(C08=['ORD-C08', 'ORD-C07-signal']))

mut('syncfuture-create-on-pending', 'SyncFuture creates the user future before the queue reached its slot', SYF,
    "                            Poll::Pending => {\n                                // Waiting for the queue to start this future\n                                result = Poll::Pending;\n                                WaitingForQueue(recv, create_future)\n                            }",
    "                            Poll::Pending => {\n                                // Waiting for the queue to start this future\n                                result = Poll::Pending;\n                                retry = true;\n                                WaitingForFuture(create_future())\n                            }",
    E(C08=['ORD-C08'], C01=['ORD-C08']))

mut('syncfuture-early-finished', 'SyncFuture reports task-finished while the user future is still pending', SYF,
    "                    } else {\n                        // Future is still running\n                        result = Poll::Pending;\n                        WaitingForFuture(future)\n                    }",
    "                    } else {\n                        // Future is still running\n                        result = Poll::Pending;\n                        self.task_finished.take().map(|finished| finished.send(()));\n                        WaitingForFuture(future)\n                    }",
    E(C08=['ORD-C08']))

mut('syncfuture-result-before-scheduler', 'SyncFuture returns its value without waiting for the slot job', SYF,
    "                    if let Poll::Ready(_) = self.scheduler_future.poll_unpin(context) {\n                        result = Poll::Ready(Ok(*future_result));\n                        Completed\n                    } else {\n                        result = Poll::Pending;\n                        WaitingForScheduler(future_result)\n                    }",
    "                    let _ = self.scheduler_future.poll_unpin(context);\n                    result = Poll::Ready(Ok(*future_result));\n                    Completed",
    E(C08=['ORD-C08']))

mut('future_desync-signal-dropped', 'future_desync forgets to signal its result', DS,
    "                // Send to the channel\n                send.signal(val);\n            }\n        });\n\n        // Schedule the job\n        self.schedule_job_desync(queue, Box::new(perform_job));",
    "                // Send to the channel\n                let _ = (send, val);\n            }\n        });\n\n        // Schedule the job\n        self.schedule_job_desync(queue, Box::new(perform_job));",
    E(C07=['ORD-C07-signal']))

mut('suspend-wrong-channel', 'suspend waits on a channel nobody can resume', DS,
    "            // Wait for the queue to resume\n            wait_for_resume\n        }).detach();",
    "            // Wait for the queue to resume\n            let (_other, other_wait) = oneshot::channel::<()>();\n            let _ = wait_for_resume;\n            other_wait\n        }).detach();",
    E(C13=['ORD-C13']))

# ---- pipes -------------------------------------------------------------------------------------------------------------------------
mut('pipe_in-strong-target', 'pipe_in keeps the Desync alive through its processing closure', PIPE,
    "    let stream      = Arc::new(Mutex::new(stream));\n    let process     = Arc::new(Mutex::new(process));\n\n    // The context is used to trigger polling of the stream\n    let context     = PipeContext::new(&desync, move |core, desync_waker| {\n        let process = Arc::clone(&process);\n        let stream  = Arc::clone(&stream);",
    "    let stream      = Arc::new(Mutex::new(stream));\n    let process     = Arc::new(Mutex::new(process));\n    let keep_alive  = Arc::clone(&desync);\n\n    // The context is used to trigger polling of the stream\n    let context     = PipeContext::new(&desync, move |core, desync_waker| {\n        let _keep_alive = &keep_alive;\n        let process = Arc::clone(&process);\n        let stream  = Arc::clone(&stream);",
    E(C11=['ORD-C05-weak'], C05=['ORD-C05-weak']))

mut('pipe_in-pending-stops', 'pipe_in stops for good when the stream is merely pending', PIPE,
    "                    // Wait for notification when the stream goes pending\n                    Poll::Pending       => return true,\n\n                    // Stop polling when the stream stops generating new events\n                    Poll::Ready(None)   => return false,\n\n                    // Invoke the callback when there's some data on the stream\n                    Poll::Ready(Some(next)) => {\n                        let process_future = (&mut *process.lock().unwrap())(core, next);\n                        process_future.await;",
    "                    // Wait for notification when the stream goes pending\n                    Poll::Pending       => return false,\n\n                    // Stop polling when the stream stops generating new events\n                    Poll::Ready(None)   => return false,\n\n                    // Invoke the callback when there's some data on the stream\n                    Poll::Ready(Some(next)) => {\n                        let process_future = (&mut *process.lock().unwrap())(core, next);\n                        process_future.await;",
    E(C11=['ORD-C11']))

mut('pipecontext-keep-pollfn', 'a finished pipe keeps its poll function', PIPE,
    "                        if !keep_polling {\n                            // Deallocate the function when it's time to stop polling altogether\n                            (*arc_self.poll_fn.lock().unwrap()) = None;\n                        }",
    "                        let _ = keep_polling;",
    E(C11=['ORD-C11'], C16=['ORD-C11']))

mut('pipe-closed-on-pending', 'pipe marks the output closed when the input is only pending', PIPE,
    "                            stream_core.notify_stream_closed = Some(desync_waker.clone());\n                            return true",
    "                            stream_core.notify_stream_closed = Some(desync_waker.clone());\n                            stream_core.closed = true;\n                            return true",
    E(C12=['ORD-C12']))

mut('poll_next-end-while-buffered', 'the consumer reports end of stream as soon as closed is set', PIPE,
    "            if let Some(item) = core.pending.pop_front() {",
    "            if core.closed {\n                (Poll::Ready(None), None)\n            } else if let Some(item) = core.pending.pop_front() {",
    E(C12=['ORD-C12']))

mut('pipestream-on_drop-inline', 'PipeStream::drop releases the Desync inline under the stream lock', PIPE,
    "        self.on_drop.take().map(|mut on_drop| {\n            REFERENCE_CHUTE.desync(move |_| {\n                (on_drop)()\n            })\n        });",
    "        self.on_drop.take().map(|mut on_drop| {\n            (on_drop)()\n        });",
    E(C16=['ORD-C16']))

# ---- pool size -----------------------------------------------------------------------------------------------------------------------
mut('spawn-le-max', 'spawn bound tested with <=', CORE,
    "        if threads.len() < max_threads {\n            // Create a new thread",
    "        if threads.len() <= max_threads {\n            // Create a new thread",
    E(C17=['ORD-C17']))

mut('schedule_thread-spawn-unconditional', 'schedule_thread spawns a raw thread when no dormant one is found', CORE,
    "            // Try to create a new thread\n            if self.spawn_thread_if_less_than_maximum() {",
    "            // Try to create a new thread\n            if { self.threads.lock().expect(\"Scheduler threads lock\").push((Arc::new(Mutex::new(false)), SchedulerThread::new())); true } {",
    E(C17=['ORD-C17']))

mut('schedule_thread-no-retry', 'after spawning a thread the queue is not handed to it', CORE,
    "                // Try harder to schedule this task if a thread was created\n                self.schedule_thread(core)",
    "                // Try harder to schedule this task if a thread was created\n                let _ = core;\n                true",
    E(C10=['ORD-C10-spawn']))

# ---- unsafe / bounds --------------------------------------------------------------------------------------------------------------------
mut('desync-sync-drops-send-bound', 'Desync<T>: Sync no longer requires T: Send', DESYNC,
    "unsafe impl<T: Send> Sync for Desync<T> {}",
    "unsafe impl<T> Sync for Desync<T> where T: Send + Sized, {}",
    E())  # behaviour-preserving rewrite: must NOT fire (kept as a negative control below)

mut('desync-deref-outside-job', 'Desync::sync dereferences the payload outside the queue job', DESYNC,
    "            sync(&self.queue, move || {\n                let data = data.0;\n                job(unsafe { &mut *data })\n            })\n        };\n\n        result\n    }\n\n    ///\n    /// Performs an operation synchronously on this item, \n    ///",
    "            let data = data.0;\n            sync(&self.queue, move || { });\n            job(unsafe { &mut *data })\n        };\n\n        result\n    }\n\n    ///\n    /// Performs an operation synchronously on this item, \n    ///",
    E(C14=['UA-confine'], C01=['UA-confine']))

mut('desync-drop-free-inline', 'Desync::drop frees the value after, not inside, the final job', DESYNC,
    "            sync(&self.queue, move || {\n                let data = data.0;\n                mem::drop(unsafe { Box::from_raw(data) });\n            });\n        }\n    }",
    "            sync(&self.queue, move || { });\n            let data = data.0;\n            mem::drop(unsafe { Box::from_raw(data) });\n        }\n    }",
    E(C05=['ORD-C05-drop'], C14=['ORD-C05-drop']))

mut('scheduler-sync-relax-send', 'Scheduler::sync no longer requires a Send result', DS,
    "    pub fn sync<Result: Send, TFn: Send+FnOnce() -> Result>(&self, queue: &Arc<JobQueue>, job: TFn) -> Result {\n        enum RunAction {",
    "    pub fn sync<Result, TFn: Send+FnOnce() -> Result>(&self, queue: &Arc<JobQueue>, job: TFn) -> Result {\n        enum RunAction {",
    E())  # does not compile (sync_drain needs Send): negative control for 'build-failed'


# ---- poll-side drain / DrainWaker -------------------------------------------------------------------------------------------------
mut('drain_queue-wake_with-before-state', 'drain_queue installs the real waker before it has parked the queue', SF,
    "                            self.queue.core.lock().expect(\"JobQueue core lock\").state = QueueState::WaitingForPoll(self.id);\n\n                            // Wake both the queue and the context\n                            let context_waker   = context.waker().clone();\n                            let queue_waker     = WakeQueue(Arc::clone(&self.queue), Arc::clone(&self.scheduler.core));\n                            let queue_waker     = Arc::new(queue_waker);\n                            let queue_waker     = task::waker(queue_waker);\n\n                            let wake_both       = DoubleWaker(Mutex::new(Some((queue_waker, context_waker))));\n                            let wake_both       = task::waker(Arc::new(wake_both));\n\n                            waker.wake_with(wake_both);",
    "                            // Wake both the queue and the context\n                            let context_waker   = context.waker().clone();\n                            let queue_waker     = WakeQueue(Arc::clone(&self.queue), Arc::clone(&self.scheduler.core));\n                            let queue_waker     = Arc::new(queue_waker);\n                            let queue_waker     = task::waker(queue_waker);\n\n                            let wake_both       = DoubleWaker(Mutex::new(Some((queue_waker, context_waker))));\n                            let wake_both       = task::waker(Arc::new(wake_both));\n\n                            waker.wake_with(wake_both);\n                            self.queue.core.lock().expect(\"JobQueue core lock\").state = QueueState::WaitingForPoll(self.id);",
    E(C06=['ORD-C06-drain']))

mut('drainwaker-no-latch', 'DrainWaker forgets a wake that arrives before the real waker is installed', SF,
    "                NotWoken                    => { *new_state = Woken; None },\n                Woken                       => { *new_state = Woken; None },",
    "                NotWoken                    => { *new_state = NotWoken; None },\n                Woken                       => { *new_state = Woken; None },",
    E(C06=['ORD-C06-drain']))

mut('drainwaker-woken-not-woken', 'wake_with does not fire when the wake already happened', SF,
    "                Woken                           => { *new_state = Woken; Some(new_waker) },",
    "                Woken                           => { *new_state = WillWakeWithWaker(new_waker); None::<task::Waker> },",
    E(C06=['ORD-C06-drain']))

mut('doublewaker-one-only', 'DoubleWaker wakes only the polling task', SF,
    "            waker1.wake();\n            waker2.wake();",
    "            let _ = waker1;\n            waker2.wake();",
    E(C06=['ORD-C06-drain']))

mut('park-without-loop', 'run_one_job_now parks once without re-checking the state', JQ,
    "                            loop {\n                                let current_state = { queue.core.lock().unwrap().state };\n                                match current_state {\n                                    QueueState::Running             => break,\n                                    QueueState::AwokenWhileRunning  => break,\n                                    QueueState::WaitingForUnpark    => (),\n                                    other                           => panic!(\"Queue was in unexpected state {:?}\", other)\n                                }\n\n                                // Park until we're awoken from the other thread (once awoken, we re-check the state)\n                                thread::park();\n                            }",
    "                            // Park until we're awoken from the other thread\n                            thread::park();",
    E(C06=['ORD-C06-drain']))


mut('dormant-thread-exits-early', 'the pool thread leaves its loop after one job without re-checking the schedule', CORE,
    "                            if let Some(job_data) = job_data {\n                                job(job_data);\n                            } else {\n                                done = true;\n                            }",
    "                            if let Some(job_data) = job_data {\n                                job(job_data);\n                                done = true;\n                            } else {\n                                done = true;\n                            }",
    E(C03=['ORD-C03-dormant'], C10=['ORD-C03-dormant']))

mut('schedulerfuture-sync-no-wait', 'SchedulerFuture::sync gives up instead of waiting on the queue', SF,
    "        let result = self.scheduler.sync(&self.queue, || { self.result.lock().expect(\"Scheduler future result\").result.take() });",
    "        let result = self.result.lock().expect(\"Scheduler future result\").result.take();",
    E(C07=['ORD-C07-syncwait']))

mut('pipestream-drop-not-closed', 'dropping the output stream wakes the producer but does not mark the core closed', PIPE,
    "        // Mark the core as closed to stop it from reading from the stream\n        core.closed = true;\n",
    "",
    E(C16=['ORD-C16']))

mut('drain-returns-while-awoken', 'drain gives up the thread on any Pending job, even when a wake was already recorded', JQ,
    "                        if core.state == QueueState::WaitingForWake {\n                            return;\n                        }",
    "                        if core.state == QueueState::WaitingForWake || core.state == QueueState::Running {\n                            return;\n                        }",
    E(C03=['TOK-leak', 'PA-stuck', 'TOK-exec']))


mut('sync_background-push-no-reschedule', 'sync_background queues its job on an idle queue without rescheduling it', DS,
    "        if need_reschedule { self.reschedule_queue(queue); }",
    "        let _ = need_reschedule;",
    E(C04=['TOK-resched'], C03=['TOK-resched']))

mut('sync_background-reschedule-wrong-state', 'sync_background reschedules only when the queue is Pending (never when Idle)', DS,
    "            core.queue.push_back(unsafe_job);\n            core.state == QueueState::Idle",
    "            core.queue.push_back(unsafe_job);\n            core.state == QueueState::Pending",
    E(C04=['TOK-resched'], C03=['TOK-resched']))


# ---- benign refactors: behaviour-preserving edits on which every check must stay silent ------------------------------------------
B = []


def benign(name, what, edits):
    B.append({'name': name, 'what': what, 'edits': edits})


benign('b-rename-locals', 'locals renamed (cond_var -> cv, queue_core -> qc, busy -> flag)', [
    (CORE, "                .for_each(|cond_var| {\n                    if let Some(cond_var) = cond_var.upgrade() {\n                        cond_var.notify_one();", "                .for_each(|cv| {\n                    if let Some(cv) = cv.upgrade() {\n                        cv.notify_one();"),
    (WT, "            let mut queue_core = queue.core.lock().unwrap();\n\n            // Queue can be woken if it's in the WaitingForWake state\n            match queue_core.state {\n                QueueState::WaitingForWake      => queue_core.state = QueueState::Idle,\n                QueueState::WaitingForUnpark    => queue_core.state = QueueState::Running,\n                QueueState::Running             => queue_core.state = QueueState::AwokenWhileRunning,\n                other_state                     => queue_core.state = other_state",
          "            let mut qc = queue.core.lock().unwrap();\n\n            // Queue can be woken if it's in the WaitingForWake state\n            match qc.state {\n                QueueState::WaitingForWake      => qc.state = QueueState::Idle,\n                QueueState::WaitingForUnpark    => qc.state = QueueState::Running,\n                QueueState::Running             => qc.state = QueueState::AwokenWhileRunning,\n                other_state                     => qc.state = other_state"),
])

benign('b-is_empty', 'queue.len() == 0 written as is_empty(); len() > 0 as !is_empty()', [
    (DS, "                QueueState::Pending             => RunAction::Busy,\n                QueueState::Idle                => { \n                    if core.queue.len() == 0 {", "                QueueState::Pending             => RunAction::Busy,\n                QueueState::Idle                => { \n                    if core.queue.is_empty() {"),
    (CORE, "                    if core.queue.len() > 0 {", "                    if !core.queue.is_empty() {"),
    (JQ, "                if core.queue.len() == 0 {\n                    if core.state.is_running() {", "                if core.queue.len() < 1 {\n                    if core.state.is_running() {"),
])

benign('b-flip-comparison', 'threads.len() < max written the other way round', [
    (CORE, "        if threads.len() < max_threads {\n            // Create a new thread", "        if max_threads > threads.len() {\n            // Create a new thread"),
    (DS, "            while threads.len() > max_threads {", "            while max_threads < threads.len() {"),
])

benign('b-let-temporaries', 'state copied into a local before the match; decision stored in a let', [
    (CORE, "        // The queue must be idle or pending to be claimable\n        match queue_core.state {", "        // The queue must be idle or pending to be claimable\n        let current = queue_core.state;\n        match current {"),
    (DS, "        if need_reschedule { self.reschedule_queue(queue); }", "        let must = need_reschedule;\n        if must { self.reschedule_queue(queue); }"),
])

benign('b-match-to-if', 'WakeQueue match arm turned into explicit arms; if-let instead of map for the waker', [
    (SF, "        // If we retrieved a waker from the result, wake it up\n        waker.map(|waker| waker.wake());", "        // If we retrieved a waker from the result, wake it up\n        if let Some(waker) = waker { waker.wake(); }"),
    (WQ, "                other_state                     => queue_core.state = other_state", "                QueueState::Idle                => queue_core.state = QueueState::Idle,\n                other_state                     => queue_core.state = other_state"),
])

benign('b-extra-closure-and-fn', 'a new helper function and a new closure ahead of existing ones (renumbers closures)', [
    (PIPE, "    // Prepare the streams\n    let input_stream        = Arc::new(Mutex::new(stream));", "    // Prepare the streams\n    let describe            = || \"pipe\";\n    let _                   = describe();\n    let input_stream        = Arc::new(Mutex::new(stream));"),
    (DS, "    ///\n    /// Wakes a thread to run a dormant queue. Returns true if a thread was woken up\n    ///\n    fn schedule_thread(&self) -> bool {", "    ///\n    /// Number of queues waiting for a thread\n    ///\n    pub fn waiting_queues(&self) -> usize {\n        self.core.schedule.lock().expect(\"Schedule lock\").len()\n    }\n\n    ///\n    /// Wakes a thread to run a dormant queue. Returns true if a thread was woken up\n    ///\n    fn schedule_thread(&self) -> bool {"),
])

benign('b-explicit-drop-and-unwrap', 'explicit mem::drop of a guard; expect() replaced by unwrap(); statements reordered', [
    (DS, "        let unsafe_result_job   = unsafe { UnsafeJob::new(&mut *result_job) };\n        queue.core.lock().expect(\"JobQueue core lock\").queue.push_back(Box::new(unsafe_result_job));", "        let unsafe_result_job   = unsafe { UnsafeJob::new(&mut *result_job) };\n        {\n            let mut core = queue.core.lock().unwrap();\n            core.queue.push_back(Box::new(unsafe_result_job));\n            mem::drop(core);\n        }"),
    (CORE, "        let max_threads = { *self.max_threads.lock().expect(\"Max threads lock\") };\n        let mut threads = self.threads.lock().expect(\"Scheduler threads lock\");\n\n        if threads.len() < max_threads {", "        let max_threads = *self.max_threads.lock().unwrap();\n        let mut threads = self.threads.lock().unwrap();\n\n        if threads.len() < max_threads {"),
])

benign('b-debug-asserts', 'extra debug_assert!s about the state', [
    (JQ, "        let mut core = self.core.lock().expect(\"JobQueue core lock\");\n\n        core.queue.push_front(job);", "        let mut core = self.core.lock().expect(\"JobQueue core lock\");\n        debug_assert!(core.state.is_running());\n\n        core.queue.push_front(job);"),
    (DS, "        // Set the queue as active\n        let _active = ActiveQueue { queue: &*queue };\n\n        // Call the function to get the result\n        let result = job();", "        // Set the queue as active\n        let _active = ActiveQueue { queue: &*queue };\n        debug_assert!(queue.core.lock().unwrap().queue.len() == 0 || true);\n\n        // Call the function to get the result\n        let result = job();"),
])


def main():
    os.makedirs(MUT, exist_ok=True)
    index = {'mutants': []}
    # keep the unfix patches
    keep = json.load(open(os.path.join(MUT, 'index.json')))['mutants'] if os.path.exists(os.path.join(MUT, 'index.json')) else []
    for m in keep:
        if m['name'].startswith('unfix-') or m.get('origin') == 'seeded':
            index['mutants'].append(m)
    bad = 0
    for m in M:
        if not m['expect']:
            continue
        path = os.path.join(REPO, m['file'])
        src = open(path).read()
        if src.count(m['old']) != m['count']:
            print('!! %s: pattern occurs %d times in %s (expected %d)' % (m['name'], src.count(m['old']), m['file'], m['count']))
            bad += 1
            continue
        new = src.replace(m['old'], m['new'])
        with tempfile.NamedTemporaryFile('w', suffix='.rs', delete=False) as f:
            f.write(new)
            tmp = f.name
        r = subprocess.run(['diff', '-u', '--label', 'a/' + m['file'], '--label', 'b/' + m['file'], path, tmp], capture_output=True, text=True)
        os.unlink(tmp)
        pname = m['name'] + '.patch'
        with open(os.path.join(MUT, pname), 'w') as f:
            f.write(r.stdout)
        index['mutants'].append({'name': m['name'], 'patch': pname, 'what': m['what'], 'expect': m['expect']})
    old_benign = [b for b in (json.load(open(os.path.join(MUT, 'index.json'))).get('benign', []) if os.path.exists(os.path.join(MUT, 'index.json')) else []) if b.get('origin') == 'manual']
    index['benign'] = old_benign
    for b in B:
        tmpd = tempfile.mkdtemp()
        chunks = []
        okb = True
        byfile = {}
        for (file, old, new) in b['edits']:
            src = byfile.get(file) or open(os.path.join(REPO, file)).read()
            if src.count(old) != 1:
                print('!! benign %s: pattern occurs %d times in %s' % (b['name'], src.count(old), file))
                okb = False
                bad += 1
                continue
            byfile[file] = src.replace(old, new)
        if not okb:
            continue
        for file, new in byfile.items():
            tmp = os.path.join(tmpd, 'x.rs')
            open(tmp, 'w').write(new)
            r = subprocess.run(['diff', '-u', '--label', 'a/' + file, '--label', 'b/' + file, os.path.join(REPO, file), tmp], capture_output=True, text=True)
            chunks.append(r.stdout)
        pname = b['name'] + '.patch'
        with open(os.path.join(MUT, pname), 'w') as f:
            f.write(''.join(chunks))
        index['benign'].append({'name': b['name'], 'patch': pname, 'what': b['what']})
    with open(os.path.join(MUT, 'index.json'), 'w') as f:
        json.dump(index, f, indent=1)
    print('wrote %d mutants (%d patterns not found)' % (len(index['mutants']), bad))
    return 1 if bad else 0


if __name__ == '__main__':
    sys.exit(main())
