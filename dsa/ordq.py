"""Generic ordering queries over one function's CFG (A8): dominance, must-pass-through, switch edges of a call result, await sites."""
from .facts import clean_ty, ty_head

STD_DISCR = {
    'core::option::Option': {'None': '0', 'Some': '1'},
    'core::result::Result': {'Ok': '0', 'Err': '1'},
    'core::task::poll::Poll': {'Ready': '0', 'Pending': '1'},
}


def calls(fn, suffix, cleanup=False):
    out = []
    for bb, t in fn.calls():
        if not cleanup and fn.blocks[bb]['cleanup']:
            continue
        n = t['func'].get('fn') or ''
        if n == suffix or n.endswith('::' + suffix) or n.endswith(suffix):
            out.append((bb, t))
    return out


def calls_resolved(fn, suffix):
    out = []
    for bb, t in fn.calls():
        if fn.blocks[bb]['cleanup']:
            continue
        n = t.get('resolved') or t['func'].get('fn') or ''
        if n.endswith(suffix):
            out.append((bb, t))
    return out


def dominates(fn, a, b):
    return a in fn.dominators().get(b, set())


def edom(fn, tgt, b):
    """Block b only executes after the *edge* into tgt was taken: tgt dominates b and tgt has a single entry edge
    (predecessors that tgt itself dominates are loop back-edges and do not count)."""
    if tgt is None:
        return False
    dom = fn.dominators()
    if tgt not in dom.get(b, set()):
        return False
    entries = [p for p in fn.preds().get(tgt, []) if tgt not in dom.get(p, set()) and p in dom]
    return len(entries) <= 1


def move_aliases(fn, local):
    """Locals that receive the value of `local` through plain whole-local moves / copies (inlined returns, named temporaries)."""
    out = {local}
    changed = True
    while changed:
        changed = False
        for b in fn.blocks:
            for s in b['stmts']:
                if s['k'] == 'assign' and not s['pl']['p'] and s['rv']['k'] == 'use' and s['rv']['op']['k'] in ('move', 'copy'):
                    pl = s['rv']['op']['pl']
                    if not pl['p'] and pl['l'] in out and s['pl']['l'] not in out and len(fn.defs().get(s['pl']['l'], [])) == 1:
                        out.add(s['pl']['l'])
                        changed = True
    return out


def switch_of_local(fn, local, start_bb, max_steps=6):
    """Find the switch that tests `local` (directly if bool, or via discriminant(local)) at/after start_bb along straight-line flow.
    Returns (switch bb, {value: target}, otherwise) or None."""
    bb = start_bb
    for _ in range(max_steps):
        b = fn.blocks[bb]
        t = b['term']
        if t is None:
            return None
        if t['k'] == 'switch' and t['discr']['k'] in ('copy', 'move'):
            dl = t['discr']['pl']['l']
            if dl == local and not t['discr']['pl']['p']:
                return bb, dict((v, tb) for v, tb in t['targets']), t['otherwise']
            for s in b['stmts']:
                if s['k'] == 'assign' and not s['pl']['p'] and s['pl']['l'] == dl and s['rv']['k'] == 'discr':
                    pl = s['rv']['pl']
                    if pl['l'] == local and not pl['p']:
                        return bb, dict((v, tb) for v, tb in t['targets']), t['otherwise']
            return None
        if t['k'] in ('goto', 'falseedge', 'falseunwind', 'drop'):
            bb = t['target']
            continue
        return None
    return None


PRED_METHODS = {
    # method -> (enum, variant it tests for)
    'core::task::poll::Poll::is_ready': ('core::task::poll::Poll', 'Ready'),
    'core::task::poll::Poll::is_pending': ('core::task::poll::Poll', 'Pending'),
    'core::option::Option::is_some': ('core::option::Option', 'Some'),
    'core::option::Option::is_none': ('core::option::Option', 'None'),
    'core::result::Result::is_ok': ('core::result::Result', 'Ok'),
    'core::result::Result::is_err': ('core::result::Result', 'Err'),
}


def _norm_test(e, target):
    """If expression e is a test of `target` (an expression), returns how: ('direct',) ('not',) ('discr',) ('pred', enum, variant, negated)."""
    if e == target:
        return ('direct',)
    if e[0] == 'discr' and e[1] == target:
        return ('discr',)
    if e[0] == 'unop' and e[1] == 'Not':
        inner = _norm_test(e[2], target)
        if inner is None:
            return None
        if inner[0] == 'direct':
            return ('not',)
        if inner[0] == 'not':
            return ('direct',)
        if inner[0] == 'pred':
            return ('pred', inner[1], inner[2], not inner[3])
        return None
    if e[0] == 'call' and e[1] in PRED_METHODS and e[2] and e[2][0] == target:
        en, var = PRED_METHODS[e[1]]
        return ('pred', en, var, False)
    return None


def _tests_local(fn, bb, local):
    b = fn.blocks[bb]
    t = b['term']
    if not t or t['k'] != 'switch' or b['cleanup'] or t['discr']['k'] not in ('copy', 'move'):
        return None
    dl = t['discr']['pl']['l']
    if dl == local and not t['discr']['pl']['p']:
        return bb, dict((v, tb) for v, tb in t['targets']), t['otherwise']
    for s in b['stmts']:
        if s['k'] == 'assign' and not s['pl']['p'] and s['pl']['l'] == dl and s['rv']['k'] == 'discr':
            pl = s['rv']['pl']
            if pl['l'] == local and not pl['p']:
                return bb, dict((v, tb) for v, tb in t['targets']), t['otherwise']
    return None


def _skip_observations(fn, local, r, call_bb):
    """A test of the result whose arms all flow into a later test of the same value (`let seen = matches!(x, ..); match x {..}`) only
    observes it: the later test is the one that decides what happens."""
    for _ in range(4):
        bb = r[0]
        succs = [tb for tb in list(r[1].values()) + [r[2]] if tb is not None]
        stop = set(fn.exits()) | {call_bb}
        nxt = None
        for b2 in sorted(set().union(*[fn.reachable_blocks(s_) for s_ in succs]) if succs else []):
            if b2 == bb:
                continue
            r2 = _tests_local(fn, b2, local)
            if r2 and all(fn.must_pass(s_, stop, {b2}) for s_ in succs):
                nxt = r2
                break
        if nxt is None:
            return r
        r = nxt
    return r


def result_edges(fn, call_bb):
    """Edges of the test of the result of the call ending block call_bb, normalised to the discriminant space of the result:
    {value: target, 'otherwise': target, '_bb': switch block}.  Understands a direct `match`/`if let`, `if x`/`if !x`, a named
    temporary, and the predicate methods (is_some / is_none / is_ready / is_pending / is_ok / is_err) on the result."""
    t = fn.blocks[call_bb]['term']
    if t['target'] is None or t['dest']['p']:
        return None
    d = t['dest']['l']
    r = switch_of_local(fn, d, t['target'])
    if r:
        r = _skip_observations(fn, d, r, call_bb)
        bb, m, oth = r
        m = dict(m)
        m['otherwise'] = oth
        m['_bb'] = bb
        return m
    # `call()?`: the result goes through Try::branch and the test is on the ControlFlow it returns (Continue = Some / Ok, Break = None / Err)
    q = _question_mark_edges(fn, d, t['target'])
    if q:
        return q
    target = fn.expr_of_local(d)
    if target[0] == 'var':
        return None
    reach = fn.reachable_blocks(t['target'])
    dom = fn.dominators()
    best = None
    for bb in sorted(reach):
        b = fn.blocks[bb]
        sw = b['term']
        if not sw or sw['k'] != 'switch' or b['cleanup'] or sw['discr']['k'] == 'const':
            continue
        if sw['discr']['pl']['p']:
            continue
        e = fn.expr_of_local(sw['discr']['pl']['l'])
        how = _norm_test(e, target)
        if how is None:
            continue
        if best is not None and best[0] in dom.get(bb, set()):
            continue   # keep the first (dominating) test
        best = (bb, sw, how)
    if best is None:
        return None
    bb, sw, how = best
    tg = dict((v, tb) for v, tb in sw['targets'])
    oth = sw['otherwise']
    if how[0] in ('direct', 'discr'):
        m = dict(tg)
        m['otherwise'] = oth
        m['_bb'] = bb
        return m
    zero = tg.get('0', oth)      # test value false
    one = oth if '0' in tg else tg.get('1', oth)
    if how[0] == 'not':
        return {'0': one, 'otherwise': zero, '_bb': bb}
    if how[0] == 'pred':
        en, var, neg = how[1], how[2], how[3]
        true_t, false_t = (zero, one) if neg else (one, zero)
        dv = STD_DISCR[en]
        other = [v for v in dv if v != var][0]
        return {dv[var]: true_t, dv[other]: false_t, 'otherwise': false_t if dv[var] != '0' else true_t, '_bb': bb}
    return None


def _question_mark_edges(fn, d, start, depth=0):
    if depth > 1:
        return None
    aliases = move_aliases(fn, d)
    bb = start
    for _ in range(4):
        b = fn.blocks[bb]
        tt = b['term']
        if tt is None or b['cleanup']:
            return None
        if tt['k'] == 'call':
            if (tt['func'].get('fn') or '') == 'core::ops::try_trait::Try::branch' and tt['args'] and tt['args'][0]['k'] in ('copy', 'move') \
                    and not tt['args'][0]['pl']['p'] and tt['args'][0]['pl']['l'] in aliases and tt['target'] is not None and not tt['dest']['p']:
                r = switch_of_local(fn, tt['dest']['l'], tt['target'])
                if not r:
                    return None
                sbb, m, oth = r
                m = dict(m)
                cont = m.get('0', oth)
                brk = oth if '0' in m else m.get('1', oth)
                if '1' in m:
                    brk = m['1']
                ty = clean_ty(fn.local_ty(d))
                if ty.startswith('core::option::Option<'):
                    return {'1': cont, '0': brk, 'otherwise': cont, '_bb': sbb}
                if ty.startswith('core::result::Result<'):
                    return {'0': cont, '1': brk, 'otherwise': brk, '_bb': sbb}
            return None
        if tt['k'] in ('goto', 'falseedge', 'falseunwind'):
            bb = tt['target']
            continue
        return None
    return None


def edge_for(edges, adt, variant):
    """Target block for `variant` of a std enum in a result_edges map."""
    if edges is None:
        return None
    v = STD_DISCR[adt][variant]
    if v in edges:
        return edges[v]
    # otherwise edge stands for the variants not listed
    listed = [k for k in edges if k not in ('otherwise', '_bb')]
    if v not in listed:
        return edges['otherwise']
    return None


def inner_switch(fn, local, outer_variant, start_bb):
    """Switch on discriminant((local as Variant).0) starting at start_bb (nested match on Poll<Result<..>>)."""
    bb = start_bb
    locs = move_aliases(fn, local)
    # the payload moved into a local of its own first (`let Poll::Ready(next) = next else {..}; let Some(next) = next else {..}`)
    payload = set()
    for b_ in fn.blocks:
        for s_ in b_['stmts']:
            if s_['k'] == 'assign' and not s_['pl']['p'] and s_['rv']['k'] == 'use' and s_['rv']['op']['k'] in ('move', 'copy'):
                pl_ = s_['rv']['op']['pl']
                if pl_['l'] in locs and [p_['k'] for p_ in pl_['p']] == ['downcast', 'field'] and pl_['p'][0]['v'] == outer_variant and len(fn.defs().get(s_['pl']['l'], [])) == 1:
                    payload |= move_aliases(fn, s_['pl']['l'])
    for _ in range(6):
        b = fn.blocks[bb]
        t = b['term']
        if t is None:
            return None
        if t['k'] == 'switch':
            for s in b['stmts']:
                if s['k'] == 'assign' and s['rv']['k'] == 'discr':
                    pl = s['rv']['pl']
                    if (pl['l'] in locs and any(p['k'] == 'downcast' and p['v'] == outer_variant for p in pl['p'])) or (pl['l'] in payload and not pl['p']):
                        m = dict((v, tb) for v, tb in t['targets'])
                        m['otherwise'] = t['otherwise']
                        m['_bb'] = bb
                        return m
            return None
        if t['k'] in ('goto', 'falseedge', 'falseunwind', 'drop'):
            bb = t['target']
            continue
        return None
    return None


def await_sites(fn):
    """Awaits in a coroutine body: a Future::poll whose Pending edge leads to a Yield. -> [{'poll_bb','ready','pending','yield_bb','what','arg'}]"""
    out = []
    for bb, t in fn.calls():
        if fn.blocks[bb]['cleanup']:
            continue
        if (t['func'].get('fn') or '') != 'core::future::future::Future::poll':
            continue
        e = result_edges(fn, bb)
        if not e:
            continue
        ready = edge_for(e, 'core::task::poll::Poll', 'Ready')
        pending = edge_for(e, 'core::task::poll::Poll', 'Pending')
        # does pending reach a yield without calls?
        y = None
        cur = pending
        for _ in range(6):
            if cur is None:
                break
            tt = fn.blocks[cur]['term']
            if tt and tt['k'] == 'yield':
                y = cur
                break
            if tt and tt['k'] in ('goto', 'falseedge', 'falseunwind', 'drop'):
                cur = tt['target']
            else:
                break
        if y is None:
            continue
        what = t.get('resolved') or ''
        st = clean_ty(t.get('self_ty') or '')
        # the awaited value: follow Pin::new_unchecked(&mut x) back to x
        arg = fn.expr_of_operand(t['args'][0])
        out.append({'poll_bb': bb, 'ready': ready, 'pending': pending, 'yield_bb': y, 'what': what, 'self_ty': st, 'arg': arg})
    return out


def upvar_of(expr):
    """Name of the upvar an expression is rooted in (through into_future / moves), or None."""
    from .facts import expr_root
    e = expr
    seen = 0
    while seen < 10:
        seen += 1
        r = expr_root(e)
        if r[0] == 'upvar':
            return r[1]
        if r[0] == 'call' and r[2]:
            e = r[2][0]
            continue
        return None
    return None


def all_paths_pass(fn, src_bb, through):
    """Every (feasible) path from the start of src_bb to a normal exit passes one of the blocks in `through`."""
    if fn.must_pass(src_bb, set(fn.exits()), set(through)):
        return True
    return not feasible_reach(fn, src_bb, set(fn.exits()), set(through))


# ---------------------------------------------------------------------------------------------
# Path-sensitive reachability: plain dominance cannot see that `let b = matches!(x, P); if b {..}` only enters the branch on the
# arms that stored `true`.  A small constant-propagating exploration (bools and enum variants of locals, disjunctive) answers
# "is there a feasible path from `src` to one of `targets` that avoids `avoid`?".

def _vset(V, l, val):
    items = [(k, v) for k, v in V if k != l]
    if val is not None:
        items.append((l, val))
        items.sort()
    return tuple(items)


def _vget(V, l):
    for k, v in V:
        if k == l:
            return v
    return None


def _variant_of(fn, ty, val):
    head = ty_head(clean_ty(ty))
    if head in STD_DISCR:
        for name, d in STD_DISCR[head].items():
            if d == str(val):
                return name
        return None
    return fn.facts.variant_by_discr(head, val)


def feasible_reach(fn, src, targets, avoid, limit=40000, overrides=None, rearm=False):
    """Is a block of `targets` reachable from `src` along a path that is feasible under constant propagation of bools / enum variants and
    avoids `avoid`?  `overrides` gives values to assume for locals whose assignment the propagation cannot evaluate."""
    targets, avoid = set(targets), set(avoid)
    untracked = fn.mut_borrowed()
    start = (0, (), src == 0)
    seen = {start}
    work = [start]
    n = 0
    while work:
        bb, V, armed = work.pop()
        n += 1
        if n > limit:
            return True       # give up: assume reachable (conservative for "must pass" queries)
        if bb == src:
            armed = True
        if armed and bb in avoid:
            if not rearm:
                continue
            armed = False     # the question is asked again at the next visit of src (a loop that passes `avoid` once and skips it later)
        if armed and bb in targets:
            return True
        b = fn.blocks[bb]
        for s in b['stmts']:
            if s['k'] == 'dead':
                V = _vset(V, s['l'], None)
                continue
            if s['k'] != 'assign' or s['pl']['p']:
                continue
            l = s['pl']['l']
            rv = s['rv']
            val = None
            k = rv['k']
            if k == 'use':
                o = rv['op']
                if o['k'] == 'const' and o.get('ty') == 'bool' and 'val' in o:
                    val = ('bool', int(o['val']))
                elif o['k'] in ('copy', 'move') and not o['pl']['p']:
                    val = _vget(V, o['pl']['l'])
                elif o['k'] in ('copy', 'move') and len(o['pl']['p']) == 1 and o['pl']['p'][0]['k'] == 'field':
                    tv = _vget(V, o['pl']['l'])
                    if tv and tv[0] == 'tup' and o['pl']['p'][0]['i'] < len(tv[1]):
                        val = tv[1][o['pl']['p'][0]['i']]
                elif o['k'] in ('copy', 'move') and len(o['pl']['p']) == 2 and o['pl']['p'][0]['k'] == 'downcast' and o['pl']['p'][1]['k'] == 'field':
                    tv = _vget(V, o['pl']['l'])
                    if tv and tv[0] == 'enum' and len(tv) > 2 and o['pl']['p'][1]['i'] < len(tv[2]):
                        val = tv[2][o['pl']['p'][1]['i']]
            elif k == 'agg' and rv.get('ak') == 'tuple':
                comps = []
                for o2 in rv['ops']:
                    if o2['k'] == 'const' and o2.get('ty') == 'bool' and 'val' in o2:
                        comps.append(('bool', int(o2['val'])))
                    elif o2['k'] in ('copy', 'move') and not o2['pl']['p']:
                        comps.append(_vget(V, o2['pl']['l']))
                    else:
                        comps.append(None)
                if any(c is not None for c in comps):
                    val = ('tup', tuple(comps))
            elif k == 'agg' and rv.get('ak') == 'adt':
                # the variant, and what is known about its payload fields (an enum carried inside an enum: `Stop(DrainEnd::Result(v))`)
                comps = []
                for o2 in rv.get('ops', []):
                    if o2['k'] in ('copy', 'move') and not o2['pl']['p']:
                        comps.append(_vget(V, o2['pl']['l']))
                    else:
                        comps.append(None)
                val = ('enum', rv['variant'], tuple(comps)) if any(c is not None for c in comps) else ('enum', rv['variant'])
            elif k == 'unop' and rv['op'] == 'Not' and rv['a']['k'] in ('copy', 'move') and not rv['a']['pl']['p']:
                v0 = _vget(V, rv['a']['pl']['l'])
                if v0 and v0[0] == 'bool':
                    val = ('bool', 1 - v0[1])
            elif k == 'discr' and not rv['pl']['p']:
                v0 = _vget(V, rv['pl']['l'])
                if v0 and v0[0] == 'enum':
                    val = ('discof', rv['pl']['l'])
            if val is None and overrides and l in overrides:
                val = overrides[l]
            if val is None and k in ('binop', 'unop') and clean_ty(fn.local_ty(l)) == 'bool':
                if k == 'unop' and rv['op'] == 'Not' and rv['a']['k'] in ('copy', 'move') and not rv['a']['pl']['p']:
                    v0 = _vget(V, rv['a']['pl']['l'])
                    if v0 and v0[0] == 'sym':
                        val = ('sym', v0[1], not v0[2])
                if val is None:
                    val = ('sym', bb * 10000 + len(b['stmts']) + l, True)     # an unknown truth value: the same symbol wherever it is copied
            V = _vset(V, l, None if l in untracked else val)
        t = b['term']
        if not t:
            continue
        succ = []
        k = t['k']
        if k == 'switch' and t['discr']['k'] in ('copy', 'move') and not t['discr']['pl']['p']:
            dv = _vget(V, t['discr']['pl']['l'])
            listed = [v for v, _ in t['targets']]
            if dv and dv[0] == 'sym':
                known = _vget(V, -1 - dv[1])
                if known is not None:
                    dv = ('bool', int(bool(known[1]) == dv[2]))
            if dv and dv[0] == 'bool':
                hit = [tb for v, tb in t['targets'] if v == str(dv[1])]
                succ = hit if hit else [t['otherwise']]
            elif dv and dv[0] == 'sym':
                # branch on an unknown: each side learns the symbol's value
                edges_ = [(v, tb) for v, tb in t['targets']] + [('otherwise', t['otherwise'])]
                lst = [v for v, _ in t['targets']]
                for v, tb in edges_:
                    if v == 'otherwise':
                        if '0' in lst and '1' in lst:
                            continue
                        truth = 0 if '1' in lst else 1
                    else:
                        truth = int(v)
                    symtruth = bool(truth) == dv[2]
                    st2 = (tb, _vset(V, -1 - dv[1], ('bool', int(symtruth))), armed)
                    if st2 not in seen:
                        seen.add(st2)
                        work.append(st2)
                continue
            elif dv and dv[0] == 'discof':
                ev = _vget(V, dv[1])
                ty = fn.local_ty(dv[1])
                if ev and ev[0] == 'enum':
                    hit = [tb for v, tb in t['targets'] if _variant_of(fn, ty, v) == ev[1]]
                    succ = hit if hit else [t['otherwise']]
                else:
                    succ = fn.succs(bb)
            else:
                succ = fn.succs(bb)
        elif k == 'call':
            if t['target'] is not None:
                d = t['dest']
                V2 = V
                if not d['p']:
                    val = None
                    name = t['func'].get('fn') or ''
                    if name in PRED_METHODS and t['args'] and t['args'][0]['k'] in ('copy', 'move'):
                        # predicate on a local whose variant is known (through a `&x` temporary)
                        e = fn.expr_of_operand(t['args'][0])
                        if e[0] == 'var':
                            ev = _vget(V, e[1])
                            if ev and ev[0] == 'enum':
                                val = ('bool', int(ev[1] == PRED_METHODS[name][1]))
                    if val is None and clean_ty(fn.local_ty(d['l'])) == 'bool' and d['l'] not in untracked:
                        val = ('sym', bb * 10000 + 9999, True)
                    V2 = _vset(V, d['l'], val)
                st = (t['target'], V2, armed)
                if st not in seen:
                    seen.add(st)
                    work.append(st)
            continue
        else:
            succ = fn.succs(bb)
        for sb in succ:
            st = (sb, V, armed)
            if st not in seen:
                seen.add(st)
                work.append(st)
    return False


_plain_edom = edom


def edom(fn, tgt, b):   # noqa: F811  (path-sensitive refinement of the plain version above)
    if tgt is None:
        return False
    if _plain_edom(fn, tgt, b):
        return True
    dom = fn.dominators()
    entries = [p for p in fn.preds().get(tgt, []) if tgt not in dom.get(p, set()) and p in dom]
    if len(entries) > 1:
        return False
    return not feasible_reach(fn, 0, {b}, {tgt})


def must_pass_ps(fn, src, targets, through):
    """Every (feasible) path from src to a target passes a block in `through`."""
    if fn.must_pass(src, set(targets), set(through)):
        return True
    return not feasible_reach(fn, src, targets, through)


def backward_slice(fn, operand):
    """Flow-insensitive backward slice of an operand: -> (set of ADT constructor names, set of callee names) that feed its value."""
    adts, callees = set(), set()
    if operand['k'] not in ('copy', 'move'):
        return adts, callees
    seen, work = set(), [operand['pl']['l']]

    def ops_of(rv):
        out = []
        for k in ('op', 'a', 'b'):
            if k in rv and isinstance(rv[k], dict):
                out.append(rv[k])
        out += rv.get('ops', [])
        if 'pl' in rv:
            out.append({'k': 'copy', 'pl': rv['pl']})
        return out

    while work:
        l = work.pop()
        if l in seen:
            continue
        seen.add(l)
        for d in fn.defs().get(l, []):
            if d[0] == 'stmt':
                rv = d[3]
                if rv['k'] == 'agg' and rv.get('ak') == 'adt':
                    adts.add(rv['adt'])
                for o in ops_of(rv):
                    if o['k'] in ('copy', 'move'):
                        work.append(o['pl']['l'])
            elif d[0] == 'call':
                t = d[2]
                callees.add(t['func'].get('fn') or '<indirect>')
                for o in t['args']:
                    if o['k'] in ('copy', 'move'):
                        work.append(o['pl']['l'])
    return adts, callees


def slice_alternatives(fn, operand):
    """Like backward_slice, but one (adts, callees) pair per *alternative definition* of the value: the chain of plain moves / clones /
    reference temporaries is followed from the operand to the first local that is assigned in more than one place (a variable set in two
    branches, the return value of an inlined helper with an early return) and each of its definitions is sliced on its own.  Used where
    "the value is built from X" must hold whichever way the value was produced, not for one of the ways."""
    if operand['k'] not in ('copy', 'move'):
        return [backward_slice(fn, operand)]
    defs = fn.defs()
    l = operand['pl']['l']
    seen = set()
    while l not in seen:
        seen.add(l)
        ds = [d for d in defs.get(l, []) if not fn.blocks[d[1]]['cleanup']]
        if len(ds) != 1:
            break
        d = ds[0]
        nxt = None
        if d[0] == 'stmt':
            rv = d[3]
            if rv['k'] == 'use' and rv['op']['k'] in ('copy', 'move') and not rv['op']['pl']['p']:
                nxt = rv['op']['pl']['l']
            elif rv['k'] == 'ref' and not rv['pl']['p']:
                nxt = rv['pl']['l']
        elif d[0] == 'call':
            name = d[2]['func'].get('fn') or ''
            if name.endswith(('::clone', 'Into::into', 'From::from')) and d[2]['args'] and d[2]['args'][0]['k'] in ('copy', 'move') and not d[2]['args'][0]['pl']['p']:
                nxt = d[2]['args'][0]['pl']['l']
        if nxt is None:
            break
        l = nxt
    ds = [d for d in defs.get(l, []) if not fn.blocks[d[1]]['cleanup']]
    if len(ds) <= 1:
        return [backward_slice(fn, operand)]
    alts = []
    for d in ds:
        adts, callees = set(), set()
        ops = []
        if d[0] == 'stmt':
            rv = d[3]
            if rv['k'] == 'agg' and rv.get('ak') == 'adt':
                adts.add(rv['adt'])
            for k in ('op', 'a', 'b'):
                if k in rv and isinstance(rv[k], dict):
                    ops.append(rv[k])
            ops += rv.get('ops', [])
            if 'pl' in rv:
                ops.append({'k': 'copy', 'pl': rv['pl']})
        elif d[0] == 'call':
            callees.add(d[2]['func'].get('fn') or '<indirect>')
            ops += d[2]['args']
        for o in ops:
            if o['k'] in ('copy', 'move') and o['pl']['l'] != l:
                a2, c2 = backward_slice(fn, o)
                adts |= a2
                callees |= c2
        alts.append((adts, callees))
    return alts


def trace_sources(fn, pl, depth=0, seen=None):
    """Where the value in place `pl` comes from, followed backwards through plain moves / copies, through wrapper values
    (`Some(x)` / `Ok(x)` / `Ready(x)` built from one operand and read back as `(w as Variant).0`) and through locals assigned in several
    places.  -> list of leaves ('place', bb, place) | ('const', bb, operand) | ('other', bb, what), or None when the chain is not understood.
    A wrapper of another variant (a `None` next to the `Some(x)`) contributes nothing to the payload."""
    if depth > 10:
        return None
    seen = seen if seen is not None else set()
    proj = [p_['k'] for p_ in pl['p']]
    key = (pl['l'], tuple(proj))
    if key in seen:
        return []
    seen = seen | {key}
    if proj == ['field']:
        # a component of a tuple / struct value built in this function (`let (new_state, to_wake) = ..`)
        idx = pl['p'][0].get('i')
        outf, foundf = [], False
        for bb, b in enumerate(fn.blocks):
            if b['cleanup']:
                continue
            for s_ in b['stmts']:
                if s_['k'] != 'assign' or s_['pl']['p'] or s_['pl']['l'] != pl['l']:
                    continue
                foundf = True
                rv = s_['rv']
                if rv['k'] == 'agg' and isinstance(idx, int) and len(rv.get('ops', [])) > idx:
                    o = rv['ops'][idx]
                    if o['k'] == 'const':
                        outf.append(('const', bb, o))
                    else:
                        sub = trace_sources(fn, o['pl'], depth + 1, seen)
                        if sub is None:
                            return None
                        outf += sub
                elif rv['k'] == 'use' and rv['op']['k'] in ('copy', 'move') and not rv['op']['pl']['p']:
                    src = dict(rv['op']['pl'])
                    src['p'] = list(pl['p'])
                    sub = trace_sources(fn, src, depth + 1, seen)
                    if sub is None:
                        return None
                    outf += sub
                else:
                    return None
            t = b['term']
            if t and t['k'] == 'call' and not t['dest']['p'] and t['dest']['l'] == pl['l']:
                return None
        return outf if foundf else [('place', None, pl)]
    if proj and proj != ['downcast', 'field']:
        return [('place', None, pl)]
    out = []
    found = False
    for bb, b in enumerate(fn.blocks):
        if b['cleanup']:
            continue
        for s_ in b['stmts']:
            if s_['k'] != 'assign' or s_['pl']['p'] or s_['pl']['l'] != pl['l']:
                continue
            found = True
            rv = s_['rv']
            if proj:
                if rv['k'] == 'agg':
                    ops = rv.get('ops', [])
                    want = pl['p'][0].get('v')
                    if rv.get('variant') is not None and want is not None and str(rv.get('variant')) != str(want):
                        continue
                    if len(ops) == 0:
                        continue
                    if len(ops) != 1:
                        return None
                    o = ops[0]
                    if o['k'] == 'const':
                        out.append(('const', bb, o))
                    else:
                        sub = trace_sources(fn, o['pl'], depth + 1, seen)
                        if sub is None:
                            return None
                        out += sub
                elif rv['k'] == 'use' and rv['op']['k'] in ('copy', 'move'):
                    src = dict(rv['op']['pl'])
                    src['p'] = list(src['p']) + list(pl['p'])
                    if [p_['k'] for p_ in src['p']] != ['downcast', 'field']:
                        return None
                    sub = trace_sources(fn, src, depth + 1, seen)
                    if sub is None:
                        return None
                    out += sub
                else:
                    return None
                continue
            if rv['k'] == 'use':
                o = rv['op']
                if o['k'] == 'const':
                    out.append(('const', bb, o))
                elif not o['pl']['p'] or [p_['k'] for p_ in o['pl']['p']] in (['downcast', 'field'], ['field']):
                    sub = trace_sources(fn, o['pl'], depth + 1, seen)
                    if sub is None:
                        return None
                    out += sub
                else:
                    out.append(('place', bb, o['pl']))
            elif rv['k'] == 'agg':
                out.append(('agg', bb, rv))
            else:
                out.append(('other', bb, rv['k']))
        t = b['term']
        if t and t['k'] == 'call' and not t['dest']['p'] and t['dest']['l'] == pl['l']:
            found = True
            out.append(('other', bb, 'call:' + (t['func'].get('fn') or '')))
    if not found:
        return [('place', None, pl)]
    return out


def field_test_edges(fn, field, need=''):
    """Switches of `fn` that branch on the value of struct field `field` - read directly, or read earlier and carried to the test through
    locals and Option / Result payloads.  -> [(switch block, target of the true edge)]"""
    from .facts import render
    out = []
    for bb, b in enumerate(fn.blocks):
        t = b['term']
        if not t or t['k'] != 'switch' or b['cleanup'] or t['discr']['k'] == 'const' or t['discr']['pl']['p']:
            continue
        e = fn.expr_of_local(t['discr']['pl']['l'])
        txt = render(e)
        if txt.endswith('.' + field) and need in txt:
            out.append((bb, t['otherwise']))
            continue
        if e[0] != 'var' and not (e[0] == 'field' and e[1][0] == 'downcast'):
            continue
        if 'bool' != clean_ty(fn.local_ty(t['discr']['pl']['l']) or ''):
            continue
        leaves = trace_sources(fn, t['discr']['pl'])
        if not leaves:
            continue
        okl = True
        for kind, lbb, what in leaves:
            if kind != 'place':
                okl = False
                break
            txt2 = render(fn.expr_of_place(what))
            if not (txt2.endswith('.' + field) and need in txt2):
                okl = False
                break
        if okl:
            out.append((bb, t['otherwise']))
    return out
