#!/usr/bin/env python3
"""Debug helper: python3 -i tools/scratch_ctx.py <patch>  -> `ctx` for /repo + patch (scratch copy removed at once)."""
import os
import sys
VERIF = os.path.dirname(os.path.dirname(os.path.abspath(__file__)))
sys.path.insert(0, VERIF)
from dsa import scratch, extract  # noqa
from dsa.ctx import Ctx  # noqa


def ctx_for(patch):
    d, tree = scratch.make_copy('/repo')
    try:
        okp, msg = scratch.apply_patch(tree, os.path.abspath(patch))
        assert okp, msg
        facts, info = extract.extract(tree, 'dev')
        return Ctx(facts, info)
    finally:
        scratch.remove(d)


if __name__ == '__main__' and len(sys.argv) > 1:
    ctx = ctx_for(sys.argv[1])
