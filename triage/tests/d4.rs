// D4: panic in a job run by the waiter-steal path of sync_background leaves the queue Running, not Panicked
use desync::scheduler::*;
use std::sync::*;
use std::sync::mpsc::channel;
use std::thread;
use std::time::Duration;

#[test]
fn d4_steal_path_panic() {
    let sched = Arc::new(Scheduler::new());
    sched.set_max_threads(0);
    sched.despawn_threads_if_overloaded();
    let q = queue();

    let (started_tx, started_rx) = channel();
    let (gate_tx, gate_rx) = channel::<()>();
    // C: immediate sync, holds queue Running until gate opens
    let (s1, q1) = (sched.clone(), q.clone());
    let c = thread::spawn(move || { s1.sync(&q1, move || { started_tx.send(()).unwrap(); gate_rx.recv().unwrap(); }); });
    started_rx.recv().unwrap();
    // panicking job queued behind C
    sched.desync(&q, || panic!("boom"));
    // A: sync -> WaitForBackground
    let (s2, q2) = (sched.clone(), q.clone());
    let a = thread::spawn(move || { s2.sync(&q2, || 1) });
    thread::sleep(Duration::from_millis(200)); // let A block on its condvar
    gate_tx.send(()).unwrap();
    c.join().unwrap();
    let a_res = a.join();
    println!("A result is_err (panicked while stealing) = {}", a_res.is_err());
    println!("queue after: {:?}", q);
    // now any further scheduling attempt should panic loudly; check that it does not block
    let (s3, q3) = (sched.clone(), q.clone());
    let (done_tx, done_rx) = channel();
    thread::spawn(move || { let r = std::panic::catch_unwind(std::panic::AssertUnwindSafe(|| s3.sync(&q3, || 2))); done_tx.send(r.is_err()).ok(); });
    match done_rx.recv_timeout(Duration::from_secs(3)) {
        Ok(panicked) => println!("later sync returned; panicked={}", panicked),
        Err(_) => println!("later sync BLOCKED (>3s): queue wedged, not marked Panicked"),
    }
}
