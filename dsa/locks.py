"""A1: critical sections (lock regions) and lock classes.

A region is the life of a value whose type contains `MutexGuard<T>`: from the point the value is
produced (Mutex::lock / try_lock / Condvar::wait result, or a move of such a value) to the point it
is dropped or moved away (into mem::drop, Condvar::wait, Result::expect, ...).  Because the facts are
*built* MIR (before drop elaboration), a `Drop(g)` after a move is a no-op: the analysis is a
maybe-initialised dataflow over guard-typed locals, which handles `ready = cv.wait(ready)` and
`mem::drop(ready); ...; ready = m.lock()` exactly.

Lock class = protected type, split by owner function where one type plays two roles.  An
unclassified lock site is reported (fail closed), never silently accepted.
"""
from .facts import guard_inner, clean_ty

# (match kind, pattern on protected type, class name, reason)
CLASS_TABLE = [
    ('eq', 'desync::JobQueueCore', 'JobQueue.core', 'queue state + job list of one JobQueue'),
    ('eq', 'alloc::collections::vec_deque::VecDeque<alloc::sync::Arc<desync::JobQueue>>', 'SchedulerCore.schedule', 'queues waiting for a pool thread'),
    ('eq', 'alloc::vec::Vec<(alloc::sync::Arc<std::sync::poison::mutex::Mutex<bool>>, desync::SchedulerThread)>', 'SchedulerCore.threads', 'pool thread table'),
    ('eq', 'usize', 'SchedulerCore.max_threads', 'configured pool maximum'),
    ('prefix', 'desync::SchedulerFutureResult<', 'SchedulerFuture.result', 'result slot + waker of one scheduler future'),
    ('eq', 'desync::DrainWakerState', 'DrainWaker.state', 'latch of the poll-side drain waker'),
    ('eq', 'core::option::Option<(core::task::wake::Waker, core::task::wake::Waker)>', 'DoubleWaker.0', 'pair of wakers, taken once'),
    ('prefix', 'core::option::Option<alloc::sync::Arc<desync::PipeContext<', 'PipeWaker.context', 'one-shot pipe waker payload'),
    ('eq', 'core::option::Option<PollFn>', 'PipeContext.poll_fn', 'poll function of a pipe (None once finished)'),
    ('eq', 'S', 'pipe.input', 'input stream of one pipe (user code runs under it by design)'),
    ('eq', 'ProcessFn', 'pipe.process', 'processing closure of one pipe (user code runs under it by design)'),
    ('prefix', 'desync::PipeStreamCore<', 'PipeStream.core', 'output buffer + waker slots of a pipe stream'),
    ('eq', 'core::option::Option<Result>', 'sync.result', 'result slot private to one sync call'),
    ('eq', 'core::option::Option<T>', 'sync.result', 'result slot private to one sync call (generic spelling)'),
]

# Mutex<bool> plays two roles; split by owning function (root of the closure chain).
BOOL_OWNERS = {
    'desync::SchedulerCore::schedule_dormant': 'thread.busy',
    'desync::SchedulerCore::remove_finished_threads': 'thread.busy',
    'desync::Scheduler::sync_background': 'sync.ready',
    '<desync::UnsafeJob as core::ops::drop::Drop>::drop': 'sync.ready',
    '<desync::Scheduler as core::fmt::Debug>::fmt': 'thread.busy',
}

# classes under which user code runs by design (private to one pipe instance)
USER_CODE_CLASSES = {'pipe.input', 'pipe.process'}

INTERNAL_CLASSES = None  # filled lazily: everything but USER_CODE_CLASSES


def classify(fn, inner):
    inner = clean_ty(inner).strip()
    if inner == 'bool':
        root = fn.root or fn.name
        c = BOOL_OWNERS.get(root)
        if c:
            return c
        return 'UNCLASSIFIED:Mutex<bool>@%s' % root
    for kind, pat, cls, _ in CLASS_TABLE:
        if kind == 'eq' and inner == pat:
            return cls
        if kind == 'prefix' and inner.startswith(pat):
            return cls
    # the same roles with renamed type parameters: decided by the parameter's bounds / the owner, not by its spelling
    import re
    params = set(g['name'] for g in fn.generics if g['kind'] == 'type' and not g['name'].startswith('<'))
    root = fn.root or fn.name
    m = re.match(r'^core::option::Option<([A-Za-z_][A-Za-z0-9_]*)>$', inner)
    if m and m.group(1) in params:
        p = m.group(1)
        fn_bound = any(q.get('self') == p and q.get('k') == 'trait' and (q.get('trait') or '').startswith('core::ops::function::Fn') for q in fn.preds_of)
        if fn_bound or 'PipeContext' in root:
            return 'PipeContext.poll_fn'
        return 'sync.result'
    if inner in params and ('pipe' in root.split('::')[1:2] or root.split('::')[-1].startswith('pipe') or 'pipe' in root):
        tr = set((q.get('trait') or '') for q in fn.preds_of if q.get('self') == inner and q.get('k') == 'trait')
        if 'futures_core::stream::Stream' in tr:
            return 'pipe.input'
        if any(t.startswith('core::ops::function::Fn') for t in tr):
            return 'pipe.process'
    # a mutex the role table does not know: it is its own class, named by what it protects, and takes part in the lock-order and
    # nothing-foreign-or-blocking-under-a-lock analyses like every internal lock (the role-specific rules have nothing to say about it)
    return 'auto:Mutex<%s>' % inner


def guard_locals(fn):
    """local -> lock class, for every local whose type contains a MutexGuard."""
    out = {}
    for i, l in enumerate(fn.locals):
        inner = guard_inner(l['ty'])
        if inner is None:
            continue
        # references to guards do not own the lock
        ty = l['ty'].strip()
        if ty.startswith('&'):
            continue
        out[i] = classify(fn, inner)
    return out


def _moved_locals_in_operand(o):
    if o['k'] == 'move':
        return [o['pl']['l']]
    return []


def _operands_of_rvalue(r):
    k = r['k']
    if k in ('use', 'cast', 'repeat'):
        return [r['op']]
    if k == 'binop':
        return [r['a'], r['b']]
    if k == 'unop':
        return [r['a']]
    if k == 'agg':
        return r['ops']
    return []


class Held:
    """Result of the region analysis for one function.

    before[(bb, i)]  : frozenset of guard locals possibly live before statement i of bb
                       (i == len(stmts) means: before the terminator, *after* its operands were moved out)
    at_call[bb]      : guards live *during* a call terminator (moved-in arguments excluded)
    """

    def __init__(self, fn, tracked=None):
        self.fn = fn
        self.guards = guard_locals(fn) if tracked is None else tracked
        self.before = {}
        self.at_term = {}
        self.entry = {}
        self._run()

    def classes(self, locals_):
        return frozenset(self.guards[l] for l in locals_)

    def held_at_term(self, bb):
        return self.classes(self.at_term.get(bb, frozenset()))

    def held_before(self, bb, i):
        return self.classes(self.before.get((bb, i), frozenset()))

    def holds_before(self, bb, i, cls=None):
        """Acquisition sites of the guards possibly live before statement i of bb (i == len(stmts): before the terminator).
        Two program points are under one hold of a lock only if they share a site: a guard local that is released and
        assigned again (`drop(g); g = m.lock()`) is a different hold."""
        return frozenset(s for (l, s) in self.gbefore.get((bb, i), frozenset()) if cls is None or self.guards[l] == cls)

    def holds_at_term(self, bb, cls=None):
        return frozenset(s for (l, s) in self.gterm.get(bb, frozenset()) if cls is None or self.guards[l] == cls)

    def _run(self):
        fn = self.fn
        g = self.guards
        self.gbefore = {}
        self.gterm = {}
        if not g:
            return
        init = frozenset((l, ('arg', l)) for l in g if 1 <= l <= fn.arg_count)
        inn = {0: init}
        work = [0]
        seen_in = {}

        def loc(st):
            return frozenset(l for (l, _) in st)

        def discard(cur, l):
            for x in [x for x in cur if x[0] == l]:
                cur.discard(x)

        while work:
            bb = work.pop()
            st = inn[bb]
            if seen_in.get(bb) == st:
                continue
            seen_in[bb] = st
            cur = set(st)
            b = fn.blocks[bb]
            for i, s in enumerate(b['stmts']):
                self.before[(bb, i)] = loc(cur) | self.before.get((bb, i), frozenset())
                self.gbefore[(bb, i)] = frozenset(cur) | self.gbefore.get((bb, i), frozenset())
                if s['k'] == 'assign':
                    inherited = set()
                    for o in _operands_of_rvalue(s['rv']):
                        for l in _moved_locals_in_operand(o):
                            inherited |= set(x[1] for x in cur if x[0] == l)
                            discard(cur, l)
                    pl = s['pl']
                    if not pl['p'] and pl['l'] in g:
                        discard(cur, pl['l'])
                        for site in (inherited or {('a', bb, i)}):
                            cur.add((pl['l'], site))
            t = b['term']
            n = len(b['stmts'])
            self.before[(bb, n)] = loc(cur) | self.before.get((bb, n), frozenset())
            self.gbefore[(bb, n)] = frozenset(cur) | self.gbefore.get((bb, n), frozenset())
            out_normal = set(cur)
            out_unwind = set(cur)
            if t:
                k = t['k']
                if k == 'call':
                    for a in t['args']:
                        for l in _moved_locals_in_operand(a):
                            discard(cur, l)
                    self.at_term[bb] = loc(cur) | self.at_term.get(bb, frozenset())
                    self.gterm[bb] = frozenset(cur) | self.gterm.get(bb, frozenset())
                    out_normal = set(cur)
                    out_unwind = set(cur)
                    d = t['dest']
                    if not d['p'] and d['l'] in g:
                        discard(out_normal, d['l'])
                        out_normal.add((d['l'], ('c', bb)))
                elif k == 'drop':
                    self.at_term[bb] = loc(cur) | self.at_term.get(bb, frozenset())
                    self.gterm[bb] = frozenset(cur) | self.gterm.get(bb, frozenset())
                    pl = t['pl']
                    if not pl['p']:
                        discard(out_normal, pl['l'])
                        discard(out_unwind, pl['l'])
                else:
                    self.at_term[bb] = loc(cur) | self.at_term.get(bb, frozenset())
                    self.gterm[bb] = frozenset(cur) | self.gterm.get(bb, frozenset())
                    if k == 'switch':
                        for l in _moved_locals_in_operand(t['discr']):
                            discard(out_normal, l)
            for lab, tgt in fn.edges(bb, unwind=True):
                o = out_unwind if lab[0] in ('unwind', 'cdrop') else out_normal
                new = inn.get(tgt, frozenset()) | frozenset(o)
                if tgt not in inn or new != inn[tgt]:
                    inn[tgt] = new
                    work.append(tgt)
                elif tgt not in seen_in:
                    work.append(tgt)
        self.entry = dict((b_, loc(st_)) for b_, st_ in inn.items())


def lock_sites(fn):
    """[(bb, term, kind, class)] for Mutex::lock / try_lock calls in fn."""
    out = []
    for bb, t in fn.calls():
        name = t['func'].get('fn') or ''
        if name.endswith('::Mutex::lock') or name.endswith('::Mutex::try_lock'):
            kind = 'try_lock' if name.endswith('try_lock') else 'lock'
            # class from the destination type (Result<MutexGuard<T>, ..>)
            dty = fn.local_ty(t['dest']['l']) if not t['dest']['p'] else t['dest']['ty']
            inner = guard_inner(dty)
            cls = classify(fn, inner) if inner is not None else 'UNCLASSIFIED:?'
            out.append((bb, t, kind, cls))
    return out
