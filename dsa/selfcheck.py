"""Thorough tier: self-validation of the checkers on the mutant corpus (+ witnesses for the type-level clauses).

Each mutant is a small realistic edit that compiles.  The property's rules must report it, naming the expected rule.
A mutant whose patch no longer applies to the tree under analysis is *skipped* (the tree may have been edited; that is not a
violation).  A checker that stops firing on its own mutant is CHECKER-BROKEN (exit 2): my bug, not a property violation.
"""
import json
import os

from . import extract, props, scratch
from .ctx import Ctx
from .rule import VIOLATION

VERIF = os.path.dirname(os.path.dirname(os.path.abspath(__file__)))
MUT = os.path.join(VERIF, 'mutants')


def load_index():
    with open(os.path.join(MUT, 'index.json')) as f:
        return json.load(f)


import threading
_tls = threading.local()
_wlock = threading.Lock()
_wcount = [0]


def _worker_target():
    """Each worker thread extracts into its own cargo target directory (a copy of the warmed one), so mutants run in parallel."""
    if getattr(_tls, 'tdir', None) is None:
        with _wlock:
            i = _wcount[0]
            _wcount[0] += 1
        base = os.path.join(extract.CACHE, 'target')
        tdir = os.path.join(extract.CACHE, 'target-w%d' % i)
        if not os.path.exists(tdir) and os.path.exists(os.path.join(base, 'debug')):
            import shutil
            os.makedirs(tdir, exist_ok=True)
            # only the dev profile's dependency artefacts are needed (check metadata, no codegen): a few MB
            # the member crate's own fingerprint / metadata are rebuilt by every extraction (and may be removed by a concurrent one while
            # we copy): leave them out, and tolerate files that vanish under the copy - a cold file only costs a rebuild
            try:
                shutil.copytree(os.path.join(base, 'debug'), os.path.join(tdir, 'debug'), symlinks=True,
                                ignore=shutil.ignore_patterns('incremental', 'examples', '*.d', 'desync-*', 'libdesync-*'))
            except shutil.Error:
                pass
        _tls.tdir = tdir
    return _tls.tdir


def run_mutant(m, repo, pids, want=('violation',)):
    """-> {'status': 'fired'|'missed'|'skipped'|'build-failed', per property results}"""
    d, tree = scratch.make_copy(repo)
    try:
        okp, msg = scratch.apply_patch(tree, os.path.join(MUT, m['patch']))
        if not okp:
            return {'status': 'skipped', 'why': 'patch does not apply to this tree'}
        try:
            facts, info = extract.extract(tree, 'dev', target_dir=_worker_target() if getattr(_tls, 'parallel', False) else None)
        except extract.ExtractError as e:
            return {'status': 'build-failed', 'why': str(e)[:300]}
        ctx = Ctx(facts, info)
        res = {}
        for pid in pids:
            insts = props.evaluate(pid, ctx)
            v = [i for i in insts if i.verdict in want]
            res[pid] = [{'rule': i.rule, 'key': i.key, 'verdict': i.verdict} for i in v]
        return {'status': 'ran', 'violations': res}
    finally:
        scratch.remove(d)


def _pmap(fn, items, workers=4):
    from concurrent.futures import ThreadPoolExecutor

    def wrapped(x):
        _tls.parallel = True
        return fn(x)
    if len(items) <= 1:
        return [fn(x) for x in items]
    with ThreadPoolExecutor(max_workers=min(workers, len(items))) as ex:
        return list(ex.map(wrapped, items))


def run(pid, repo, seed):
    idx = load_index()
    lines = []
    code = 0
    fired, skipped, missed = [], [], []
    todo = [m for m in idx['mutants'] if m['expect'].get(pid)]
    results = _pmap(lambda m: run_mutant(m, repo, [pid]), todo)
    for m, r in zip(todo, results):
        exp = m['expect'].get(pid)
        if r['status'] in ('skipped', 'build-failed'):
            skipped.append({'mutant': m['name'], 'why': r['why']})
            continue
        got = r['violations'][pid]
        hit = [g for g in got if g['rule'] in exp['rules'] and (not exp.get('key') or exp['key'] in g['key'])]
        if hit:
            fired.append({'mutant': m['name'], 'reported': hit[:3]})
        else:
            missed.append({'mutant': m['name'], 'expected': exp, 'got': got[:5]})
            lines.append('CHECKER-BROKEN property=%s mutant=%s expected one of %s, got %s' % (pid, m['name'], exp['rules'], got[:3]))
            code = 2
    # behaviour-preserving variants: the property's check must stay silent (no violation, no UNDECIDED) on every one of them
    known = json.load(open(os.path.join(VERIF, 'known_findings.json')))
    kset = set((k['property'], k['rule'], k['key']) for k in known['findings'])
    silent, noisy = [], []
    benign = idx.get('benign', [])
    bres = _pmap(lambda b: run_mutant(b, repo, [pid], want=('violation', 'undecided')), benign)
    for b, r in zip(benign, bres):
        if r['status'] in ('skipped', 'build-failed'):
            skipped.append({'mutant': b['name'], 'why': r['why']})
            continue
        got = [g for g in r['violations'][pid] if (pid, g['rule'], g['key']) not in kset]
        if b.get('undecided_ok'):
            # a deliberately extreme restructuring the analysis is known not to follow: it may answer UNDECIDED, never VIOLATION
            got = [g for g in got if g['verdict'] == 'violation']
        if got:
            noisy.append({'variant': b['name'], 'reported': got[:3]})
            lines.append('CHECKER-BROKEN property=%s benign variant %s raises %s' % (pid, b['name'], got[:3]))
            code = 2
        else:
            silent.append(b['name'])
    extra = {'mutants': {'fired': fired, 'skipped': skipped, 'missed': missed, 'total_for_property': len(fired) + len(skipped) + len(missed)},
             'benign_variants': {'silent': silent, 'false_alarms': noisy}}
    # witnesses
    from . import witness
    w = witness.run(pid, repo)
    if w is not None:
        extra['witnesses'] = w['evidence']
        lines += w['lines']
        code = max(code, w['code']) if code != 1 else 1
        if w['code'] == 1:
            code = 1
    return extra, lines, code
