// dsa-driver: rustc_private fact extractor for the desync static analysis.
//
// Injected with RUSTC_WORKSPACE_WRAPPER under `cargo +nightly check`.  For the
// crate named by DSA_CRATE (default "desync") it dumps, in `after_expansion`,
// the *built* MIR (before borrowck / drop elaboration / coroutine transform) of
// every fn, method and closure, plus ADT / impl / signature facts, as one JSON
// file (DSA_FACTS_OUT).  Compilation then continues normally, so a tree that
// does not type- or borrow-check fails the build and yields no verdict.
//
// Nothing here decides a property: all rules live in /verif/dsa (Python).
#![feature(rustc_private)]
#![allow(rustc::internal)]

extern crate rustc_abi;
extern crate rustc_driver;
extern crate rustc_hir;
extern crate rustc_interface;
extern crate rustc_middle;
extern crate rustc_session;
extern crate rustc_span;

mod json;
use json::J;

use rustc_driver::{Callbacks, Compilation};
use rustc_hir::def::DefKind;
use rustc_hir::def_id::{DefId, LocalDefId, LOCAL_CRATE};
use rustc_interface::interface::Compiler;
use rustc_middle::mir::{self, *};
use rustc_middle::ty::{self, GenericArgKind, Instance, Ty, TyCtxt, TyKind, TypingEnv};
use rustc_span::Span;

struct Cb;

fn defpath(tcx: TyCtxt<'_>, d: DefId) -> String {
    ty::print::with_no_trimmed_paths!(ty::print::with_forced_impl_filename_line!(tcx.def_path_str(d)))
}

/// Stable, crate-relative, position-free item key: `scheduler::core::{impl#0}::schedule_thread::{closure#0}`
fn defkey(tcx: TyCtxt<'_>, d: DefId) -> String {
    let p = tcx.def_path(d);
    let mut s = String::new();
    if !d.is_local() {
        s.push_str(tcx.crate_name(d.krate).as_str());
    }
    let inner = p.to_string_no_crate_verbose();
    s.push_str(&inner);
    if s.starts_with("::") { s[2..].to_string() } else { s }
}

/// Readable name without file/line: for impls methods we print `<SelfTy as Trait>::name` or `SelfTy::name`.
fn nice(tcx: TyCtxt<'_>, d: DefId) -> String {
    // walk up through closures
    let mut suffix = String::new();
    let mut cur = d;
    loop {
        match tcx.def_kind(cur) {
            DefKind::Closure | DefKind::InlineConst | DefKind::AnonConst | DefKind::SyntheticCoroutineBody => {
                let key = tcx.def_key(cur);
                suffix = format!("::{}{}", key.disambiguated_data.as_sym(true), suffix);
                cur = tcx.parent(cur);
            }
            _ => break,
        }
    }
    let base = match tcx.def_kind(cur) {
        DefKind::AssocFn | DefKind::AssocConst { .. } | DefKind::AssocTy => {
            let parent = tcx.parent(cur);
            let name = tcx.item_name(cur);
            match tcx.def_kind(parent) {
                DefKind::Impl { .. } => {
                    let self_ty = tcx.type_of(parent).instantiate_identity().skip_norm_wip();
                    let st = ty_head(tcx, self_ty);
                    if let Some(tr) = tcx.impl_opt_trait_ref(parent) {
                        let tr = tr.instantiate_identity().skip_norm_wip();
                        format!("<{} as {}>::{}", st, plain_path(tcx, tr.def_id), name)
                    } else {
                        format!("{}::{}", st, name)
                    }
                }
                DefKind::Trait => format!("{}::{}", plain_path(tcx, parent), name),
                _ => plain_path(tcx, cur),
            }
        }
        _ => plain_path(tcx, cur),
    };
    format!("{}{}", base, suffix)
}

/// Path of an item with the crate name, no generic args: `std::sync::Mutex`, `desync::scheduler::core::SchedulerCore`
fn plain_path(tcx: TyCtxt<'_>, d: DefId) -> String {
    let mut s = String::from(tcx.crate_name(d.krate).as_str());
    for seg in tcx.def_path(d).data.iter() {
        s.push_str("::");
        s.push_str(&seg.as_sym(true).to_string());
    }
    s
}

/// Head of a type (ADT path without args, or the full printed type otherwise)
fn ty_head<'tcx>(tcx: TyCtxt<'tcx>, t: Ty<'tcx>) -> String {
    match t.kind() {
        TyKind::Adt(adt, _) => plain_path(tcx, adt.did()),
        _ => pty(tcx, t),
    }
}

/// Own type printer: full def paths, regions erased, closures by def key (no file:line).
fn pty<'tcx>(tcx: TyCtxt<'tcx>, t: Ty<'tcx>) -> String {
    match t.kind() {
        TyKind::Bool | TyKind::Char | TyKind::Int(_) | TyKind::Uint(_) | TyKind::Float(_) | TyKind::Str | TyKind::Never => format!("{}", t),
        TyKind::Adt(adt, args) => {
            let mut s = plain_path(tcx, adt.did());
            let a = pargs(tcx, args);
            if !a.is_empty() {
                s.push('<');
                s.push_str(&a.join(", "));
                s.push('>');
            }
            s
        }
        TyKind::Foreign(d) => plain_path(tcx, *d),
        TyKind::Array(e, _) => format!("[{}; N]", pty(tcx, *e)),
        TyKind::Slice(e) => format!("[{}]", pty(tcx, *e)),
        TyKind::RawPtr(e, m) => format!("*{} {}", if m.is_mut() { "mut" } else { "const" }, pty(tcx, *e)),
        TyKind::Ref(_, e, m) => format!("&{}{}", if m.is_mut() { "mut " } else { "" }, pty(tcx, *e)),
        TyKind::FnDef(d, args) => {
            let a = pargs(tcx, args);
            format!("{{fn:{}<{}>}}", nice(tcx, *d), a.join(", "))
        }
        TyKind::FnPtr(..) => format!("{{fnptr:{}}}", t),
        TyKind::Dynamic(preds, _) => {
            let mut parts = vec![];
            for p in preds.iter() {
                match p.skip_binder() {
                    ty::ExistentialPredicate::Trait(tr) => {
                        let a = pargs(tcx, tr.args);
                        if a.is_empty() { parts.push(plain_path(tcx, tr.def_id)) } else { parts.push(format!("{}<{}>", plain_path(tcx, tr.def_id), a.join(", "))) }
                    }
                    ty::ExistentialPredicate::AutoTrait(d) => parts.push(plain_path(tcx, d)),
                    ty::ExistentialPredicate::Projection(p) => parts.push(format!("{}={}", plain_path(tcx, p.def_id), match p.term.kind() { ty::TermKind::Ty(t) => pty(tcx, t), _ => "?".into() })),
                }
            }
            format!("dyn({})", parts.join(" + "))
        }
        TyKind::Closure(d, _) => format!("{{closure:{}}}", nice(tcx, *d)),
        TyKind::CoroutineClosure(d, _) => format!("{{coroutine_closure:{}}}", nice(tcx, *d)),
        TyKind::Coroutine(d, _) => format!("{{coroutine:{}}}", nice(tcx, *d)),
        TyKind::CoroutineWitness(d, _) => format!("{{witness:{}}}", nice(tcx, *d)),
        TyKind::Tuple(ts) => {
            let v: Vec<String> = ts.iter().map(|x| pty(tcx, x)).collect();
            if v.len() == 1 { format!("({},)", v[0]) } else { format!("({})", v.join(", ")) }
        }
        TyKind::Alias(a) => {
            let d = a.kind.def_id();
            match tcx.def_kind(d) {
                DefKind::OpaqueTy => format!("{{opaque:{}}}", nice(tcx, tcx.parent(d))),
                _ => {
                    let args = pargs(tcx, a.args);
                    if args.is_empty() { format!("{{alias:{}}}", plain_path(tcx, d)) } else {
                        format!("<{} as {}>::{}", args[0], plain_path(tcx, tcx.parent(d)), tcx.item_name(d))
                    }
                }
            }
        }
        TyKind::Param(p) => format!("{}", p.name),
        _ => format!("{{other:{}}}", t),
    }
}

fn pargs<'tcx>(tcx: TyCtxt<'tcx>, args: ty::GenericArgsRef<'tcx>) -> Vec<String> {
    let mut v = vec![];
    for a in args.iter() {
        match a.kind() {
            GenericArgKind::Type(t) => v.push(pty(tcx, t)),
            GenericArgKind::Const(_) => v.push("{const}".into()),
            GenericArgKind::Lifetime(_) => {}
        }
    }
    v
}

/// Outermost-but-one macro this span comes from (`debug_assert`, `panic`, ...); None for plain code and desugarings.
fn mac_name(sp: Span) -> Option<String> {
    let mut names = vec![];
    let mut cur = sp;
    let mut guard = 0;
    while cur.from_expansion() && guard < 32 {
        guard += 1;
        let data = cur.ctxt().outer_expn_data();
        if let rustc_span::ExpnKind::Macro(_, name) = data.kind {
            names.push(name.to_string());
        }
        cur = data.call_site;
    }
    if names.is_empty() { None } else { Some(names.join("<")) }
}

fn span_j(tcx: TyCtxt<'_>, sp: Span) -> J {
    let sm = tcx.sess.source_map();
    let lo = sm.lookup_char_pos(sp.lo());
    let hi = sm.lookup_char_pos(sp.hi());
    let file = match &lo.file.name {
        rustc_span::FileName::Real(r) => r.local_path().map(|p| p.to_string_lossy().to_string()).unwrap_or_else(|| format!("{:?}", r)),
        other => format!("{:?}", other),
    };
    J::obj(vec![
        ("file", J::s(&file)),
        ("line", J::n(lo.line as i64)),
        ("end", J::n(hi.line as i64)),
        ("exp", J::b(sp.from_expansion())),
        ("mac", match mac_name(sp) { Some(m) => J::s(&m), None => J::Null }),
    ])
}

struct BodyCx<'a, 'tcx> {
    tcx: TyCtxt<'tcx>,
    body: &'a Body<'tcx>,
    def: LocalDefId,
    tenv: TypingEnv<'tcx>,
}

impl<'a, 'tcx> BodyCx<'a, 'tcx> {
    fn place(&self, p: &Place<'tcx>) -> J {
        let tcx = self.tcx;
        let mut projs = vec![];
        let mut txt = format!("_{}", p.local.as_usize());
        for (base, elem) in p.iter_projections() {
            let bty = base.ty(&self.body.local_decls, tcx);
            match elem {
                ProjectionElem::Deref => {
                    projs.push(J::obj(vec![("k", J::s("deref")), ("bty", J::s(&pty(tcx, bty.ty)))]));
                    txt = format!("(*{})", txt);
                }
                ProjectionElem::Field(f, fty) => {
                    let name = self.field_name(bty, f.as_usize());
                    projs.push(J::obj(vec![
                        ("k", J::s("field")),
                        ("i", J::n(f.as_usize() as i64)),
                        ("n", J::s(&name)),
                        ("ty", J::s(&pty(tcx, fty))),
                        ("bty", J::s(&pty(tcx, bty.ty))),
                    ]));
                    txt = format!("{}.{}", txt, name);
                }
                ProjectionElem::Downcast(_, v) => {
                    let vname = match bty.ty.kind() {
                        TyKind::Adt(adt, _) if adt.is_enum() => adt.variant(v).name.to_string(),
                        _ => format!("{}", v.as_usize()),
                    };
                    projs.push(J::obj(vec![("k", J::s("downcast")), ("v", J::s(&vname)), ("i", J::n(v.as_usize() as i64))]));
                    txt = format!("({} as {})", txt, vname);
                }
                ProjectionElem::Index(l) => {
                    projs.push(J::obj(vec![("k", J::s("index")), ("l", J::n(l.as_usize() as i64))]));
                    txt = format!("{}[_{}]", txt, l.as_usize());
                }
                ProjectionElem::ConstantIndex { offset, .. } => {
                    projs.push(J::obj(vec![("k", J::s("cindex")), ("i", J::n(offset as i64))]));
                    txt = format!("{}[{}]", txt, offset);
                }
                ProjectionElem::Subslice { .. } => {
                    projs.push(J::obj(vec![("k", J::s("subslice"))]));
                    txt = format!("{}[..]", txt);
                }
                ProjectionElem::OpaqueCast(_) => {
                    projs.push(J::obj(vec![("k", J::s("opaquecast"))]));
                }
                ProjectionElem::UnwrapUnsafeBinder(_) => {
                    projs.push(J::obj(vec![("k", J::s("unwrapbinder"))]));
                }
            }
        }
        let fty = p.ty(&self.body.local_decls, tcx).ty;
        J::obj(vec![
            ("l", J::n(p.local.as_usize() as i64)),
            ("p", J::Arr(projs)),
            ("t", J::s(&txt)),
            ("ty", J::s(&pty(tcx, fty))),
        ])
    }

    fn field_name(&self, bty: mir::PlaceTy<'tcx>, idx: usize) -> String {
        let tcx = self.tcx;
        match bty.ty.kind() {
            TyKind::Adt(adt, _) => {
                let v = match bty.variant_index {
                    Some(v) => adt.variant(v),
                    None => {
                        if adt.is_enum() { return format!("{}", idx); }
                        adt.non_enum_variant()
                    }
                };
                v.fields.iter().nth(idx).map(|f| f.name.to_string()).unwrap_or_else(|| format!("{}", idx))
            }
            TyKind::Closure(d, _) | TyKind::Coroutine(d, _) | TyKind::CoroutineClosure(d, _) => {
                if let Some(ld) = d.as_local() {
                    let caps = tcx.closure_captures(ld);
                    if let Some(c) = caps.get(idx) {
                        return format!("{}", c.to_symbol());
                    }
                }
                format!("{}", idx)
            }
            _ => format!("{}", idx),
        }
    }

    fn operand(&self, o: &Operand<'tcx>) -> J {
        let tcx = self.tcx;
        match o {
            Operand::Copy(p) => J::obj(vec![("k", J::s("copy")), ("pl", self.place(p))]),
            Operand::Move(p) => J::obj(vec![("k", J::s("move")), ("pl", self.place(p))]),
            Operand::Constant(c) => {
                let cty = c.const_.ty();
                let mut fields = vec![("k", J::s("const")), ("ty", J::s(&pty(tcx, cty)))];
                match cty.kind() {
                    TyKind::FnDef(d, args) => {
                        fields.push(("fn", J::s(&nice(tcx, *d))));
                        fields.push(("fnkey", J::s(&defkey(tcx, *d))));
                        fields.push(("fnargs", J::Arr(pargs(tcx, args).iter().map(|s| J::s(s)).collect())));
                    }
                    _ => {
                        // scalar values where cheaply available
                        let v = c.const_.try_eval_scalar_int(tcx, self.tenv);
                        if let Some(v) = v {
                            let sz = v.size();
                            let bits = v.to_bits(sz);
                            fields.push(("val", J::s(&format!("{}", bits))));
                        } else {
                            fields.push(("txt", J::s(&format!("{}", c.const_))));
                        }
                    }
                }
                J::obj(fields)
            }
            #[allow(unreachable_patterns)]
            _ => J::obj(vec![("k", J::s("runtimecheck"))]),
        }
    }

    fn rvalue(&self, r: &Rvalue<'tcx>) -> J {
        let tcx = self.tcx;
        match r {
            Rvalue::Use(o, ..) => J::obj(vec![("k", J::s("use")), ("op", self.operand(o))]),
            Rvalue::Repeat(o, _) => J::obj(vec![("k", J::s("repeat")), ("op", self.operand(o))]),
            Rvalue::Ref(_, bk, p) => {
                let m = match bk { BorrowKind::Mut { .. } => "mut", BorrowKind::Shared => "shared", BorrowKind::Fake(_) => "fake" };
                J::obj(vec![("k", J::s("ref")), ("m", J::s(m)), ("pl", self.place(p))])
            }
            Rvalue::ThreadLocalRef(d) => J::obj(vec![("k", J::s("tls")), ("def", J::s(&nice(tcx, *d)))]),
            Rvalue::RawPtr(k, p) => J::obj(vec![("k", J::s("rawptr")), ("m", J::s(&format!("{:?}", k))), ("pl", self.place(p))]),
            Rvalue::Cast(k, o, t) => {
                let kind = match k {
                    CastKind::Transmute => "transmute".to_string(),
                    CastKind::PointerCoercion(pc, _) => format!("coerce:{:?}", pc),
                    other => format!("{:?}", other),
                };
                J::obj(vec![("k", J::s("cast")), ("ck", J::s(&kind)), ("op", self.operand(o)), ("ty", J::s(&pty(tcx, *t)))])
            }
            Rvalue::BinaryOp(op, ab) => J::obj(vec![("k", J::s("binop")), ("op", J::s(&format!("{:?}", op))), ("a", self.operand(&ab.0)), ("b", self.operand(&ab.1))]),
            Rvalue::UnaryOp(op, a) => J::obj(vec![("k", J::s("unop")), ("op", J::s(&format!("{:?}", op))), ("a", self.operand(a))]),
            Rvalue::Discriminant(p) => J::obj(vec![("k", J::s("discr")), ("pl", self.place(p))]),
            Rvalue::Aggregate(kind, ops) => {
                let opsj: Vec<J> = ops.iter().map(|o| self.operand(o)).collect();
                let mut f = vec![("k", J::s("agg"))];
                match &**kind {
                    AggregateKind::Array(_) => f.push(("ak", J::s("array"))),
                    AggregateKind::Tuple => f.push(("ak", J::s("tuple"))),
                    AggregateKind::Adt(d, v, args, _, _) => {
                        let adt = tcx.adt_def(*d);
                        f.push(("ak", J::s("adt")));
                        f.push(("adt", J::s(&plain_path(tcx, *d))));
                        f.push(("variant", J::s(&adt.variant(*v).name.to_string())));
                        f.push(("vi", J::n(v.as_usize() as i64)));
                        f.push(("fields", J::Arr(adt.variant(*v).fields.iter().map(|x| J::s(&x.name.to_string())).collect())));
                        f.push(("args", J::Arr(pargs(tcx, args).iter().map(|s| J::s(s)).collect())));
                    }
                    AggregateKind::Closure(d, _) => {
                        f.push(("ak", J::s("closure")));
                        f.push(("def", J::s(&nice(tcx, *d))));
                    }
                    AggregateKind::Coroutine(d, _) => {
                        f.push(("ak", J::s("coroutine")));
                        f.push(("def", J::s(&nice(tcx, *d))));
                    }
                    AggregateKind::CoroutineClosure(d, _) => {
                        f.push(("ak", J::s("coroutine_closure")));
                        f.push(("def", J::s(&nice(tcx, *d))));
                    }
                    AggregateKind::RawPtr(..) => f.push(("ak", J::s("rawptr"))),
                }
                f.push(("ops", J::Arr(opsj)));
                J::obj(f)
            }
            Rvalue::CopyForDeref(p) => J::obj(vec![("k", J::s("use")), ("op", J::obj(vec![("k", J::s("copy")), ("pl", self.place(p))]))]),
            Rvalue::WrapUnsafeBinder(o, _) => J::obj(vec![("k", J::s("use")), ("op", self.operand(o))]),
        }
    }

    fn unwind(&self, u: &UnwindAction) -> J {
        match u {
            UnwindAction::Continue => J::s("continue"),
            UnwindAction::Unreachable => J::s("unreachable"),
            UnwindAction::Terminate(_) => J::s("terminate"),
            UnwindAction::Cleanup(bb) => J::n(bb.as_usize() as i64),
        }
    }

    fn terminator(&self, t: &Terminator<'tcx>) -> J {
        let tcx = self.tcx;
        let sp = span_j(tcx, t.source_info.span);
        let bbn = |b: &BasicBlock| J::n(b.as_usize() as i64);
        let mut f: Vec<(&str, J)> = vec![];
        match &t.kind {
            TerminatorKind::Goto { target } => { f.push(("k", J::s("goto"))); f.push(("target", bbn(target))); }
            TerminatorKind::SwitchInt { discr, targets } => {
                f.push(("k", J::s("switch")));
                f.push(("discr", self.operand(discr)));
                let mut arr = vec![];
                for (v, bb) in targets.iter() {
                    arr.push(J::Arr(vec![J::s(&format!("{}", v)), bbn(&bb)]));
                }
                f.push(("targets", J::Arr(arr)));
                f.push(("otherwise", bbn(&targets.otherwise())));
            }
            TerminatorKind::UnwindResume => f.push(("k", J::s("resume"))),
            TerminatorKind::UnwindTerminate(_) => f.push(("k", J::s("abort"))),
            TerminatorKind::Return => f.push(("k", J::s("return"))),
            TerminatorKind::Unreachable => f.push(("k", J::s("unreachable"))),
            TerminatorKind::Drop { place, target, unwind, .. } => {
                f.push(("k", J::s("drop")));
                f.push(("pl", self.place(place)));
                f.push(("target", bbn(target)));
                f.push(("unwind", self.unwind(unwind)));
            }
            TerminatorKind::Call { func, args, destination, target, unwind, fn_span, .. } => {
                f.push(("k", J::s("call")));
                f.push(("func", self.operand(func)));
                f.push(("args", J::Arr(args.iter().map(|a| self.operand(&a.node)).collect())));
                f.push(("dest", self.place(destination)));
                f.push(("target", match target { Some(b) => bbn(b), None => J::Null }));
                f.push(("unwind", self.unwind(unwind)));
                f.push(("fnspan", span_j(tcx, *fn_span)));
                // resolution
                let fty = func.ty(&self.body.local_decls, tcx);
                if let TyKind::FnDef(d, gargs) = fty.kind() {
                    let sig = tcx.fn_sig(*d).skip_binder();
                    f.push(("unsafe_fn", J::b(!sig.safety().is_safe())));
                    if let Some(tr) = tcx.trait_of_assoc(*d) {
                        f.push(("trait", J::s(&plain_path(tcx, tr))));
                        f.push(("method", J::s(&tcx.item_name(*d).to_string())));
                        if let Some(st) = gargs.types().next() {
                            f.push(("self_ty", J::s(&pty(tcx, st))));
                        }
                    } else if let Some(imp) = tcx.inherent_impl_of_assoc(*d) {
                        let st = tcx.type_of(imp).instantiate_identity().skip_norm_wip();
                        f.push(("impl_self", J::s(&ty_head(tcx, st))));
                        f.push(("method", J::s(&tcx.item_name(*d).to_string())));
                    }
                    let res = std::panic::catch_unwind(std::panic::AssertUnwindSafe(|| Instance::try_resolve(tcx, self.tenv, *d, gargs)));
                    match res {
                        Ok(Ok(Some(inst))) => {
                            let kind = match inst.def {
                                ty::InstanceKind::Item(_) => "item",
                                ty::InstanceKind::Virtual(..) => "virtual",
                                ty::InstanceKind::ClosureOnceShim { .. } => "closure_once_shim",
                                ty::InstanceKind::FnPtrShim(..) => "fnptr_shim",
                                ty::InstanceKind::DropGlue(..) => "drop_glue",
                                ty::InstanceKind::CloneShim(..) => "clone_shim",
                                ty::InstanceKind::Intrinsic(_) => "intrinsic",
                                ty::InstanceKind::ReifyShim(..) => "reify",
                                ty::InstanceKind::VTableShim(_) => "vtable_shim",
                                _ => "other",
                            };
                            f.push(("rk", J::s(kind)));
                            let rd = inst.def_id();
                            f.push(("resolved", J::s(&nice(tcx, rd))));
                            f.push(("resolved_key", J::s(&defkey(tcx, rd))));
                            f.push(("resolved_local", J::b(rd.is_local())));
                            f.push(("resolved_args", J::Arr(pargs(tcx, inst.args).iter().map(|s| J::s(s)).collect())));
                        }
                        Ok(Ok(None)) => f.push(("rk", J::s("unresolved"))),
                        Ok(Err(_)) => f.push(("rk", J::s("error"))),
                        Err(_) => f.push(("rk", J::s("panic"))),
                    }
                } else {
                    f.push(("rk", J::s("indirect")));
                    f.push(("functy", J::s(&pty(tcx, fty))));
                }
            }
            TerminatorKind::TailCall { .. } => f.push(("k", J::s("tailcall"))),
            TerminatorKind::Assert { cond, expected, target, unwind, msg } => {
                f.push(("k", J::s("assert")));
                f.push(("cond", self.operand(cond)));
                f.push(("expected", J::b(*expected)));
                f.push(("target", bbn(target)));
                f.push(("unwind", self.unwind(unwind)));
                f.push(("msg", J::s(&format!("{:?}", std::mem::discriminant(&**msg)))));
            }
            TerminatorKind::Yield { value, resume, resume_arg, drop } => {
                f.push(("k", J::s("yield")));
                f.push(("value", self.operand(value)));
                f.push(("target", bbn(resume)));
                f.push(("resume_arg", self.place(resume_arg)));
                f.push(("drop", match drop { Some(b) => bbn(b), None => J::Null }));
            }
            TerminatorKind::CoroutineDrop => f.push(("k", J::s("coroutine_drop"))),
            TerminatorKind::FalseEdge { real_target, imaginary_target } => {
                f.push(("k", J::s("falseedge")));
                f.push(("target", bbn(real_target)));
                f.push(("imaginary", bbn(imaginary_target)));
            }
            TerminatorKind::FalseUnwind { real_target, unwind } => {
                f.push(("k", J::s("falseunwind")));
                f.push(("target", bbn(real_target)));
                f.push(("unwind", self.unwind(unwind)));
            }
            TerminatorKind::InlineAsm { .. } => f.push(("k", J::s("asm"))),
        }
        f.push(("sp", sp));
        J::obj(f)
    }

    fn statement(&self, s: &Statement<'tcx>) -> Option<J> {
        let tcx = self.tcx;
        let sp = span_j(tcx, s.source_info.span);
        match &s.kind {
            StatementKind::Assign(b) => {
                let (p, r) = &**b;
                Some(J::obj(vec![("k", J::s("assign")), ("pl", self.place(p)), ("rv", self.rvalue(r)), ("sp", sp)]))
            }
            StatementKind::SetDiscriminant { place, variant_index } => {
                Some(J::obj(vec![("k", J::s("setdiscr")), ("pl", self.place(place)), ("vi", J::n(variant_index.as_usize() as i64)), ("sp", sp)]))
            }
            StatementKind::StorageDead(l) => Some(J::obj(vec![("k", J::s("dead")), ("l", J::n(l.as_usize() as i64))])),
            StatementKind::StorageLive(l) => Some(J::obj(vec![("k", J::s("live")), ("l", J::n(l.as_usize() as i64))])),
            StatementKind::FakeRead(b) => Some(J::obj(vec![("k", J::s("fakeread")), ("cause", J::s(&format!("{:?}", std::mem::discriminant(&b.0)))), ("pl", self.place(&b.1))])),
            StatementKind::PlaceMention(p) => Some(J::obj(vec![("k", J::s("mention")), ("pl", self.place(p))])),
            StatementKind::Intrinsic(_) => Some(J::obj(vec![("k", J::s("intrinsic")), ("sp", sp)])),
            _ => None,
        }
    }

    fn dump(&self) -> J {
        let tcx = self.tcx;
        let body = self.body;
        let did = self.def.to_def_id();
        let kind = tcx.def_kind(did);
        let mut f: Vec<(&str, J)> = vec![];
        f.push(("name", J::s(&nice(tcx, did))));
        f.push(("key", J::s(&defkey(tcx, did))));
        f.push(("kind", J::s(&format!("{:?}", kind))));
        f.push(("span", span_j(tcx, body.span)));
        let parent = tcx.parent(did);
        f.push(("parent", J::s(&nice(tcx, parent))));
        f.push(("root", J::s(&nice(tcx, tcx.typeck_root_def_id(did)))));
        f.push(("coroutine", J::b(body.coroutine.is_some())));
        if let Some(ck) = tcx.coroutine_kind(did) {
            f.push(("coroutine_kind", J::s(&format!("{:?}", ck))));
        }
        f.push(("arg_count", J::n(body.arg_count as i64)));
        // closure captures
        if matches!(kind, DefKind::Closure) {
            let caps = tcx.closure_captures(self.def);
            let mut arr = vec![];
            for c in caps.iter() {
                arr.push(J::obj(vec![
                    ("name", J::s(&c.to_symbol().to_string())),
                    ("ty", J::s(&pty(tcx, c.place.ty()))),
                    ("by", J::s(&format!("{:?}", c.info.capture_kind))),
                ]));
            }
            f.push(("upvars", J::Arr(arr)));
        }
        // locals
        let mut names: Vec<Option<String>> = vec![None; body.local_decls.len()];
        for vdi in body.var_debug_info.iter() {
            if let VarDebugInfoContents::Place(p) = &vdi.value {
                if p.projection.is_empty() {
                    names[p.local.as_usize()] = Some(vdi.name.to_string());
                }
            }
        }
        let mut locals = vec![];
        for (l, decl) in body.local_decls.iter_enumerated() {
            let mut lf = vec![("ty", J::s(&pty(tcx, decl.ty)))];
            if let Some(n) = &names[l.as_usize()] { lf.push(("name", J::s(n))); }
            lf.push(("user", J::b(decl.is_user_variable())));
            lf.push(("line", J::n(tcx.sess.source_map().lookup_char_pos(decl.source_info.span.lo()).line as i64)));
            locals.push(J::obj(lf));
        }
        f.push(("locals", J::Arr(locals)));
        // upvar debug names (for closures, the debuginfo maps names to projections of _1)
        let mut dbg = vec![];
        for vdi in body.var_debug_info.iter() {
            if let VarDebugInfoContents::Place(p) = &vdi.value {
                if !p.projection.is_empty() {
                    dbg.push(J::obj(vec![("name", J::s(&vdi.name.to_string())), ("pl", self.place(p))]));
                }
            }
        }
        f.push(("dbg", J::Arr(dbg)));
        // blocks
        let mut blocks = vec![];
        for (_bb, data) in body.basic_blocks.iter_enumerated() {
            let stmts: Vec<J> = data.statements.iter().filter_map(|s| self.statement(s)).collect();
            let term = match &data.terminator { Some(t) => self.terminator(t), None => J::Null };
            blocks.push(J::obj(vec![("cleanup", J::b(data.is_cleanup)), ("stmts", J::Arr(stmts)), ("term", term)]));
        }
        f.push(("blocks", J::Arr(blocks)));
        J::obj(f)
    }
}

fn item_facts<'tcx>(tcx: TyCtxt<'tcx>, did: DefId, f: &mut Vec<(&'static str, J)>) {
    // generics + predicates (own + inherited)
    let generics = tcx.generics_of(did);
    let mut gs = vec![];
    let mut g = Some(generics);
    let mut chain = vec![];
    while let Some(gg) = g {
        chain.push(gg);
        g = gg.parent.map(|p| tcx.generics_of(p));
    }
    for gg in chain.iter().rev() {
        for p in gg.own_params.iter() {
            let kind = match p.kind {
                ty::GenericParamDefKind::Lifetime => "lifetime",
                ty::GenericParamDefKind::Type { .. } => "type",
                ty::GenericParamDefKind::Const { .. } => "const",
            };
            let owner = tcx.parent(p.def_id);
            gs.push(J::obj(vec![("name", J::s(&p.name.to_string())), ("kind", J::s(kind)), ("owner", J::s(&nice(tcx, owner)))]));
        }
    }
    f.push(("generics", J::Arr(gs)));
    let preds = tcx.predicates_of(did).instantiate_identity(tcx);
    let mut ps = vec![];
    for (p, _) in preds.into_iter() {
        let p = p.skip_norm_wip();
        ps.push(pred_j(tcx, p));
    }
    f.push(("preds", J::Arr(ps)));
}

fn pred_j<'tcx>(tcx: TyCtxt<'tcx>, p: ty::Clause<'tcx>) -> J {
    match p.kind().skip_binder() {
        ty::ClauseKind::Trait(tp) => {
            let args = pargs(tcx, tp.trait_ref.args);
            J::obj(vec![
                ("k", J::s("trait")),
                ("self", J::s(args.get(0).map(|s| s.as_str()).unwrap_or("?"))),
                ("trait", J::s(&plain_path(tcx, tp.trait_ref.def_id))),
                ("args", J::Arr(args.iter().skip(1).map(|s| J::s(s)).collect())),
                ("txt", J::s(&format!("{}", p))),
            ])
        }
        ty::ClauseKind::TypeOutlives(o) => J::obj(vec![
            ("k", J::s("outlives")),
            ("self", J::s(&pty(tcx, o.0))),
            ("region", J::s(&format!("{}", o.1))),
            ("txt", J::s(&format!("{}", p))),
        ]),
        ty::ClauseKind::Projection(pp) => J::obj(vec![
            ("k", J::s("projection")),
            ("txt", J::s(&format!("{}", p))),
            ("self", J::s(&pargs(tcx, pp.projection_term.args).get(0).cloned().unwrap_or_default())),
            ("assoc", J::s(&plain_path(tcx, pp.projection_term.def_id()))),
            ("term", J::s(&match pp.term.kind() { ty::TermKind::Ty(t) => pty(tcx, t), _ => "?".into() })),
        ]),
        _ => J::obj(vec![("k", J::s("other")), ("txt", J::s(&format!("{}", p)))]),
    }
}

impl Callbacks for Cb {
    fn after_expansion<'tcx>(&mut self, _compiler: &Compiler, tcx: TyCtxt<'tcx>) -> Compilation {
        let want = std::env::var("DSA_CRATE").unwrap_or_else(|_| "desync".to_string());
        let cname = tcx.crate_name(LOCAL_CRATE).to_string();
        let out = match std::env::var("DSA_FACTS_OUT") { Ok(o) => o, Err(_) => return Compilation::Continue };
        if cname != want { return Compilation::Continue; }
        // only the library target of the crate (not tests/examples named the same)
        let crate_types = tcx.crate_types();
        let is_test = tcx.sess.is_test_crate();

        // 1. clone every built body first (nothing may steal them while we look)
        let mut bodies: Vec<(LocalDefId, Body<'tcx>)> = vec![];
        for ld in tcx.hir_body_owners() {
            let kind = tcx.def_kind(ld);
            if !matches!(kind, DefKind::Fn | DefKind::AssocFn | DefKind::Closure) { continue; }
            let b = tcx.mir_built(ld).borrow().clone();
            bodies.push((ld, b));
        }

        let mut fns = vec![];
        for (ld, body) in bodies.iter() {
            let did = ld.to_def_id();
            let tenv = TypingEnv::post_analysis(tcx, did);
            let cx = BodyCx { tcx, body, def: *ld, tenv };
            let mut j = match cx.dump() { J::Obj(v) => v, _ => unreachable!() };
            let kind = tcx.def_kind(did);
            let mut extra: Vec<(&'static str, J)> = vec![];
            item_facts(tcx, did, &mut extra);
            if matches!(kind, DefKind::Fn | DefKind::AssocFn) {
                let sig = tcx.fn_sig(did).instantiate_identity().skip_norm_wip().skip_binder();
                extra.push(("inputs", J::Arr(sig.inputs().iter().map(|t| J::s(&pty(tcx, *t))).collect())));
                extra.push(("output", J::s(&pty(tcx, sig.output()))));
                extra.push(("unsafe", J::b(!sig.safety().is_safe())));
                extra.push(("vis", J::s(&format!("{:?}", tcx.visibility(did)))));
                extra.push(("reachable", J::b(tcx.effective_visibilities(()).is_reachable(*ld))));
                // opaque return types: their bounds
                extra.push(("sigtxt", J::s(&format!("{}", sig))));
            }
            for (k, v) in extra { j.push((k.to_string(), v)); }
            fns.push(J::Obj(j));
        }

        // 2. ADTs, impls, traits
        let mut adts = vec![];
        let mut impls = vec![];
        let mut traits = vec![];
        let mut modules: Vec<J> = vec![];
        for id in tcx.hir_free_items() {
            let did = id.owner_id.to_def_id();
            match tcx.def_kind(did) {
                DefKind::Struct | DefKind::Enum | DefKind::Union => {
                    let adt = tcx.adt_def(did);
                    let mut vs = vec![];
                    for (vi, v) in adt.variants().iter_enumerated() {
                        let discr = if adt.is_enum() { format!("{}", adt.discriminant_for_variant(tcx, vi).val) } else { "0".into() };
                        let mut fs = vec![];
                        for fd in v.fields.iter() {
                            let fty = tcx.type_of(fd.did).instantiate_identity().skip_norm_wip();
                            fs.push(J::obj(vec![
                                ("name", J::s(&fd.name.to_string())),
                                ("ty", J::s(&pty(tcx, fty))),
                                ("vis", J::s(&format!("{:?}", fd.vis))),
                            ]));
                        }
                        vs.push(J::obj(vec![("name", J::s(&v.name.to_string())), ("discr", J::s(&discr)), ("fields", J::Arr(fs))]));
                    }
                    let mut f: Vec<(&'static str, J)> = vec![
                        ("path", J::s(&plain_path(tcx, did))),
                        ("kind", J::s(&format!("{:?}", tcx.def_kind(did)))),
                        ("variants", J::Arr(vs)),
                        ("vis", J::s(&format!("{:?}", tcx.visibility(did)))),
                        ("reachable", J::b(tcx.effective_visibilities(()).is_reachable(id.owner_id.def_id))),
                        ("span", span_j(tcx, tcx.def_span(did))),
                    ];
                    item_facts(tcx, did, &mut f);
                    adts.push(J::obj(f));
                }
                DefKind::Impl { of_trait } => {
                    let self_ty = tcx.type_of(did).instantiate_identity().skip_norm_wip();
                    let mut f: Vec<(&'static str, J)> = vec![
                        ("self_ty", J::s(&pty(tcx, self_ty))),
                        ("self_head", J::s(&ty_head(tcx, self_ty))),
                        ("span", span_j(tcx, tcx.def_span(did))),
                        ("key", J::s(&defkey(tcx, did))),
                    ];
                    if of_trait {
                        let tr = tcx.impl_trait_ref(did).instantiate_identity().skip_norm_wip();
                        f.push(("trait", J::s(&plain_path(tcx, tr.def_id))));
                        f.push(("trait_args", J::Arr(pargs(tcx, tr.args).iter().skip(1).map(|s| J::s(s)).collect())));
                        let hdr = tcx.impl_trait_header(did);
                        f.push(("unsafe", J::b(!hdr.safety.is_safe())));
                        f.push(("polarity", J::s(&format!("{:?}", hdr.polarity))));
                    } else {
                        f.push(("trait", J::Null));
                    }
                    let items: Vec<J> = tcx.associated_item_def_ids(did).iter().map(|d| J::s(&nice(tcx, *d))).collect();
                    f.push(("items", J::Arr(items)));
                    item_facts(tcx, did, &mut f);
                    impls.push(J::obj(f));
                }
                DefKind::Mod => {
                    modules.push(J::s(&plain_path(tcx, did)));
                }
                DefKind::Trait => {
                    let mut f: Vec<(&'static str, J)> = vec![("path", J::s(&plain_path(tcx, did))), ("vis", J::s(&format!("{:?}", tcx.visibility(did)))),
                        ("reachable", J::b(tcx.effective_visibilities(()).is_reachable(id.owner_id.def_id)))];
                    let sup = tcx.explicit_super_predicates_of(did);
                    let mut sp = vec![];
                    for u in sup.iter_identity_copied() { let (c, _) = u.skip_norm_wip(); sp.push(pred_j(tcx, c)); }
                    f.push(("supers", J::Arr(sp)));
                    traits.push(J::obj(f));
                }
                _ => {}
            }
        }

        let root = J::obj(vec![
            ("crate", J::s(&cname)),
            ("is_test", J::b(is_test)),
            ("crate_types", J::s(&format!("{:?}", crate_types))),
            ("opt_level", J::s(&format!("{:?}", tcx.sess.opts.optimize))),
            ("debug_assertions", J::b(tcx.sess.opts.debug_assertions)),
            ("target", J::s(&tcx.sess.opts.target_triple.to_string())),
            ("fns", J::Arr(fns)),
            ("adts", J::Arr(adts)),
            ("impls", J::Arr(impls)),
            ("traits", J::Arr(traits)),
            ("modules", J::Arr(modules)),
        ]);
        let mut s = String::new();
        root.write(&mut s);
        let path = if is_test { format!("{}.test", out) } else { out };
        std::fs::write(&path, s).expect("write facts");
        Compilation::Continue
    }
}

fn main() {
    let mut args: Vec<String> = std::env::args().collect();
    // RUSTC_WORKSPACE_WRAPPER: argv[1] is the real rustc
    if args.len() > 1 && (args[1].ends_with("rustc") || args[1].contains("/rustc")) {
        args.remove(1);
    }
    let mut cb = Cb;
    rustc_driver::run_compiler(&args, &mut cb);
}
