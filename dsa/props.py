"""Property -> rules.  A rule that is a necessary condition of several properties is run by each of them."""
from . import rules_proto as RP
from . import rules_locks as RL
from . import rules_lw as RW
from . import rules_qd as RQ
from . import rules_guard as RG

ASSUMPTIONS = [
    "rustc's MIR construction, type checking and callee resolution (facts are read from the compiler's own built MIR)",
    'every access to JobQueueCore goes through its Mutex (checked: state written only inside a JobQueue.core critical section)',
    'dynamic calls resolve within closed candidate sets: ScheduledJob is crate-private; wakers are in-crate ArcWake types or caller-supplied',
    'std::sync Mutex/Condvar/thread::park semantics; user closures, futures and streams are arbitrary code',
    'host target only (cfg(target_arch = "wasm32") items are not compiled and not analysed)',
]

_cache_attr = '_rule_cache'


def _run(ctx, func):
    cache = getattr(ctx, _cache_attr, None)
    if cache is None:
        cache = {}
        setattr(ctx, _cache_attr, cache)
    if func not in cache:
        cache[func] = func(ctx)
    return cache[func]


def evaluate(pid, ctx):
    out = []
    seen = set()
    for func, names in PROPS[pid]['rules']:
        for i in _run(ctx, func):
            if names is not None and i.rule not in names and not i.rule.startswith('analysis'):
                continue
            if i.ident() in seen:
                continue
            seen.add(i.ident())
            out.append(i)
    return out


PROPS = {}


def prop(pid, explanation, decided, not_decided, rules, assumptions=None):
    PROPS[pid] = {'explanation': explanation, 'decided': decided, 'not_decided': not_decided, 'rules': rules, 'assumptions': assumptions or []}


prop('C01',
     'Static structural rules over the type-checked program (built MIR): the right to run a queue is modelled as a token; '
     'the check decides that jobs execute only with the token held (interprocedural typestate over the extracted state writes), '
     'that the token is acquired in the critical section that tested the state, and that no configuration with two holders is '
     'reachable in the protocol extracted from the code (counting abstraction over the extracted transition relation). '
     'It decides the shape of the protocol for all schedules at once, not the behaviour of executions.',
     ['jobs execute only under the token (TOK-exec)', 'no second holder reachable in the extracted protocol (PA-excl)',
      'a suspended job goes back to the queue before any release (TOK-requeue)'],
     ['that the abstraction\'s transitions are the only way threads interleave (trusted: all accesses go through Mutex<JobQueueCore>)',
      'overlap of a completed future_sync user future\'s destructor with the next operation'],
     [(RP.tok_exec, None), (RP.pa_rules, {'PA-excl', 'PA-stuck', 'PA'}), (RP.tok_requeue, None), (RQ.qd_queue, None)])

prop('C03',
     'Static structural rules: an acquired token is always released or handed on (TOK-leak, globally PA-stuck); every owner release to '
     'Idle is followed by reschedule_queue or made under the queue-empty test (TOK-resched); marking a queue Pending is followed by '
     'pushing it on the schedule and asking for a thread (TOK-pending); a job that returned Pending is put back before release (TOK-requeue).',
     ['token released/handed on on every path (TOK-leak, PA-stuck)', 'Idle release followed by reschedule or made under the empty test (TOK-resched, TOK-resched-body)',
      'Pending implies in the schedule and a thread asked (TOK-pending)', 'no job dropped while suspended (TOK-requeue)'],
     ['that a woken pool thread is eventually scheduled by the OS', 'quiescence of a whole program'],
     [(RP.tok_leak, None), (RP.pa_rules, {'PA-stuck', 'PA'}), (RP.tok_resched, None), (RP.tok_pending, None), (RP.tok_requeue, None), (RQ.qd_queue, None), (RQ.qd_schedule, None), (RQ.qd_once, None), (RL.try_rule, None)])

prop('C09',
     'Static structural rules: a Busy outcome of try_sync has written nothing (every path to Err(Busy) leaves the token untouched: TOK-leak), '
     'try_sync claims the queue only from (Idle, queue empty) exactly like sync\'s immediate row (TR-sibling), after the immediate run the '
     'queue goes Idle and is rescheduled (TOK-resched), and no running state without a runner is reachable (PA-stuck).',
     ['Busy has written nothing (TOK-leak on try_sync)', 'immediate only on Idle and empty (TR-sibling)', 'Idle then reschedule_queue after the run (TOK-resched)', 'no ownerless running state (PA-stuck)'],
     ['"succeeds once quiescent" as a statement about time'],
     [(RP.tok_leak, None), (RP.tr_sibling, None), (RP.tok_resched, None), (RP.pa_rules, {'PA-stuck', 'PA'}), (RP.tok_exec, None)])


prop('C04',
     'Static structural rules: the sync strategy is chosen in one critical section from the state and waits only when somebody owns or will wake the queue (TR-defer); '
     'the condition-variable handshake of the blocked caller (CV1: every notifier that can reach the waiter changes the waiter\'s condition under the waiter\'s mutex first; CV2: the wait is re-tested in a loop); '
     'no lock cycle and nothing foreign or blocking under an internal lock (LO, BL); caller-side execution holds the token (TOK-exec).',
     ['strategy chosen atomically; waits only when the queue is owned or parked (TR-defer)', 'blocked caller cannot miss its wake-up (CV1, CV2)', 'no lock-order cycle, no blocking/foreign code under an internal lock (LO, BL)',
      'caller-side execution holds the token (TOK-exec)'],
     ['termination of the operations ahead; OS fairness', '"from inside a job of a different Desync" is derived from BL (no internal lock is held while a job runs)'],
     [(RP.tr_defer, None), (RL.cv, None), (RL.lo, None), (RL.bl, None), (RL.lock_classes, None), (RP.tok_exec, None), (RP.tok_resched, None)])

prop('C06',
     'Static structural rules on the wake-up protocol: from every parked configuration reachable in the extracted protocol, wakers and claimers alone lead back to a running queue (PA-wake); '
     'the two queue wakers agree on the states both handle (TR-sibling); a job that returned Pending is back on the queue before the queue is parked (TOK-requeue).',
     ['every parked configuration is resumable by waker/claimer transitions (PA-wake)', 'wakers agree on Running and WaitingForWake (TR-sibling)', 'requeue before parking (TOK-requeue)'],
     ['"for every position of the wake-up" as executions', 'futures that break the waker contract'],
     [(RP.pa_rules, {'PA-wake', 'PA'}), (RP.tr_sibling, None), (RP.tok_requeue, None)])

prop('C07',
     'Static structural rules: result and waker of a scheduler future live under one mutex with check-and-register / set-and-take atomic (LW1, LW2 on SchedulerFutureResult.waker; the owner\'s '
     'unconditional stores are justified by LW-owner); poll never decides to wait while the queue is Idle or Pending (TR-defer); the polling task drains under the token (TOK-exec, TOK-leak).',
     ['check-and-register / set-and-take atomic (LW1, LW2, LW-owner)', 'poll never defers on Idle/Pending (TR-defer)', 'poll-side drain holds and releases the token (TOK-exec, TOK-leak)'],
     ['equality of the delivered value with what the user closure computed', 'ordering of sibling polls as executions'],
     [(RW.lw, None), (RW.lw_owner, None), (RP.tr_defer, None), (RP.tok_exec, None), (RP.tok_leak, None)])

prop('C10',
     'Static structural rules: no scheduler-wide lock is held at any job-execution or blocking site (BL), the lock-order graph is acyclic (LO), and the dormant-thread handshake cannot misread a transient lock hold (TRY).',
     ['no scheduler-wide lock held while a job runs or a thread blocks (BL)', 'lock order acyclic (LO)', 'dormant handshake uses a blocking lock (TRY)'],
     ['actual parallel progress (liveness); the claim is limited to these structural conditions'],
     [(RL.bl, None), (RL.lo, None), (RL.try_rule, None), (RL.lock_classes, None)])

prop('C12',
     'Static structural rules on the pipe stream core: consumer and back-pressure handshakes register/notify atomically (LW1, LW2 on notify and backpressure_release_notify); '
     'the output buffer is appended by the producer only and taken from the front by the consumer only (QD-pending); wakers are woken outside the lock, no guard lives across an await (BL, AW).',
     ['consumer and back-pressure handshakes (LW1, LW2)', 'buffer discipline (QD-pending)', 'wakes outside the lock, no guard across await (BL, AW)'],
     ['"for every buffer depth and interleaving" as executions', 'depth 0 is outside the property\'s range'],
     [(RW.lw, None), (RQ.qd_pending, None), (RL.bl, None), (RL.aw, None)])

prop('C15',
     'Static structural rules: an ActiveQueue guard is live in some frame of every call path to every execution site, so unwinding marks the queue (TOK-guard); its Drop marks only while panicking (AQ-drop); '
     'nothing leaves Panicked (TR-dead); every scheduling entry point refuses a Panicked queue by panicking, sync_no_panic reports it, Desync::drop uses it while unwinding (ORD-C15-refuse); '
     'finished pool threads are reaped before a dormant one is looked for (ORD-C15-reap); no user code runs under a scheduler mutex, so a panic cannot poison one (BL).',
     ['guard covers every execution site (TOK-guard, AQ-drop)', 'nothing leaves Panicked (TR-dead)', 'entry points refuse a panicked queue (ORD-C15-refuse)', 'dead threads reaped (ORD-C15-reap)', 'no user code under scheduler locks (BL)'],
     ['"other objects remain fully usable" as executions'],
     [(RG.tok_guard, None), (RG.aq_drop, None), (RP.tr_dead, None), (RG.c15_refuse, None), (RG.c15_reap, None), (RL.bl, None)])

prop('C16',
     'Static structural rules: the producer registers notify_stream_closed only after re-reading `closed` in the same critical section, and PipeStream::drop sets `closed` and takes+wakes the slot in one critical section (LW1, LW2); '
     'the waker woken under the lock is the pipe\'s own (LW-prov), lock order stays acyclic (LO).',
     ['closed re-read before registering; drop sets closed and wakes in one section (LW1, LW2)', 'provenance of the waker woken under the lock (LW-prov, LO)'],
     ['drop positions as executions'],
     [(RW.lw, None), (RW.lw_prov, None), (RL.lo, None)])
