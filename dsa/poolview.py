"""The scheduling request as one control-flow graph: schedule_thread with the pool helpers it calls (schedule_dormant,
spawn_thread_if_less_than_maximum) inlined at their call sites.  Where the walk over the thread table, the room test and the retry live -
in schedule_thread, in schedule_dormant, or split between them - is a matter of style; what the pool rules ask is about the order of these
steps on the paths of one request, and that is read off this graph (path-sensitively: an inlined `return false` reaches only the caller's
false edge).  A recursive call is left in place: it is the retry."""
import copy

from .facts import Fn, render
from .flatten import _inline_into
from .ordq import result_edges, edge_for, feasible_reach

ROOT = 'desync::SchedulerCore::schedule_thread'
DORMANT = 'desync::SchedulerCore::schedule_dormant'
SPAWN = 'desync::SchedulerCore::spawn_thread_if_less_than_maximum'
REAP = 'desync::SchedulerCore::remove_finished_threads'
OPTION = 'core::option::Option'


class PoolView:
    def __init__(self, ctx):
        F = ctx.F
        self.ok = False
        self.why = ''
        root = F.fn(ROOT)
        if root is None:
            self.why = 'schedule_thread not found'
            return
        host = copy.deepcopy(root.j)
        stacks = [()] * len(host['blocks'])
        changed = True
        rounds = 0
        while changed and rounds < 12:
            changed = False
            rounds += 1
            for bi, b in enumerate(host['blocks']):
                t = b['term']
                if not t or t['k'] != 'call' or b['cleanup']:
                    continue
                callee = t['func'].get('fn')
                if callee not in (DORMANT, SPAWN) or callee in stacks[bi]:
                    continue
                cf = F.fn(callee)
                if cf is None or len(t['args']) != cf.arg_count:
                    continue
                n0 = len(host['blocks'])
                _inline_into(host, bi, copy.deepcopy(cf.j), {})
                stacks += [stacks[bi] + (callee,)] * (len(host['blocks']) - n0)
                changed = True
                break
        host['name'] = ROOT          # reports name the real function
        self.fn = fn = Fn(host, F)
        self.stacks = stacks
        live = set(fn.reachable_blocks(0))
        self.live = live
        nm = lambda t: t['func'].get('fn') or ''
        self.reaps = [bb for bb, t in fn.calls() if nm(t) == REAP and bb in live and not fn.blocks[bb]['cleanup']]
        self.retries = [bb for bb, t in fn.calls() if nm(t) in (ROOT, DORMANT) and bb in live and not fn.blocks[bb]['cleanup']]
        # the room test: a comparison of the thread table's length
        self.counts = []
        for bb, b in enumerate(fn.blocks):
            t = b['term']
            if bb not in live or b['cleanup'] or not t or t['k'] != 'switch':
                continue
            for s_ in b['stmts']:
                if s_['k'] == 'assign' and s_['rv']['k'] == 'binop' and s_['rv']['op'] in ('Lt', 'Gt', 'Le', 'Ge', 'Eq', 'Ne'):
                    txt = render(fn.expr_of_operand(s_['rv']['a'])) + render(fn.expr_of_operand(s_['rv']['b']))
                    if 'len(' in txt and 'threads' in txt:
                        self.counts.append(bb)
        self.pushes = [bb for bb, t in fn.calls() if nm(t).endswith('::Vec::push') and bb in live and not fn.blocks[bb]['cleanup']
                       and t['args'] and t['args'][0]['k'] != 'const' and 'SchedulerThread' in t['args'][0]['pl']['ty']]
        # the walk over the thread table that looks for a dormant thread, and the edge on which it is exhausted
        self.walk_none = []
        for bb, t in fn.calls():
            if bb in live and not fn.blocks[bb]['cleanup'] and nm(t).endswith('Iterator::next') and t['args'] and 'SchedulerThread' in t['args'][0].get('pl', {}).get('ty', ''):
                e = result_edges(fn, bb)
                none = edge_for(e, OPTION, 'None') if e else None
                if none is not None:
                    self.walk_none.append(none)
        self.hand_overs = [bb for bb, t in fn.calls() if nm(t).endswith('SchedulerThread::run') and bb in live and not fn.blocks[bb]['cleanup']]
        self.exits = [bb for bb in fn.exits() if bb in live and not fn.blocks[bb]['cleanup']]
        self.ok = True

    def always_between(self, src, targets, through):
        """every feasible path from src to a block of `targets` passes a block of `through`"""
        fn = self.fn
        if fn.must_pass(src, set(targets), set(through)):
            return True
        return not feasible_reach(fn, src, set(targets), set(through), rearm=True)

    def where(self):
        parts = sorted(set(s[-1].split('::')[-1] for s in (self.stacks[b] for b in self.counts) if s)) or ['schedule_thread']
        return 'room test in %s, %d reap call(s), %d walk(s), %d retry site(s)' % ('/'.join(parts), len(self.reaps), len(self.walk_none), len(self.retries))


def pool_view(ctx):
    if not hasattr(ctx, '_pool_view'):
        ctx._pool_view = PoolView(ctx)
    return ctx._pool_view
