#!/usr/bin/env python3
"""Runs every property's check over /repo + patch and prints everything that is not `ok` (violations and undecided): a
behaviour-preserving variant must print nothing.   usage: eval_benign.py <patch>"""
import os
import sys
VERIF = os.path.dirname(os.path.dirname(os.path.abspath(__file__)))
sys.path.insert(0, VERIF)
from dsa import selfcheck, props  # noqa
r = selfcheck.run_mutant({'patch': os.path.abspath(sys.argv[1])}, '/repo', sorted(props.PROPS), want=('violation', 'undecided'))
if r['status'] != 'ran':
    print(r)
    sys.exit(1)
seen = set()
for p, v in sorted(r['violations'].items()):
    for x in v:
        k = (x['rule'], x['key'], x['verdict'])
        if k in seen or (p == 'C04' and x['rule'] == 'CV1' and x['key'] == 'SchedulerCore::reschedule_queue|notify'):
            continue
        seen.add(k)
        print(p, x['verdict'], x['rule'], x['key'])
print('SILENT' if not seen else '%d instance(s) not ok' % len(seen))
