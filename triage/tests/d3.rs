use desync::scheduler::*;
use std::sync::*;
use std::sync::atomic::{AtomicUsize, Ordering};
use std::time::{Duration, Instant};
#[test]
fn d3_dormant_handshake_at_max() {
    let sched = Arc::new(Scheduler::new());
    sched.set_max_threads(1);
    sched.despawn_threads_if_overloaded();
    let iters = 5_000_000usize;
    let ran = Arc::new(AtomicUsize::new(0));
    let start = Instant::now();
    for i in 0..iters {
        let q = queue();
        let r = ran.clone();
        for _ in 0..(i % 41) { std::hint::spin_loop(); }
        sched.desync(&q, move || { r.fetch_add(1, Ordering::Release); });
        let t0 = Instant::now();
        while ran.load(Ordering::Acquire) < i+1 {
            if t0.elapsed() > Duration::from_secs(3) {
                println!("D3 STRANDED at iteration {} after {:?}: queue = {:?} scheduler = {:?}", i, start.elapsed(), q, sched);
                return;
            }
            std::hint::spin_loop();
        }
    }
    println!("D3 nothing stranded in {} iterations ({:?})", iters, start.elapsed());
}
