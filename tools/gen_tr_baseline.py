#!/usr/bin/env python3
"""Regenerates dsa/tr_baseline.json (the extracted non-identity transition relation per named function) from /repo."""
import json
import os
import sys
VERIF = os.path.dirname(os.path.dirname(os.path.abspath(__file__)))
sys.path.insert(0, VERIF)
from dsa import extract            # noqa
from dsa.ctx import Ctx            # noqa
from dsa.rules_proto import relation_by_root   # noqa

facts, info = extract.extract('/repo', 'dev')
ctx = Ctx(facts, info)
rel = relation_by_root(ctx)
json.dump({'comment': 'non-identity transitions of the queue state per named function on the pinned tree (+ fix commits); see TR-base in dsa/rules_proto.py',
           'relation': {k: sorted(v) for k, v in sorted(rel.items())}}, open(os.path.join(VERIF, 'dsa', 'tr_baseline.json'), 'w'), indent=0)
print('%d functions, %d transitions' % (len(rel), sum(len(v) for v in rel.values())))
