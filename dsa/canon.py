"""Canonical item names: module paths of the crate are dropped (`desync::scheduler::core::SchedulerCore` -> `desync::SchedulerCore`)
and methods of in-crate traits are named like inherent methods (`<desync::Job as desync::ScheduledJob>::run` -> `desync::Job::run`),
so that moving an item to another module, or turning an inherent method into a private trait method, does not change any anchor."""
import json
import re


def canonicalize(j):
    mods = [m for m in j.get('modules', []) if not m.endswith('::test') and '::test::' not in m]
    crate = j.get('crate', 'desync')
    txt = json.dumps(j)
    # two types whose names differ only in the module (a new `pipe::DrainWaker` beside `scheduler_future::DrainWaker`) must not
    # become one: the one that is not at its reviewed path keeps a module suffix (`DrainWaker_pipe`)
    import os
    kp = os.path.join(os.path.dirname(os.path.abspath(__file__)), 'known_adt_paths.txt')
    known_paths = set(open(kp).read().split()) if os.path.exists(kp) else set()
    groups = {}
    for a in j.get('adts', []):
        pth = a.get('path') or ''
        owner = next((m for m in sorted(mods, key=len, reverse=True) if pth.startswith(m + '::')), None)
        if owner is None or '::' in pth[len(owner) + 2:]:
            continue        # items of functions / impls keep their own path
        groups.setdefault(pth.rsplit('::', 1)[1], []).append(pth)
    for base, members in groups.items():
        if len(members) < 2:
            continue
        keep = [m for m in members if m in known_paths][:1] or members[:1]
        for m in members:
            if m not in keep:
                mod_last = m.rsplit('::', 2)[-2]
                txt = re.sub(r'(?<![A-Za-z0-9_])' + re.escape(m) + r'(?![A-Za-z0-9_])', m + '_' + mod_last, txt)
    if mods:
        mods.sort(key=len, reverse=True)
        pat = re.compile(r'(?<![A-Za-z0-9_])(?<!::)(?:' + '|'.join(re.escape(m) for m in mods) + r')::')
        txt = pat.sub(crate + '::', txt)
    # in-crate trait methods -> inherent style (self type printed without generic arguments by the driver)
    txt = re.sub(r'<(%s::[A-Za-z0-9_]+) as %s::[A-Za-z0-9_]+>::' % (re.escape(crate), re.escape(crate)), r'\1::', txt)
    j2 = json.loads(txt)
    # a statically resolved call of an in-crate trait method names its implementation (as if it were an inherent method)
    names = set(f['name'] for f in j2['fns'])
    for f in j2['fns']:
        for b in f['blocks']:
            t = b.get('term')
            if t and t['k'] == 'call' and t.get('resolved_local') and t.get('rk') == 'item' and (t.get('trait') or '').startswith(crate + '::') \
                    and t.get('resolved') in names and t['func'].get('fn') != t['resolved']:
                t['func']['trait_fn'] = t['func'].get('fn')
                t['func']['fn'] = t['resolved']
    # `for job in receiver.iter()` / `receiver.into_iter()`: the iterator's next() is the blocking receive of `while let Ok(job) = receiver.recv()`
    for f in j2['fns']:
        for b in f['blocks']:
            t = b.get('term')
            if t and t['k'] == 'call' and t['func'].get('fn') == 'core::iter::traits::iterator::Iterator::next' \
                    and str(t.get('self_ty') or '').startswith(('std::sync::mpsc::Iter<', 'std::sync::mpsc::IntoIter<')):
                t['func']['fn'] = 'std::sync::mpsc::Receiver::recv_iter'
    return j2
