#!/usr/bin/env python3
"""Registers a behaviour-preserving variant: add_benign.py <out dir with patch.diff [+notes.md]> <name> <what>"""
import json, os, shutil, sys
VERIF = os.path.dirname(os.path.dirname(os.path.abspath(__file__)))
src, name, what = sys.argv[1], sys.argv[2], sys.argv[3]
shutil.copy(os.path.join(src, 'patch.diff'), os.path.join(VERIF, 'mutants', name + '.patch'))
if os.path.exists(os.path.join(src, 'notes.md')):
    shutil.copy(os.path.join(src, 'notes.md'), os.path.join(VERIF, 'mutants', name + '.notes.md'))
p = os.path.join(VERIF, 'mutants', 'index.json')
idx = json.load(open(p))
idx['benign'] = [b for b in idx['benign'] if b['name'] != name]
e = {'name': name, 'patch': name + '.patch', 'origin': 'manual', 'what': what}
if len(sys.argv) > 4 and sys.argv[4] == '--undecided-ok':
    e['undecided_ok'] = True
idx['benign'].append(e)
json.dump(idx, open(p, 'w'), indent=1)
print('registered', name, len(idx['benign']), 'benign variants')
