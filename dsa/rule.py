"""Rule results.  A rule evaluates *instances* (obligations found in the code) and gives each a verdict."""

OK, VIOLATION, UNDECIDED = 'ok', 'violation', 'undecided'


class Inst:
    __slots__ = ('rule', 'key', 'verdict', 'detail', 'loc', 'fn', 'extra')

    def __init__(self, rule, key, verdict, detail='', loc='', fn='', extra=None):
        self.rule = rule
        self.key = key          # position-free instance key (function + semantic description)
        self.verdict = verdict
        self.detail = detail
        self.loc = loc          # file:line, for humans only
        self.fn = fn
        self.extra = extra or {}

    def ident(self):
        return '%s|%s' % (self.rule, self.key)

    def to_json(self):
        d = {'rule': self.rule, 'key': self.key, 'verdict': self.verdict, 'detail': self.detail, 'loc': self.loc}
        if self.fn:
            d['fn'] = self.fn
        if self.extra:
            d['extra'] = self.extra
        return d


def ok(rule, key, detail='', loc='', fn='', extra=None):
    return Inst(rule, key, OK, detail, loc, fn, extra)


def bad(rule, key, detail='', loc='', fn='', extra=None):
    return Inst(rule, key, VIOLATION, detail, loc, fn, extra)


def undecided(rule, key, detail='', loc='', fn='', extra=None):
    return Inst(rule, key, UNDECIDED, detail, loc, fn, extra)
