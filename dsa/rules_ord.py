"""A8 ORD: ordering rules instantiated per property (dominance / must-pass-through / def-use on resolved items)."""
from collections import defaultdict

from .facts import short, clean_ty, ty_head, render, expr_root
from .ordq import calls, calls_resolved, dominates, edom, result_edges, edge_for, inner_switch, await_sites, upvar_of, all_paths_pass, switch_of_local
from .proto import JQC
from .rule import ok, bad, undecided
from .rules_lw import FieldUse
from .rules_locks import cg, bounded_join, join_unknown
from .locks import lock_sites
from .callgraph import BLOCKING

S = 'desync::Scheduler::'
SJD = S + 'schedule_job_desync'
POLL_ENUM = 'core::task::poll::Poll'
RESULT = 'core::result::Result'
OPTION = 'core::option::Option'


def _fn(ctx, name, rule, out, key=None):
    fn = ctx.F.fn(name)
    if not fn:
        out.append(undecided(rule, key or ('anchor:' + short(name)), 'anchor %s not found' % name))
    return fn


def _children(ctx, root_name):
    return [f for f in ctx.F.crate_fns() if (f.root or f.name) == root_name and f.name != root_name]


def _queue_push_blocks(ctx, fn):
    u = FieldUse(fn, JQC)
    return [bb for (bb, m, t) in u.calls.get('queue', []) if m == 'push_back']


def _conversion_sources(k, F, lit_bb):
    """A literal answer that is produced by converting a private answer enum at the boundary (`match answer { Keep => true, Done => false }`,
    `answer.keeps_polling()` = `matches!(..)`): the blocks that really decide are the ones that build that variant of the enum.
    -> blocks that construct the variant which leads to lit_bb, or [] when lit_bb is not an arm of such a conversion."""
    for sb, b in enumerate(k.blocks):
        t = b['term']
        if not t or t['k'] != 'switch' or b['cleanup']:
            continue
        X = None
        for s_ in b['stmts']:
            if s_['k'] == 'assign' and s_['rv']['k'] == 'discr':
                pl = s_['rv']['pl']
                if not pl['p']:
                    X = pl['l']
                elif all(p_['k'] == 'deref' for p_ in pl['p']):
                    # `&answer` handed to a (now inlined) method: follow the reference temporaries back to the local they point at
                    l_ = pl['l']
                    for _ in range(6):
                        ds_ = [d_ for d_ in k.defs().get(l_, []) if not k.blocks[d_[1]]['cleanup']]
                        if len(ds_) != 1 or ds_[0][0] != 'stmt':
                            break
                        rv_ = ds_[0][3]
                        if rv_['k'] == 'ref' and not rv_['pl']['p']:
                            X = rv_['pl']['l']
                            break
                        if rv_['k'] == 'ref' and all(p_['k'] == 'deref' for p_ in rv_['pl']['p']):
                            l_ = rv_['pl']['l']
                        elif rv_['k'] == 'use' and rv_['op']['k'] in ('copy', 'move') and not rv_['op']['pl']['p']:
                            l_ = rv_['op']['pl']['l']
                        else:
                            break
        if X is None:
            continue
        ety = ty_head(clean_ty(k.local_ty(X) or ''))
        adt = F.adts.get(ety)
        if not adt or adt.get('kind') != 'Enum' or ety in ('desync::QueueState',):
            continue
        tg = [(str(v), tb) for v, tb in t['targets']]
        hit = [v for v, tb in tg if tb == lit_bb or (edom(k, tb, lit_bb))]
        variants = [str(v_['discr']) for v_ in adt['variants']]
        if not hit and (t['otherwise'] == lit_bb or edom(k, t['otherwise'], lit_bb)):
            rest = [v for v in variants if v not in [x for x, _ in tg]]
            hit = rest if len(rest) == 1 else []
        if len(hit) != 1:
            continue
        # a *conversion*: every arm of the switch does nothing but produce a literal (no call, no other store) - a `match` on a readiness
        # or decision enum whose arms act and then answer is not one

        def pure_literal_arm(tb_):
            cur, steps = tb_, 0
            while steps < 6:
                blk = k.blocks[cur]
                if any(s_['k'] == 'assign' and not (s_['rv']['k'] == 'use' and s_['rv']['op']['k'] == 'const') for s_ in blk['stmts']):
                    return False
                if any(s_['k'] == 'assign' for s_ in blk['stmts']):
                    return True
                tt_ = blk['term']
                if not tt_ or tt_['k'] not in ('goto', 'falseedge') or blk['cleanup']:
                    return False
                cur = tt_['target']
                steps += 1
            return False
        arms = [tb for v, tb in tg] + [t['otherwise']]
        arms = [a_ for a_ in arms if k.blocks[a_]['term'] and k.blocks[a_]['term']['k'] != 'unreachable']
        if len(arms) < 2 or not all(pure_literal_arm(a_) for a_ in arms):
            continue
        want = hit[0]
        names = dict((str(v_['discr']), v_['name']) for v_ in adt['variants'])
        # every definition of X (through moves, wrapper payloads, inlined returns) that builds that variant
        from .ordq import trace_sources
        leaves = trace_sources(k, {'l': X, 'p': []})
        okx = bool(leaves) and all(kind_ == 'agg' and what_.get('adt') == ety for kind_, bx_, what_ in leaves)
        out = [bx_ for kind_, bx_, what_ in (leaves or []) if kind_ == 'agg' and str(what_.get('variant')) == names.get(want)]
        if okx and out:
            return out
    return []


def pipe_result_blocks(ctx, k):
    """What a pipe's poll coroutine `k` answers, in the terms of its only consumer (PipeContext::poll): blocks of k that set the result to
    a value on which PipeContext::poll releases the poll function ("stop") and blocks that set any other value ("keep").
    Works for a bool result as well as for a two-variant enum.  -> (keep_blocks, stop_blocks) or None when the shape is not recognised."""
    F = ctx.F
    pp = F.fn('desync::PipeContext::poll')
    if not pp:
        return None
    stop_vals = None
    for c in [x for x in _children(ctx, pp.name) if x.is_coroutine]:
        H = ctx.held(c)
        nones = []
        for bb, b in enumerate(c.blocks):
            if b['cleanup']:
                continue
            for s_ in b['stmts']:
                if s_['k'] == 'assign' and s_['pl']['p']:
                    ev = c.expr_of_rvalue(s_['rv'])
                    if ev[0] == 'agg' and ev[2].endswith('Option::None') and 'PipeContext.poll_fn' in (H.held_before(bb, 0) | H.held_at_term(bb)):
                        nones.append(bb)
        aws = await_sites(c)
        if not nones or not aws:
            continue
        nb = nones[0]
        from .ordq import feasible_reach
        for a in aws:
            if a['ready'] is None:
                continue
            pd = c.blocks[a['poll_bb']]['term']['dest']['l']
            X = None
            for b in c.blocks:
                for s_ in b['stmts']:
                    if s_['k'] == 'assign' and not s_['pl']['p'] and s_['rv']['k'] == 'use' and s_['rv']['op']['k'] in ('copy', 'move'):
                        pl = s_['rv']['op']['pl']
                        if pl['l'] == pd and [p['k'] for p in pl['p']] == ['downcast', 'field']:
                            X = s_['pl']['l']
            if X is None:
                continue
            xty = clean_ty(c.local_ty(X))
            if xty == 'bool':
                cands = [('0', ('bool', 0)), ('1', ('bool', 1))]
                kind, ty = 'bool', None
            elif F.adts.get(ty_head(xty), {}).get('kind') == 'Enum':
                ty = ty_head(xty)
                cands = [(str(v['discr']), ('enum', v['name'])) for v in F.adts[ty]['variants']]
                kind = 'enum'
            else:
                continue
            stop = set(d for d, val in cands if feasible_reach(c, a['ready'], {nb}, set(), overrides={X: val}))
            if stop and len(stop) < len(cands):
                stop_vals = (kind, ty, stop)
    if stop_vals is None:
        return None
    kind, ty, stop = stop_vals
    keep_blocks, stop_blocks = set(), set()
    for bb, b in enumerate(k.blocks):
        if b['cleanup']:
            continue
        for s_ in b['stmts']:
            if s_['k'] != 'assign' or s_['pl']['p'] or s_['pl']['l'] != 0:
                continue
            rv = s_['rv']
            v = None
            if kind == 'bool' and rv['k'] == 'use' and rv['op']['k'] == 'const':
                v = str(rv['op'].get('val'))
            elif kind == 'enum' and rv['k'] == 'agg' and rv.get('adt') == ty:
                v = [str(x['discr']) for x in F.adts[ty]['variants'] if x['name'] == rv.get('variant')]
                v = v[0] if v else None
            if v is None and rv['k'] == 'use' and rv['op']['k'] in ('copy', 'move'):
                # `let keep = if .. { false } else { true }; return keep;`: the blocks that give the named temporary its literal value answer
                # (followed through plain moves, and through `Poll::Ready(x)` / `(r as Ready).0` pairs left by a spliced await)
                def lit_defs(pl, depth=0):
                    if depth > 8:
                        return None
                    x = pl['l']
                    proj = [p_['k'] for p_ in pl['p']]
                    outl = []
                    found = False
                    for bb2, b2 in enumerate(k.blocks):
                        if b2['cleanup']:
                            continue
                        for s2 in b2['stmts']:
                            if s2['k'] == 'assign' and not s2['pl']['p'] and s2['pl']['l'] == x:
                                found = True
                                rv2 = s2['rv']
                                if proj == ['downcast', 'field']:
                                    # the single field of a wrapper value built from one operand
                                    if rv2['k'] == 'agg' and len(rv2.get('ops', [])) == 1 and rv2['ops'][0]['k'] in ('copy', 'move'):
                                        sub = lit_defs(rv2['ops'][0]['pl'], depth + 1)
                                    elif rv2['k'] == 'agg' and len(rv2.get('ops', [])) == 1 and rv2['ops'][0]['k'] == 'const' and kind == 'bool':
                                        sub = [(bb2, str(rv2['ops'][0].get('val')))]
                                    else:
                                        sub = None
                                    if sub is None:
                                        return None
                                    outl += sub
                                    continue
                                if proj:
                                    return None
                                if kind == 'bool' and rv2['k'] == 'use' and rv2['op']['k'] == 'const':
                                    conv = _conversion_sources(k, F, bb2)
                                    if conv:
                                        outl += [(bx_, str(rv2['op'].get('val'))) for bx_ in conv]
                                    else:
                                        outl.append((bb2, str(rv2['op'].get('val'))))
                                elif kind == 'enum' and rv2['k'] == 'agg' and rv2.get('adt') == ty:
                                    v2 = [str(x_['discr']) for x_ in F.adts[ty]['variants'] if x_['name'] == rv2.get('variant')]
                                    if not v2:
                                        return None
                                    outl.append((bb2, v2[0]))
                                elif rv2['k'] == 'use' and rv2['op']['k'] in ('copy', 'move'):
                                    sub = lit_defs(rv2['op']['pl'], depth + 1)
                                    if sub is None:
                                        return None
                                    outl += sub
                                else:
                                    return None
                        t2 = b2['term']
                        if t2 and t2['k'] == 'call' and not t2['dest']['p'] and t2['dest']['l'] == x:
                            return None
                    return outl if found else None
                lits = lit_defs(rv['op']['pl'])
                okx = lits is not None
                if not okx or not lits:
                    return None
                for bb2, v2 in lits:
                    (stop_blocks if v2 in stop else keep_blocks).add(bb2)
                continue
            if v is None:
                return None      # a result that is not a literal: not decided
            (stop_blocks if v in stop else keep_blocks).add(bb)
    if not keep_blocks and not stop_blocks:
        return None
    return keep_blocks, stop_blocks


# ---------------------------------------------------------------------------------------------
def c02_append(ctx):
    """Every scheduling call appends its job under the queue-core lock before it returns, in the call's own body (not in a returned future)."""
    out = []
    for name in (SJD, S + 'sync_drain', S + 'sync_background'):
        fn = _fn(ctx, name, 'ORD-C02-append', out)
        if not fn:
            continue
        pushes = _queue_push_blocks(ctx, fn)
        key = short(name) + '|push_back'
        if not pushes:
            out.append(bad('ORD-C02-append', key, 'no longer appends to the job list', fn=name))
        elif all_paths_pass(fn, 0, pushes):
            H = ctx.held(fn)
            if all('JobQueue.core' in H.held_at_term(b) for b in pushes):
                out.append(ok('ORD-C02-append', key, 'the job is appended under JobQueue.core on every path that returns', fn=name))
            else:
                out.append(bad('ORD-C02-append', key, 'job appended without holding JobQueue.core', fn=name))
        else:
            out.append(bad('ORD-C02-append', key, 'a path returns without having appended the job: its place in the order is not fixed when the call returns', fn=name))
    for name in (S + 'desync', S + 'future_desync', S + 'future_sync', S + 'after'):
        fn = _fn(ctx, name, 'ORD-C02-append', out)
        if not fn:
            continue
        cs = [bb for bb, t in calls(fn, 'Scheduler::schedule_job_desync')]
        # delegating to another scheduling method of the same scheduler is as good (it queues before it returns)
        for other in ('desync', 'future_desync', 'future_sync', 'after'):
            if S + other != name:
                cs += [bb for bb, t in fn.calls() if (t['func'].get('fn') or '') == S + other and t['args'] and render(fn.expr_of_operand(t['args'][0])) == 'self']
        key = short(name) + '|schedules-in-own-body'
        if cs and all_paths_pass(fn, 0, cs):
            out.append(ok('ORD-C02-append', key, 'schedule_job_desync is called in the function\'s own body on every path', fn=name))
        else:
            inner = [c.name for c in _children(ctx, name) if calls(c, 'Scheduler::schedule_job_desync')]
            out.append(bad('ORD-C02-append', key, 'the job is not queued before the call returns%s: the operation\'s position would depend on when the returned future is polled' % (' (it is queued inside %s)' % short(inner[0]) if inner else ''), fn=name))
    return out


# ---------------------------------------------------------------------------------------------
def c07_signal(ctx):
    """future_desync / after signal their result once, after the operation's future completed, as the last action of the job."""
    out = []
    # what signal() itself does: the value it was given goes into the result slot, under the slot's lock, on every path
    sg = ctx.F.fn('desync::SchedulerFutureSignaller::signal')
    key = 'signal|stores-the-value'
    if not sg:
        out.append(undecided('ORD-C07-signal', key, 'anchor not found'))
    else:
        u_ = FieldUse(sg, 'desync::SchedulerFutureResult')
        stores = [(bb, i, v) for (bb, i, v) in u_.assigns.get('result', [])]
        H_ = ctx.held(sg)
        good = [bb for (bb, i, v) in stores if 'SchedulerFuture.result' in H_.held_before(bb, i) and 'Some{' in render(v) and 'Ok{' in render(v) and 'result' in render(v)]
        if good and sg.must_pass(0, set(sg.exits()), set(good)):
            out.append(ok('ORD-C07-signal', key, 'signal() stores Some(Ok(value)) in the result slot under its lock on every path', fn=sg.name))
        else:
            out.append(bad('ORD-C07-signal', key, 'signal() does not (always) store the value it was given as Some(Ok(value)): the awaiting task is woken without a result, or sees Canceled when the signaller is dropped', fn=sg.name))
    for root in (S + 'future_desync', S + 'after', S + 'future_sync'):
        cors = [f for f in _children(ctx, root) if f.is_coroutine and calls(f, 'SchedulerFutureSignaller::signal')]
        key = short(root)
        if len(cors) != 1:
            # the job coroutine exists but does not signal at all?
            jobc = [f for f in _children(ctx, root) if f.is_coroutine and any('SchedulerFutureSignaller' in clean_ty(u['ty']) for u in f.upvars)]
            if len(cors) == 0 and jobc:
                out.append(bad('ORD-C07-signal', key, 'the job owns the result signaller but never calls signal(): the awaiting task only ever sees Canceled', fn=jobc[0].name))
            else:
                out.append(undecided('ORD-C07-signal', key, 'expected exactly one job coroutine that signals, found %d' % len(cors)))
            continue
        f = cors[0]
        sig = calls(f, 'SchedulerFutureSignaller::signal')
        aw = await_sites(f)
        if len(sig) != 1:
            out.append(bad('ORD-C07-signal', key, 'the job signals its result %d times' % len(sig), fn=f.name))
            continue
        sbb = sig[0][0]
        if not aw:
            out.append(bad('ORD-C07-signal', key, 'the job no longer awaits anything before signalling', fn=f.name))
            continue
        if not all(a['ready'] is not None and edom(f, a['ready'], sbb) for a in aw):
            out.append(bad('ORD-C07-signal', key, 'signal() is not dominated by the completion (Ready edge) of every await of the job: the result can be delivered before the operation finished', loc=f.loc(sbb), fn=f.name))
            continue
        # nothing user-visible after the signal: no further await / user call reachable from it
        later = f.reachable_blocks(sig[0][1]['target']) if sig[0][1]['target'] is not None else set()
        if any(a['poll_bb'] in later for a in aw):
            out.append(bad('ORD-C07-signal', key, 'the job keeps running (awaits) after it has signalled its result', loc=f.loc(sbb), fn=f.name))
            continue
        if not all_paths_pass(f, aw[-1]['ready'], [sbb]):
            out.append(bad('ORD-C07-signal', key, 'a path from the completed await to the end of the job skips signal(): the awaiting task would only ever see Canceled', loc=f.loc(sbb), fn=f.name))
            continue
        out.append(ok('ORD-C07-signal', key, 'signal() once, after every await completed, on every path, and nothing follows it', loc=f.loc(sbb), fn=f.name))
    # signal consumes self
    sg = ctx.F.fn('desync::SchedulerFutureSignaller::signal')
    if sg:
        inp = sg.j.get('inputs', [])
        if inp and not clean_ty(inp[0]).startswith('&'):
            out.append(ok('ORD-C07-signal', 'signal|by-value', 'signal(self, ..) consumes the signaller: it cannot be signalled twice', fn=sg.name))
        else:
            out.append(bad('ORD-C07-signal', 'signal|by-value', 'signal no longer consumes the signaller', fn=sg.name))
    else:
        out.append(undecided('ORD-C07-signal', 'signal|by-value', 'anchor not found'))
    return out


def c07_syncwait(ctx):
    """SchedulerFuture::sync returns the operation's value: either the result is already there, or it synchronises with the queue
    (a sync job on the future's own queue) before reading it."""
    out = []
    R = 'ORD-C07-syncwait'
    fn = _fn(ctx, 'desync::SchedulerFuture::sync', R, out)
    if not fn:
        return out
    key = 'SchedulerFuture::sync|wait-on-queue'
    takes = calls(fn, 'FutureResultState::take')
    syncs = [(bb, t) for bb, t in calls(fn, 'Scheduler::sync')]
    if not takes or len(syncs) != 1:
        out.append(bad(R, key, 'SchedulerFuture::sync no longer (only) waits by queueing a sync job behind the operation (takes %d, syncs %d)' % (len(takes), len(syncs)), fn=fn.name))
        return out
    # the first take's Some edge may return at once; every other path to the return passes the sync on self.queue
    e = result_edges(fn, takes[0][0])
    some = edge_for(e, OPTION, 'Some') if e else None
    none = edge_for(e, OPTION, 'None') if e else None
    qarg = [a for a in syncs[0][1]['args'] if a['k'] != 'const' and 'JobQueue' in clean_ty(a['pl']['ty'])]
    own_q = bool(qarg) and 'self.queue' in render(fn.expr_of_operand(qarg[0]))
    if none is None:
        out.append(undecided(R, key, 'shape not recognised'))
    elif fn.must_pass(none, set(fn.exits()), {syncs[0][0]}) and own_q:
        out.append(ok(R, key, 'a result that is not there yet is obtained after a sync on the future\'s own queue', fn=fn.name))
    else:
        out.append(bad(R, key, 'sync() can return without the result having been produced and without waiting on the queue', fn=fn.name))
    return out


def c07_own(ctx):
    """The job is owned by the queue, not by the returned future: SchedulerFuture has no field that can hold a job and its Drop does nothing to the queue."""
    F = ctx.F
    out = []
    adt = F.adts.get('desync::SchedulerFuture')
    if not adt:
        return [undecided('ORD-C07-own', 'anchor', 'SchedulerFuture not found')]
    badf = [f['name'] for f in adt['variants'][0]['fields'] if any(x in clean_ty(f['ty']) for x in ('ScheduledJob', 'FutureJob', 'future_job', 'Job<', 'UnsafeJob', 'oneshot::Sender'))]
    if badf:
        out.append(bad('ORD-C07-own', 'fields', 'SchedulerFuture field(s) %s can hold the operation itself: dropping the future would drop the operation' % badf))
    else:
        out.append(ok('ORD-C07-own', 'fields', 'no field of SchedulerFuture can hold a job (%s)' % ', '.join('%s: %s' % (f['name'], ty_head(f['ty']).split('::')[-1]) for f in adt['variants'][0]['fields'])))
    d = F.fn('<desync::SchedulerFuture as core::ops::drop::Drop>::drop')
    if d:
        n = sum(1 for _ in d.calls())
        if n:
            out.append(bad('ORD-C07-own', 'drop', 'Drop for SchedulerFuture now does work (%d calls): dropping or detaching the future must not touch the queue' % n, fn=d.name))
        else:
            out.append(ok('ORD-C07-own', 'drop', 'Drop for SchedulerFuture has no effect', fn=d.name))
    else:
        out.append(ok('ORD-C07-own', 'drop', 'SchedulerFuture has no Drop impl'))
    # a Scheduler works with its own core: its methods never go through the process-wide scheduler (the free functions and `scheduler()`),
    # or the job, its wakers and its reschedules end up on another pool than the one the caller configured
    FREE = ('desync::scheduler', 'desync::desync', 'desync::sync', 'desync::try_sync', 'desync::future_desync', 'desync::future_sync', 'desync::after', 'desync::queue_async')
    leaks = []
    nmeth = 0
    for f_ in F.crate_fns():
        root_ = f_.root or f_.name
        # the scheduler's own machinery (the scheduler, its core, its queues, wakers, futures, jobs and threads); the free functions, the
        # Desync<T> wrappers and the pipes are the layers that are *defined* on the process-wide scheduler
        stripped_ = root_[1:] if root_.startswith('<') else root_
        if not any(stripped_.startswith('desync::' + x) for x in ('Scheduler::', 'Scheduler ', 'SchedulerCore', 'SchedulerFuture', 'SchedulerThread', 'SyncFuture', 'JobQueue', 'WakeQueue', 'WakeThread',
                                                                  'DrainWaker', 'DoubleWaker', 'ActiveQueue', 'FutureJob', 'UnsafeJob', 'Job::', 'Job ', 'QueueResumer', 'SchedulerFutureSignaller')):
            continue
        nmeth += 1
        for bb_, t_ in f_.calls():
            callee_ = t_['func'].get('fn') or ''
            if callee_ in FREE or callee_.startswith('<desync::SCHEDULER') or callee_.startswith('desync::SCHEDULER'):
                leaks.append((f_, callee_))
    if leaks:
        out.append(bad('ORD-C07-own', 'Scheduler|uses-its-own-core', '%s calls %s: the work is queued on (or woken through, or rescheduled on) the process-wide scheduler instead of the one this object belongs to, so a private scheduler\'s threads never run it' % (short(leaks[0][0].name), short(leaks[0][1])), fn=leaks[0][0].name))
    elif nmeth < 10:
        out.append(undecided('ORD-C07-own', 'Scheduler|uses-its-own-core', 'only %d bodies of Scheduler methods found' % nmeth))
    else:
        out.append(ok('ORD-C07-own', 'Scheduler|uses-its-own-core', 'nothing in the scheduler\'s own machinery (scheduler, core, queues, wakers, futures, jobs, threads) goes through the process-wide scheduler (%d bodies)' % nmeth))
    # while an operation is suspended (queue parked) the scheduler holds no reference to the queue: the wakers handed to the operation's
    # future are what keeps the queue, the suspended job and everything behind it alive once the caller has dropped its handles
    for wk in ('desync::WakeQueue', 'desync::WakeThread'):
        a = F.adts.get(wk)
        key = '%s|holds-queue-strongly' % wk.split('::')[-1]
        if not a:
            out.append(undecided('ORD-C07-own', key, 'waker type not found'))
            continue
        tys = [clean_ty(f['ty']) for f in a['variants'][0]['fields']]
        if any(t.startswith('alloc::sync::Arc<desync::JobQueue') for t in tys):
            out.append(ok('ORD-C07-own', key, 'the waker owns an Arc<JobQueue>'))
        elif any('JobQueue' in t for t in tys):
            out.append(bad('ORD-C07-own', key, 'the waker no longer owns its queue (%s): a suspended operation whose caller dropped the returned future and the queue handle is freed with its queue, and the wake-up finds nothing' % ', '.join(t for t in tys if 'JobQueue' in t)))
        else:
            out.append(undecided('ORD-C07-own', key, 'no field of the waker refers to a JobQueue'))
    return out


# ---------------------------------------------------------------------------------------------
def c08(ctx):
    """future_sync: channel pairing, slot job order (ready -> wait for finished -> signal), SyncFuture state machine order, field drop order."""
    F = ctx.F
    out = []
    R = 'ORD-C08'
    fs = _fn(ctx, S + 'future_sync', R, out)
    if fs:
        # (a) channel pairing
        chans = calls(fs, 'futures_channel::oneshot::channel')
        ends = {}   # local -> (channel index, 'S'|'R')
        for ci, (bb, t) in enumerate(chans):
            tl = t['dest']['l']
            for b in fs.blocks:
                for s in b['stmts']:
                    if s['k'] == 'assign' and not s['pl']['p'] and s['rv']['k'] == 'use' and s['rv']['op']['k'] in ('move', 'copy'):
                        pl = s['rv']['op']['pl']
                        if pl['l'] == tl and len(pl['p']) == 1 and pl['p'][0]['k'] == 'field':
                            ends[s['pl']['l']] = (ci, 'S' if pl['p'][0]['i'] == 0 else 'R')
        # propagate through plain moves
        changed = True
        while changed:
            changed = False
            for b in fs.blocks:
                for s in b['stmts']:
                    if s['k'] == 'assign' and not s['pl']['p'] and s['rv']['k'] == 'use' and s['rv']['op']['k'] in ('move', 'copy'):
                        pl = s['rv']['op']['pl']
                        if not pl['p'] and pl['l'] in ends and s['pl']['l'] not in ends:
                            ends[s['pl']['l']] = ends[pl['l']]
                            changed = True
        # channel ends bundled into tuples / small structs and taken out again (`let (job_channels, future_channels) = sync_channels()`):
        # carry[local] = ends the value holds, fieldmap[local][i] = ends held by its i-th component
        carry = dict((l_, {e_}) for l_, e_ in ends.items())
        fieldmap = {}
        changed = True
        rounds_ = 0
        while changed and rounds_ < 20:
            changed = False
            rounds_ += 1
            for b in fs.blocks:
                for s in b['stmts']:
                    if s['k'] != 'assign' or s['pl']['p']:
                        continue
                    d_ = s['pl']['l']
                    rv = s['rv']
                    new_c, new_f = set(), None
                    if rv['k'] == 'agg' and rv.get('ak') in ('tuple', 'adt'):
                        new_f = {}
                        for i_, o in enumerate(rv.get('ops', [])):
                            if o['k'] in ('move', 'copy') and not o['pl']['p']:
                                c_ = carry.get(o['pl']['l'], set())
                                if c_:
                                    new_f[i_] = set(c_)
                                    new_c |= c_
                                    if o['pl']['l'] in fieldmap:
                                        new_f[(i_, 'sub')] = fieldmap[o['pl']['l']]
                    elif rv['k'] == 'use' and rv['op']['k'] in ('move', 'copy'):
                        pl = rv['op']['pl']
                        src = pl['l']
                        if not pl['p']:
                            new_c = set(carry.get(src, set()))
                            new_f = fieldmap.get(src)
                        elif all(p_['k'] == 'field' for p_ in pl['p']) and src in carry:
                            fm = fieldmap.get(src)
                            cur = None
                            for p_ in pl['p']:
                                if isinstance(fm, dict) and p_.get('i') in fm:
                                    cur = fm[p_['i']]
                                    fm = fm.get((p_['i'], 'sub'))
                                else:
                                    cur = None
                                    break
                            new_c = set(cur) if cur is not None else set(carry.get(src, set()))
                            new_f = fm if cur is not None else None
                    if new_c and not new_c <= carry.get(d_, set()):
                        carry[d_] = carry.get(d_, set()) | new_c
                        changed = True
                    if new_f and d_ not in fieldmap:
                        fieldmap[d_] = new_f
                        changed = True
        job_ends, fut_ends = set(), set()
        for b in fs.blocks:
            for s in b['stmts']:
                if s['k'] == 'assign' and s['rv']['k'] == 'agg' and s['rv']['ak'] == 'closure':
                    cl = F.fn(s['rv']['def'])
                    kids = [cl] + ([c for c in _children(ctx, fs.name) if c.parent == cl.name or (F.fn(c.parent) is not None and F.fn(c.parent).is_helper)] if cl else [])
                    if any(calls(k, 'SchedulerFutureSignaller::signal') for k in kids if k) and (cl is None or not calls(cl, 'SyncFuture::new')):
                        for o in s['rv']['ops']:
                            if o['k'] in ('move', 'copy') and not o['pl']['p']:
                                job_ends |= carry.get(o['pl']['l'], set())
        for bb, t in calls(fs, 'SyncFuture::new'):
            for a in t['args']:
                if a['k'] in ('move', 'copy') and not a['pl']['p']:
                    fut_ends |= carry.get(a['pl']['l'], set())
        key = 'future_sync|channel-pairing'
        if len(chans) == 2 and len(ends) >= 4 and (len(job_ends) < 2 or len(fut_ends) < 2):
            out.append(bad(R, key, 'an end of the two hand-shake channels is not handed to the slot job / the SyncFuture (job %s, future %s): dropped early, its peer sees "finished"/"cancelled" at once and the operation runs outside its slot' % (sorted(job_ends), sorted(fut_ends)), fn=fs.name))
        elif len(chans) != 2 or len(job_ends) != 2 or len(fut_ends) != 2:
            out.append(undecided(R, key, 'expected two oneshot channels split between the slot job and the SyncFuture (channels %d, job ends %s, future ends %s)' % (len(chans), sorted(job_ends), sorted(fut_ends))))
        else:
            js = [c for c, e in job_ends if e == 'S']
            jr = [c for c, e in job_ends if e == 'R']
            fs_ = [c for c, e in fut_ends if e == 'S']
            fr = [c for c, e in fut_ends if e == 'R']
            if len(js) == 1 and len(jr) == 1 and js != jr and fr == js and fs_ == jr:
                out.append(ok(R, key, 'slot job holds (sender of channel %d, receiver of channel %d); the SyncFuture holds the opposite ends' % (js[0], jr[0]), fn=fs.name))
            else:
                out.append(bad(R, key, 'channel ends are mis-paired: job %s, SyncFuture %s' % (sorted(job_ends), sorted(fut_ends)), fn=fs.name))
        # (b) slot job order
        cors = [f for f in _children(ctx, fs.name) if f.is_coroutine and calls(f, 'SchedulerFutureSignaller::signal')]
        key = 'future_sync|slot-job-order'
        if len(cors) != 1:
            out.append(undecided(R, key, 'slot job coroutine not found'))
        else:
            f = cors[0]
            send = calls(f, 'futures_channel::oneshot::Sender::send')
            aw = [a for a in await_sites(f) if 'oneshot::Receiver' in a['what'] or 'Receiver' in a['self_ty']]
            sig = calls(f, 'SchedulerFutureSignaller::signal')
            if len(send) != 1 or len(aw) != 1 or len(sig) != 1:
                out.append(bad(R, key, 'slot job must send queue-ready once, await task-finished once and signal once (found %d/%d/%d)' % (len(send), len(aw), len(sig)), fn=f.name))
            elif not dominates(f, send[0][0], aw[0]['poll_bb']):
                out.append(bad(R, key, 'the slot job waits for task-finished before it has announced queue-ready: the SyncFuture never starts', fn=f.name))
            elif not edom(f, aw[0]['ready'], sig[0][0]):
                out.append(bad(R, key, 'the slot job signals completion before the user future has finished (signal not dominated by the end of the await): later operations start while the operation still runs', fn=f.name))
            elif not all_paths_pass(f, aw[0]['ready'], [sig[0][0]]):
                out.append(bad(R, key, 'a cancelled SyncFuture (Err from the await) does not reach signal(): the queue is never released', fn=f.name))
            else:
                out.append(ok(R, key, 'send(queue-ready) -> await(task-finished) -> signal, and a cancelled await still signals', fn=f.name))
    # (d) SyncFuture::poll
    p = _fn(ctx, '<desync::SyncFuture as core::future::future::Future>::poll', R, out)
    if p:
        g = cg(ctx)
        user_calls = [s for s in g.sites.get(p.name, []) if s.kind == 'param']
        recv_polls = [(bb, t) for bb, t in calls(p, 'FutureExt::poll_unpin') if 'oneshot::Receiver' in clean_ty(t['args'][0]['pl']['ty'])]
        key = 'SyncFuture::poll|create-after-ready'
        if len(user_calls) < 1 or len(recv_polls) != 1:
            out.append(undecided(R, key, 'expected a call of the future-creating closure and one poll of the queue-ready receiver (found %d/%d)' % (len(user_calls), len(recv_polls))))
        else:
            rbb, rt = recv_polls[0]
            # with several creation sites, every one of them must be on the Ready(Ok) edge: report the first that is not
            cbb = user_calls[0].bb
            e0 = result_edges(p, rbb)
            r0 = edge_for(e0, POLL_ENUM, 'Ready') if e0 else None
            i0 = inner_switch(p, rt['dest']['l'], 'Ready', r0) if r0 is not None else None
            ok0 = edge_for(i0, RESULT, 'Ok') if i0 else None
            for uc in user_calls:
                if ok0 is not None and not edom(p, ok0, uc.bb):
                    cbb = uc.bb
            e = result_edges(p, rbb)
            ready = edge_for(e, POLL_ENUM, 'Ready') if e else None
            inner = inner_switch(p, rt['dest']['l'], 'Ready', ready) if ready is not None else None
            okedge = edge_for(inner, RESULT, 'Ok') if inner else None
            if okedge is None:
                out.append(undecided(R, key, 'shape of the match on the queue-ready receiver not recognised'))
            elif edom(p, okedge, cbb):
                out.append(ok(R, key, 'the user future is created only on the Ready(Ok) edge of the queue-ready receiver', fn=p.name))
            else:
                out.append(bad(R, key, 'the user future can be created before the queue has reached this operation\'s slot: it would run outside its exclusive slot', loc=p.loc(cbb), fn=p.name))
        # the user's future is polled only after it was created in its slot, i.e. in the WaitingForFuture arm
        upolls = [s for s in g.sites.get(p.name, []) if s.kind == 'poll' and s.foreign]
        key = 'SyncFuture::poll|poll-in-arm'
        arms = None
        for bb, b in enumerate(p.blocks):
            t = b['term']
            if t and t['k'] == 'switch' and not b['cleanup']:
                for s_ in b['stmts']:
                    if s_['k'] == 'assign' and s_['rv']['k'] == 'discr' and 'SyncFutureState' in clean_ty(s_['rv']['pl']['ty']) and len(t['targets']) >= 3:
                        if upolls and dominates(p, bb, upolls[0].bb):
                            arms = dict((v, tb) for v, tb in t['targets'])
        if len(upolls) != 1 or not arms:
            out.append(undecided(R, key, 'expected one poll of the user future and a match on the SyncFuture state'))
        else:
            wf = ctx.F.adts['desync::SyncFutureState']
            dv = [v['discr'] for v in wf['variants'] if v['name'] == 'WaitingForFuture']
            tgt = arms.get(str(dv[0])) if dv else None
            if tgt is not None and edom(p, tgt, upolls[0].bb):
                out.append(ok(R, key, 'the user future is polled only in the WaitingForFuture arm', fn=p.name))
            else:
                out.append(bad(R, key, 'the user future is polled outside the WaitingForFuture arm', fn=p.name))
        # task_finished is sent only after the user future completed, or on the cancel edge of the scheduler future
        takes = []
        u = FieldUse(p, None)
        for (bb, m, t) in u.calls.get('task_finished', []):
            if m == 'take':
                takes.append(bb)
        key = 'SyncFuture::poll|finish-after-future'
        if len(upolls) == 1 and takes:
            e = result_edges(p, upolls[0].bb)
            ready = edge_for(e, POLL_ENUM, 'Ready') if e else None
            sf_polls = [(bb, t) for bb, t in calls(p, 'FutureExt::poll_unpin') if 'SchedulerFuture' in clean_ty(t['args'][0]['pl']['ty'])]
            cancel_edges = []
            for bb, t in sf_polls:
                e2 = result_edges(p, bb)
                r2 = edge_for(e2, POLL_ENUM, 'Ready') if e2 else None
                if r2 is not None:
                    i2 = inner_switch(p, t['dest']['l'], 'Ready', r2)
                    er = edge_for(i2, RESULT, 'Err') if i2 else None
                    if er is not None:
                        cancel_edges.append(er)
            badt = [b for b in takes if not ((ready is not None and edom(p, ready, b)) or any(edom(p, c, b) for c in cancel_edges))]
            if ready is not None and not p.must_pass(ready, set(p.exits()), set(takes)):
                out.append(bad(R, key, 'the user future can complete without task-finished being sent: the slot job waits for it while the SyncFuture waits for the slot job', loc=p.loc(upolls[0].bb), fn=p.name))
            elif badt:
                out.append(bad(R, key, 'task-finished can be sent while the user future has not completed (and the queue did not cancel): the queue moves on while the operation still runs', loc=p.loc(badt[0]), fn=p.name))
            else:
                out.append(ok(R, key, 'task-finished is sent only after the user future returned Ready, or when the queue cancelled the slot', fn=p.name))
        else:
            out.append(undecided(R, key, 'task_finished.take() not found'))
        # Ok(value) only after the scheduler future is Ready
        key = 'SyncFuture::poll|result-after-scheduler'
        okaggs = [bb for bb, b in enumerate(p.blocks) if not b['cleanup'] for s in b['stmts'] if s['k'] == 'assign' and s['rv']['k'] == 'agg' and s['rv'].get('adt') == RESULT and s['rv'].get('variant') == 'Ok']
        sf_ready = []
        for bb, t in calls(p, 'FutureExt::poll_unpin'):
            if 'SchedulerFuture' in clean_ty(t['args'][0]['pl']['ty']):
                e2 = result_edges(p, bb)
                r2 = edge_for(e2, POLL_ENUM, 'Ready') if e2 else None
                if r2 is not None:
                    sf_ready.append(r2)
        if not okaggs or not sf_ready:
            out.append(undecided(R, key, 'shape not recognised'))
        elif all(any(edom(p, r, b) for r in sf_ready) for b in okaggs):
            out.append(ok(R, key, 'Ok(value) is produced only after the slot job has finished (scheduler future Ready)', fn=p.name))
        else:
            out.append(bad(R, key, 'the result is returned before the slot job has finished', fn=p.name))
    # (d') every future that SyncFuture::poll polls is polled with the caller's context: the waker in it is the only thing that gets the
    # awaiting task polled again when there is no pool thread (a substitute context silently drops the registration)
    if p:
        key = 'SyncFuture::poll|polls-with-callers-context'
        ctxarg = None
        for l in range(1, p.arg_count + 1):
            if 'core::task::wake::Context' in clean_ty(p.local_ty(l)):
                ctxarg = l
        sites = [(bb, t) for bb, t in p.calls() if (t['func'].get('fn') or '') in ('futures_util::future::future::FutureExt::poll_unpin', 'core::future::future::Future::poll', 'futures_core::stream::Stream::poll_next')]
        wrong = []
        for bb, t in sites:
            e_ = expr_root(p.expr_of_operand(t['args'][1])) if len(t['args']) > 1 else ('?',)
            if not (e_[0] == 'arg' and e_[1] == ctxarg):
                wrong.append((bb, render(p.expr_of_operand(t['args'][1])) if len(t['args']) > 1 else '?'))
        if ctxarg is None or not sites:
            out.append(undecided(R, key, 'context parameter or inner polls not found'))
        elif wrong:
            out.append(bad(R, key, 'an inner future is polled with %s instead of the caller\'s context: whatever that future registers for its wake-up is not the awaiting task, which is then never polled again unless a pool thread happens to run the queue' % wrong[0][1][:80], loc=p.loc(wrong[0][0]), fn=p.name))
        else:
            out.append(ok(R, key, 'all %d inner polls receive the context this poll was called with' % len(sites), fn=p.name))
    # (e') the same order on the unwind path: when the operation's future panics inside its poll, everything that unwinding destroys in
    # SyncFuture::poll is destroyed in an order that keeps the slot: no completion sender dies (= "finished" for the slot job) while the
    # user future - and whatever it still owns - is alive
    if p:
        key = 'SyncFuture::poll|unwind-keeps-the-slot'
        g_ = cg(ctx)
        upolls = [s_ for s_ in g_.sites.get(p.name, []) if s_.kind == 'poll' and s_.foreign]
        probs = []
        for s_ in upolls:
            u_ = s_.t.get('unwind')
            order = []
            seen_u = set()
            while isinstance(u_, int) and u_ not in seen_u:
                seen_u.add(u_)
                tt = p.blocks[u_]['term']
                if not tt:
                    break
                if tt['k'] == 'drop' and not tt['pl']['p']:
                    order.append(clean_ty(p.local_ty(tt['pl']['l']) or ''))
                if tt['k'] in ('drop', 'goto'):
                    u_ = tt.get('target')
                else:
                    break
            fut_i = [i for i, t_ in enumerate(order) if t_ in [g2['name'] for g2 in p.generics] or 'SyncFutureState' in t_]
            snd_i = [i for i, t_ in enumerate(order) if 'oneshot::Sender' in t_]
            if snd_i and (not fut_i or min(snd_i) < max(fut_i)):
                probs.append(s_)
        if not upolls:
            out.append(undecided(R, key, 'poll of the operation\'s future not found'))
        elif probs:
            out.append(bad(R, key, 'when the operation\'s future panics inside its poll, unwinding out of SyncFuture::poll drops a completion sender before the future itself: the slot job sees "finished", '
                           'the queue moves on, and the next operation runs while the panicking operation\'s sub-futures and their captures are still alive', loc=probs[0].loc, fn=p.name))
        else:
            out.append(ok(R, key, 'no completion sender is destroyed on the unwind path before the operation\'s future', fn=p.name))
    # (e) drop order
    adt = F.adts.get('desync::SyncFuture')
    key = 'SyncFuture|drop-order'
    if not adt:
        out.append(undecided(R, key, 'SyncFuture not found'))
    else:
        # leaves of the struct in drop order (declaration order, nested in-crate structs expanded; a struct with its own Drop runs that first)
        leaves = []
        drops_in_the_way = []

        def relevant(name, depth=0):
            a = F.adts.get(name)
            if not a or a['kind'] != 'Struct' or depth > 4:
                return False
            for f in a['variants'][0]['fields']:
                t = clean_ty(f['ty'])
                if 'SyncFutureState' in t or 'oneshot::Sender' in t or relevant(ty_head(t), depth + 1):
                    return True
            return False

        def walk(name, path, depth=0):
            a = F.adts.get(name)
            if not a or a['kind'] != 'Struct' or depth > 4 or not relevant(name):
                return False
            if F.impls_of('core::ops::drop::Drop', name):
                drops_in_the_way.append(name)
            for f in a['variants'][0]['fields']:
                head = ty_head(clean_ty(f['ty']))
                if not walk(head, path + [f['name']], depth + 1):
                    leaves.append(('.'.join(path + [f['name']]), clean_ty(f['ty'])))
            return True
        walk('desync::SyncFuture', [])
        fut = [i for i, (n, t) in enumerate(leaves) if 'SyncFutureState' in t]
        snd = [i for i, (n, t) in enumerate(leaves) if 'oneshot::Sender' in t]
        names = [n for n, t in leaves]
        # every field that can hold the caller's future or its creating closure (its type mentions a type parameter of SyncFuture)
        gparams = [g_['name'] for g_ in adt.get('generics', []) if g_.get('kind') != 'lifetime' and not g_['name'].startswith('<')]
        import re as _re
        holders = [i for i, (n, t) in enumerate(leaves) if any(_re.search(r'(?<![A-Za-z0-9_])%s(?![A-Za-z0-9_])' % _re.escape(gp), t) for gp in gparams)]
        late = [names[i] for i in holders if snd and i > snd[0]]
        own_drop_ok = None
        if drops_in_the_way == ['desync::SyncFuture'] and len(snd) == 1 and not late:
            # an explicit destructor: it may send the completion itself, but only after it has emptied every holder of the caller's future
            dfn = F.fn('<desync::SyncFuture as core::ops::drop::Drop>::drop') or F.fn('desync::SyncFuture::drop')
            if dfn is not None:
                from .rules_lw import FieldUse as _FU
                u = _FU(dfn, 'desync::SyncFuture')
                sname = names[snd[0]].split('.')[0]
                touch = [bb for (bb, m_, t_) in u.calls.get(sname, [])] + [bb for (bb, i_) in u.reads.get(sname, [])]
                dom_ = dfn.dominators()
                cleared = True
                for i in holders:
                    hname = names[i].split('.')[0]
                    ass = [(bb, i_) for (bb, i_, val) in u.assigns.get(hname, []) if val[0] == 'agg' and not val[3]]
                    if not ass or not touch or not all(any(bb == tb or bb in dom_.get(tb, set()) for (bb, i_) in ass) for tb in touch):
                        cleared = False
                own_drop_ok = cleared and bool(touch)
        if len(fut) == 1 and len(snd) == 1 and fut[0] < snd[0] and not late and own_drop_ok:
            out.append(ok(R, key, 'SyncFuture has its own destructor: it empties every field that can hold the caller\'s future or closure (%s) before it touches the completion sender' % ', '.join(names[i] for i in holders)))
        elif late and not drops_in_the_way and len(snd) == 1:
            out.append(bad(R, key, 'a field that can hold the caller\'s future or closure (%s) is declared after the completion sender (%s): it is destroyed after the queue was released' % (', '.join(late), names[snd[0]])))
        elif len(fut) == 1 and len(snd) == 1 and fut[0] < snd[0] and not drops_in_the_way:
            out.append(ok(R, key, 'fields drop in declaration order: the user future (%s) before the completion sender (%s); no Drop impl interferes' % (names[fut[0]], names[snd[0]])))
        elif len(fut) != 1 or len(snd) != 1:
            out.append(undecided(R, key, 'the state and the completion sender were not found among the fields %s' % names))
        else:
            out.append(bad(R, key, 'the completion sender can be dropped before the user future (field order %s, Drop impl: %s): the queue continues while the cancelled operation is still alive' % (names, bool(drops_in_the_way))))
    return out


# ---------------------------------------------------------------------------------------------
def c13(ctx):
    """suspend: the resumer's sender and the future the job waits on are the two ends of one channel; the resumer is handed out before waiting."""
    F = ctx.F
    out = []
    R = 'ORD-C13'
    sp = _fn(ctx, S + 'suspend', R, out)
    if not sp:
        return out
    kids = _children(ctx, sp.name)
    job = [k for k in kids if calls(k, 'futures_channel::oneshot::channel')]
    key = 'suspend|job'
    if len(job) != 1:
        out.append(undecided(R, key, 'job closure creating the resume channel not found'))
        return out
    j = job[0]
    ch = calls(j, 'futures_channel::oneshot::channel')
    sig = calls(j, 'SchedulerFutureSignaller::signal')
    if len(ch) != 1 or len(sig) != 1:
        out.append(bad(R, key, 'the suspend job must create one channel and signal the resumer once (found %d/%d)' % (len(ch), len(sig)), fn=j.name))
        return out
    tl = ch[0][1]['dest']['l']
    # sender -> QueueResumer aggregate -> signal ; receiver -> return value
    sender_ok = False
    for b in j.blocks:
        for s in b['stmts']:
            if s['k'] == 'assign' and s['rv']['k'] == 'agg' and s['rv'].get('adt') == 'desync::QueueResumer':
                e = j.expr_of_operand(s['rv']['ops'][0])
                if render(e).endswith('.0') and expr_root(e)[0] == 'call' and 'channel' in expr_root(e)[1]:
                    sender_ok = True
    ret = j.expr_of_local(0)
    recv_ok = render(ret).endswith('.1') and expr_root(ret)[0] == 'call' and 'channel' in expr_root(ret)[1]
    if sender_ok and recv_ok:
        out.append(ok(R, key, 'QueueResumer holds the sender; the job returns (waits on) the receiver of the same channel; signal(resumer) precedes the wait', fn=j.name))
    else:
        out.append(bad(R, key, 'the resumer and the future the queue waits on are not the two ends of one channel (sender in resumer: %s, receiver returned: %s)' % (sender_ok, recv_ok), fn=j.name))
    # scheduled as an ordinary future job
    if calls(sp, 'Scheduler::future_desync'):
        out.append(ok(R, 'suspend|as-job', 'suspension is an ordinary future_desync job (every token rule applies to it)', fn=sp.name))
    else:
        out.append(bad(R, 'suspend|as-job', 'suspend no longer schedules its wait as a queue job', fn=sp.name))
    has_drop = bool(F.impls_of('core::ops::drop::Drop', 'desync::QueueResumer'))
    rs = F.fn('desync::QueueResumer::resume')
    if not has_drop and rs and not clean_ty(rs.j['inputs'][0]).startswith('&'):
        out.append(ok(R, 'QueueResumer|consume', 'resume(self) consumes the resumer; dropping it drops the sender, which also resumes'))
    else:
        out.append(bad(R, 'QueueResumer|consume', 'QueueResumer gained a Drop impl or resume no longer consumes it'))
    return out


# ---------------------------------------------------------------------------------------------
SCHEDULE_DORMANT = 'desync::SchedulerCore::schedule_dormant'


def _deref_bool_writes(ctx, fn, cls):
    """Assignments `*guard = const` through a guard of class `cls`: [(bb, idx, value)]."""
    H = ctx.held(fn)
    out = []
    for bb, b in enumerate(fn.blocks):
        if b['cleanup']:
            continue
        for i, s in enumerate(b['stmts']):
            if s['k'] == 'assign' and s['pl']['p'] and all(p['k'] == 'deref' for p in s['pl']['p']) and clean_ty(s['pl']['ty']) == 'bool':
                if cls in H.held_before(bb, i) and s['rv']['k'] == 'use' and s['rv']['op']['k'] == 'const':
                    out.append((bb, i, s['rv']['op'].get('val')))
    return out


def c03_dormant(ctx):
    """Dormant-thread handshake: a pool thread clears its busy flag only inside the critical section in which it found no queue to run,
    leaves its loop only then, and runs jobs outside that section; the scheduler tests and sets the flag and hands over work in one section."""
    out = []
    R = 'ORD-C03-dormant'
    g = cg(ctx)
    sd = _fn(ctx, SCHEDULE_DORMANT, R, out)
    if not sd:
        return out
    kids = [k for k in _children(ctx, sd.name)]
    body = None
    for k in kids:
        ps = [s for s in g.sites.get(k.name, []) if s.kind == 'param']
        if len(ps) >= 2:
            body = k
    if not body:
        out.append(undecided(R, 'thread-body', 'pool thread body (closure calling next_job and job) not found'))
        return out
    H = ctx.held(body)
    ps = [s for s in g.sites.get(body.name, []) if s.kind == 'param']
    fetch = [s for s in ps if 'Option' in clean_ty(s.t['dest']['ty'])]
    run = [s for s in ps if s not in fetch]
    if len(fetch) != 1 or len(run) != 1:
        out.append(undecided(R, 'thread-body', 'expected one fetch call (-> Option) and one run call in the pool thread body'))
        return out
    fetch, run = fetch[0], run[0]
    key = 'thread-body|fetch-under-busy'
    if 'thread.busy' in H.held_at_term(fetch.bb):
        out.append(ok(R, key, 'the next queue is fetched while holding thread.busy', fn=body.name))
    else:
        out.append(bad(R, key, 'the next queue is fetched without holding thread.busy: a scheduler can see the thread busy, give up, and the thread then goes dormant with a queue left in the schedule', loc=fetch.loc, fn=body.name))
    key = 'thread-body|run-outside-busy'
    if 'thread.busy' in H.held_at_term(run.bb):
        out.append(bad(R, key, 'jobs run while thread.busy is held: every scheduling call blocks behind a running job', loc=run.loc, fn=body.name))
    else:
        out.append(ok(R, key, 'jobs run after the busy critical section', fn=body.name))
    # the flag stays between the two parties of the handshake: the thread body only ever locks it - it is not handed to another object
    # (a guard that clears it while unwinding, a helper thread, a registry), whose writes would not be tied to the fetch
    key = 'thread-body|busy-flag-confined'

    def _flagty(ty_):
        t_ = clean_ty(ty_).replace('std::sync::poison::mutex::', '').replace('alloc::sync::', '').strip()
        return t_ in ('Arc<Mutex<bool>>',)
    escapes = []
    for k2 in [body] + [c for c in _children(ctx, sd.name) if c.parent == body.name]:
        for bb2, b2 in enumerate(k2.blocks):
            if b2['cleanup']:
                continue
            for s2 in b2['stmts']:
                if s2['k'] == 'assign' and s2['rv']['k'] == 'agg' and any(o_['k'] != 'const' and _flagty(o_['pl']['ty']) for o_ in s2['rv'].get('ops', [])):
                    escapes.append((k2, bb2, 'stored in a %s' % (str(s2['rv'].get('adt') or s2['rv'].get('def') or s2['rv'].get('ak')).split('::')[-1])))
            t2 = b2['term']
            if t2 and t2['k'] == 'call':
                nm2 = t2['func'].get('fn') or ''
                for a2 in t2['args']:
                    if a2['k'] != 'const' and _flagty(a2['pl']['ty']) and not nm2.endswith(('mem::drop',)):
                        escapes.append((k2, bb2, 'passed by value to %s' % nm2.split('::')[-1]))
    if escapes:
        k2, bb2, how = escapes[0]
        out.append(bad(R, key, 'the busy flag of the running thread is %s: something other than the fetch section of the thread body can now change it (e.g. clear it while the thread is dying), '
                       'and the scheduler hands work to a thread that will never run it' % how, loc=k2.loc(bb2), fn=k2.name))
    else:
        out.append(ok(R, key, 'the thread body only locks its busy flag; the flag is not handed to any other object', fn=body.name))
    # busy = false only on the None edge, within the same region as the fetch
    writes = [(bb, i) for (bb, i, v) in _deref_bool_writes(ctx, body, 'thread.busy') if str(v) == '0']
    none_edge = None
    tgt = fetch.t['target']
    isn = [(bb, t) for bb, t in calls(body, 'core::option::Option::is_none') if body.expr_of_operand(t['args'][0]) == body.expr_of_local(fetch.t['dest']['l']) or t['args'][0]['pl']['l'] == fetch.t['dest']['l'] or True]
    for bb, t in isn:
        sw = switch_of_local(body, t['dest']['l'], t['target']) if t['target'] is not None else None
        if sw:
            none_edge = sw[2]
    if none_edge is None:
        e = result_edges(body, fetch.bb)
        none_edge = edge_for(e, OPTION, 'None') if e else None
    key = 'thread-body|dormant-on-none'
    guards_fetch = H.holds_at_term(fetch.bb, 'thread.busy')
    if not writes:
        out.append(bad(R, key, 'the pool thread never clears its busy flag: it can never be given work again', fn=body.name))
    elif none_edge is None:
        out.append(undecided(R, key, 'cannot find the test of the fetched value'))
    else:
        badw = []
        for (bb, i) in writes:
            same = H.holds_before(bb, i, 'thread.busy') & guards_fetch
            if not edom(body, none_edge, bb) or not same:
                badw.append((bb, i))
        if badw:
            out.append(bad(R, key, 'busy is cleared outside the critical section that fetched (or not only on the nothing-to-run edge): a queue scheduled in between is seen by nobody', loc=body.loc(*badw[0]), fn=body.name))
        else:
            out.append(ok(R, key, 'busy is cleared only on the nothing-to-run edge, inside the fetching critical section', fn=body.name))
    # the thread leaves its loop only through the nothing-to-run edge
    key = 'thread-body|exit-only-on-none'
    if none_edge is not None and fetch.t['target'] is not None:
        # the loop flag(s): user bool variables set to true inside the body; each such store must lie on the nothing-to-run edge
        flag_sets = []
        for bb2, b2 in enumerate(body.blocks):
            if b2['cleanup']:
                continue
            for s2 in b2['stmts']:
                if s2['k'] == 'assign' and not s2['pl']['p'] and body.local_name(s2['pl']['l']) and body.local_ty(s2['pl']['l']) == 'bool' \
                        and s2['rv']['k'] == 'use' and s2['rv']['op']['k'] == 'const' and str(s2['rv']['op'].get('val')) == '1':
                    flag_sets.append(bb2)
        returns_inside = [x for x in body.exits() if x in body.reachable_blocks(fetch.t['target']) and not flag_sets]
        # every test of the fetched value (is_none(), or a match on it after it was moved) has a nothing-to-run edge
        none_edges = {none_edge}
        aliases = {fetch.t['dest']['l']}
        for _ in range(4):
            for b2 in body.blocks:
                for s2 in b2['stmts']:
                    if s2['k'] == 'assign' and not s2['pl']['p'] and s2['rv']['k'] == 'use' and s2['rv']['op']['k'] in ('move', 'copy') \
                            and not s2['rv']['op']['pl']['p'] and s2['rv']['op']['pl']['l'] in aliases:
                        aliases.add(s2['pl']['l'])
        for bb2, b2 in enumerate(body.blocks):
            t2 = b2['term']
            if t2 and t2['k'] == 'switch' and not b2['cleanup']:
                for s2 in b2['stmts']:
                    if s2['k'] == 'assign' and s2['rv']['k'] == 'discr' and not s2['rv']['pl']['p'] and s2['rv']['pl']['l'] in aliases:
                        m = dict((v, tb) for v, tb in t2['targets'])
                        none_edges.add(m.get('0', t2['otherwise']) if '0' in m else (t2['otherwise'] if '1' in m else None))
        none_edges.discard(None)
        no_flag_ok = (not flag_sets) and body.must_pass(fetch.t['target'], set(body.exits()), none_edges)
        if no_flag_ok or (flag_sets and all(any(edom(body, ne, x) for ne in none_edges) for x in flag_sets)):
            out.append(ok(R, key, 'the pool thread stops looking for work only after a fetch that found nothing', fn=body.name))
        else:
            out.append(bad(R, key, 'the pool thread can leave its loop (stay marked busy and never look again) without having found the schedule empty', fn=body.name))
    # scheduler side: test, set and hand-over in one region
    Hs = ctx.held(sd)
    sets = [(bb, i) for (bb, i, v) in _deref_bool_writes(ctx, sd, 'thread.busy') if str(v) == '1']
    runs = calls(sd, 'SchedulerThread::run')
    key = 'schedule_dormant|test-set-run'
    if len(sets) != 1 or len(runs) != 1:
        out.append(bad(R, key, 'schedule_dormant must mark the thread busy and hand it the work exactly once (found %d/%d)' % (len(sets), len(runs)), fn=sd.name))
    else:
        gs = Hs.holds_before(sets[0][0], sets[0][1], 'thread.busy')
        gr = Hs.holds_at_term(runs[0][0], 'thread.busy')
        # the flag is read (copy of *guard) under the same guard before the set
        reads = []
        for bb, b in enumerate(sd.blocks):
            for i, s in enumerate(b['stmts']):
                if s['k'] == 'assign' and s['rv']['k'] == 'use' and s['rv']['op']['k'] == 'copy' and clean_ty(s['rv']['op']['pl']['ty']) == 'bool' and s['rv']['op']['pl']['p'] and (Hs.holds_before(bb, i, 'thread.busy') & gs):
                    if dominates(sd, bb, sets[0][0]):
                        reads.append((bb, i))
        if gs and (gs & gr) and reads:
            out.append(ok(R, key, 'the busy flag is tested, set and the work handed over inside one critical section', fn=sd.name))
        else:
            out.append(bad(R, key, 'test of the busy flag, setting it and handing over the work are not in one critical section: two schedulers can pick the same dormant thread, or work is handed to a thread that was not marked', fn=sd.name))
    return out


def _claim_on_retry(fn, start, w, c):
    """After the wait returns, the first test (job complete?) has one edge from which the claim is reachable: on that edge every
    path back to the wait must pass the claim."""
    cur = start
    for _ in range(12):
        t = fn.blocks[cur]['term']
        if t is None:
            return False
        if t['k'] == 'switch':
            edges = [tb for _, tb in t['targets']] + [t['otherwise']]
            cs = set(c) if isinstance(c, (set, frozenset, list, tuple)) else {c}
            from .ordq import feasible_reach
            # (feasibly: a flag that lets the first turn skip the wait - `if !steal_now { wait }` - is false on every later turn)
            with_claim = [e for e in edges if cs & fn.reachable_blocks(e, avoid={w}) and feasible_reach(fn, e, cs, {w})]
            if not with_claim:
                return False
            return all(fn.must_pass(e, {w}, cs) or not feasible_reach(fn, e, {w}, cs) for e in with_claim)
        nxt = fn.succs(cur)
        if len(nxt) != 1:
            return False
        cur = nxt[0]
    return False


def c04_steal(ctx):
    """With no pool thread free the blocked sync caller runs the queue itself: after every wake-up that did not complete its job it
    tries to claim the queue, and a successful claim leads to running jobs before waiting again."""
    out = []
    R = 'ORD-C04-steal'
    sb = _fn(ctx, S + 'sync_background', R, out)
    if not sb:
        return out
    waits = calls(sb, 'Condvar::wait')
    claims = calls(sb, 'SchedulerCore::claim_pending_queue')
    runs = calls(sb, 'JobQueue::run_one_job_now')
    key = 'sync_background|claim-after-wake'
    if not waits or not claims or not runs:
        out.append(bad(R, key, 'the blocked caller no longer retries to claim the queue after being woken (wait %d, claim %d, run %d)' % (len(waits), len(claims), len(runs)), fn=sb.name))
        return out
    w = waits[0][0]
    after_wait = sb.reachable_blocks(waits[0][1]['target'], avoid={w})
    # the claim sites of the wait loop (a claim tried before the first wait - "nobody is running it: take it now" - is not one of them)
    in_loop = [cb for cb, _ in claims if cb in after_wait and w in sb.reachable_blocks(cb)]
    if not in_loop:
        out.append(bad(R, key, 'claim_pending_queue is not inside the wait loop', fn=sb.name))
    else:
        # every path from the wait's return back to the wait passes the claim, unless the job completed (loop exit)
        def leads_to_run(c_):
            e = result_edges(sb, c_)
            t_edge = e.get('otherwise') if e else None
            return t_edge is not None and any(edom(sb, t_edge, r[0]) for r in runs)
        if not all(leads_to_run(c_) for c_ in in_loop):
            out.append(bad(R, key, 'a successful claim does not lead to running the queue', fn=sb.name))
        elif not _claim_on_retry(sb, waits[0][1]['target'], w, set(in_loop)):
            out.append(bad(R, key, 'the caller can go back to waiting after a wake-up without trying to claim the queue: with no free pool thread nobody runs it', fn=sb.name))
        else:
            out.append(ok(R, key, 'after each wake-up that did not complete the job the caller tries to claim the queue and, if it succeeds, runs it', fn=sb.name))
    return out


def c04_stop(ctx):
    """sync returns once the operations ahead of it are done: a caller that runs the queue itself looks at its own completion condition
    before every further job, so it never goes on to run what was scheduled behind its own closure (which may block, suspend, or never end)."""
    out = []
    R = 'ORD-C04-stop'
    for name in (S + 'sync_drain', S + 'sync_background'):
        fn = _fn(ctx, name, R, out)
        if not fn:
            continue
        key = short(name) + '|retest-before-each-job'
        runs = [bb for bb, t in calls(fn, 'JobQueue::run_one_job_now') if not fn.blocks[bb]['cleanup']]
        if not runs:
            out.append(bad(R, key, 'the caller no longer runs jobs from the queue itself', fn=name))
            continue
        waits = set(bb for bb, t in calls(fn, 'Condvar::wait'))
        # (a new claim starts a new episode of running the queue: the job loop of one episode ends where the next claim is tried)
        waits |= set(bb for bb, t in calls(fn, 'SchedulerCore::claim_pending_queue'))
        rets = set(fn.exits())
        problems = []
        for r in runs:
            tgt = fn.blocks[r]['term']['target']
            if tgt is None or r not in fn.reachable_blocks(tgt, avoid=waits):
                problems.append('run_one_job_now is not in a loop: the caller runs one job and then gives up (its own closure may still be queued)')
                continue
            loop = set(b for b in fn.reachable_blocks(tgt, avoid=waits) if r in fn.reachable_blocks(b, avoid=waits))
            tests = set()
            for b in loop:
                t = fn.blocks[b]['term']
                if t and t['k'] == 'switch':
                    for s_ in [tb for _, tb in t['targets']] + [t['otherwise']]:
                        if s_ is None:
                            continue
                        rs = fn.reachable_blocks(s_, avoid=waits)
                        if r not in rs and ((rs & rets) or (rs & waits)):
                            tests.add(b)
            if not tests:
                problems.append('the job loop has no exit test')
            elif not fn.must_pass(tgt, {r}, tests | waits):
                problems.append('after a job the caller can run the next one without looking at whether its own closure has completed: it goes on to run the operations scheduled behind it, '
                                'and returns only when the queue is empty (never, under a steady stream of work; a deadlock if one of them waits for this call to return)')
        if problems:
            out.append(bad(R, key, problems[0], fn=name))
        else:
            out.append(ok(R, key, 'every turn of the job loop passes the completion test (%d run site(s))' % len(runs), fn=name))
    return out


def c04_private(ctx):
    """The completion handshake of a blocked sync() belongs to that one call: the condition variable and the `ready` flag handed to the
    lifetime-erased job are created by the call itself (a fresh Arc), never taken from a place that outlives it (a thread-local, a field,
    a static).  A flag shared between calls is set by whichever call finishes first - a nested blocked sync on the same thread ends the
    outer wait before the outer closure has run."""
    out = []
    R = 'ORD-C04-private'
    sb = _fn(ctx, S + 'sync_background', R, out)
    if not sb:
        return out
    key = 'sync_background|handshake-created-by-the-call'
    sites = calls(sb, 'UnsafeJob::new_with_notification')
    if len(sites) != 1 or len(sites[0][1]['args']) < 3:
        out.append(undecided(R, key, 'UnsafeJob::new_with_notification call not found'))
        return out
    probs = []
    for what, a in (('condition variable', sites[0][1]['args'][1]), ('ready flag', sites[0][1]['args'][2])):
        e = sb.expr_of_operand(a)
        def strip(x):
            while x[0] == 'call' and x[1].endswith('::clone') and x[2]:
                x = x[2][0]
            return x
        e = strip(e)
        # the handshake objects bundled in a local struct / tuple built by this call: every shared pointer in the bundle is fresh
        if e[0] in ('field', 'downcast') and expr_root(e)[0] == 'agg':
            comps = [strip(c) for c in expr_root(e)[3]]
            arcs = [c for c in comps if c[0] == 'call']
            if arcs and all(c[1] == 'alloc::sync::Arc::new' for c in arcs):
                e = arcs[0]
                if what == 'ready flag':
                    flags_ = [c for c in arcs if render(c).replace(' ', '') in ('new(new(0))', 'new(new(1))')]
                    e = flags_[0] if flags_ else ('call', 'alloc::sync::Arc::new', [('call', 'x', [('const', '0', 'bool')], None)], None)
        if not (e[0] == 'call' and e[1] == 'alloc::sync::Arc::new'):
            probs.append('the %s is not a fresh Arc made by this call (%s)' % (what, render(e)[:60]))
        elif what == 'ready flag' and not render(e).replace(' ', '').endswith('new(new(0))'):
            probs.append('the ready flag does not start out false (%s)' % render(e)[:40])
    if probs:
        out.append(bad(R, key, '; '.join(probs) + ': the wait of this call can be ended by somebody else\'s completion, and sync() returns (or panics on its empty result slot) without having run its closure', fn=sb.name))
    else:
        out.append(ok(R, key, 'condition variable and ready flag are `Arc::new(..)` of this call; the flag starts false', fn=sb.name))
    # the result slot: whatever shared pointer the queued job captures was made by this call (sync_drain and sync_background alike)
    for name in (S + 'sync_drain', S + 'sync_background'):
        fn = ctx.F.fn(name)
        key = '%s|result-slot-created-by-the-call' % short(name)
        if not fn:
            continue
        jobs = calls(fn, 'desync::Job::new') or calls(fn, 'Job::new')
        if len(jobs) != 1:
            out.append(undecided(R, key, 'Job::new call not found'))
            continue
        e = fn.expr_of_operand(jobs[0][1]['args'][0])
        if e[0] != 'agg' or e[1] != 'closure':
            out.append(undecided(R, key, 'the job is not a closure literal'))
            continue

        def strip(x):
            while x[0] == 'call' and x[1].endswith('::clone') and x[2]:
                x = x[2][0]
            if x[0] in ('field', 'downcast') and expr_root(x)[0] == 'agg':
                comps = [strip(c) for c in expr_root(x)[3]]
                arcs = [c for c in comps if c[0] == 'call']
                if arcs and all(c[1] == 'alloc::sync::Arc::new' for c in arcs):
                    return arcs[0]
            return x
        shared = [strip(c) for c in e[3]]
        foreign = [c for c in shared if c[0] == 'call' and c[1] != 'alloc::sync::Arc::new']
        fresh = [c for c in shared if c[0] == 'call' and c[1] == 'alloc::sync::Arc::new']
        if foreign:
            out.append(bad(R, key, 'the queued job writes its result into an object that this call did not create (%s): two calls can see each other\'s results' % render(foreign[0])[:60], fn=fn.name))
        elif fresh:
            out.append(ok(R, key, 'the job captures only `Arc::new(..)` objects of this call (and the caller\'s closure)', fn=fn.name))
        else:
            out.append(undecided(R, key, 'no shared result slot captured by the job'))
    return out


def c04_result(ctx):
    """sync returns its own closure's value: the result slot is private to the call, read once after completion, and an empty slot panics."""
    out = []
    R = 'ORD-C04-result'
    for name in (S + 'sync_drain', S + 'sync_background'):
        fn = _fn(ctx, name, R, out)
        if not fn:
            continue
        key = short(name)
        H = ctx.held(fn)
        takes = [(bb, t) for bb, t in calls(fn, 'core::option::Option::take') if 'sync.result' in H.held_at_term(bb)]
        # `mem::replace(&mut *slot, None)` / `mem::take(&mut *slot)` empty the slot just the same
        takes += [(bb, t) for bb, t in calls(fn, 'core::mem::take') + calls(fn, 'core::mem::replace')
                  if 'sync.result' in H.held_at_term(bb) and 'Option<' in clean_ty(fn.local_ty(t['dest']['l'])) and (t['func'].get('fn') != 'core::mem::replace' or render(fn.expr_of_operand(t['args'][1])).endswith('None{}'))]
        exps = calls(fn, 'core::option::Option::expect') + calls(fn, 'core::option::Option::unwrap')
        if len(takes) != 1:
            out.append(bad(R, key, 'the result slot must be emptied exactly once (found %d takes)' % len(takes), fn=name))
            continue
        tb = takes[0][0]
        # not inside a loop: the take must not lie on a cycle
        if tb in fn.reachable_blocks(takes[0][1]['target']):
            out.append(bad(R, key, 'the result is taken inside the wait/run loop (it can be read before the job has stored it)', fn=name))
            continue
        # slot created in this function
        created = any((t['func'].get('fn') or '').endswith('Mutex::new') for bb, t in fn.calls())
        # result of take flows into expect/unwrap, which produces the return value
        ret = render(fn.expr_of_local(0))
        unwrapped = [1 for bb, t in exps if render(fn.expr_of_operand(t['args'][0])).startswith(('take(', 'replace('))]
        # `match slot.take() { Some(v) => v, None => panic!(..) }` is the same as expect(): the result is the Some payload of the take
        if ret.startswith(('(take(', '(replace(')) and ret.endswith(' as Some).0'):
            unwrapped = [1]
            ret = ret[1:]
        if not created or not unwrapped or not ret.startswith(('take(', 'replace(')):
            out.append(bad(R, key, 'the returned value is not `slot.take().expect(..)` of a slot created by this call (return value: %s)' % ret[:120], fn=name))
            continue
        # who writes the slot: only closures of this function
        writers = []
        for k in _children(ctx, name):
            Hk = ctx.held(k)
            for bb, b in enumerate(k.blocks):
                for i, s in enumerate(b['stmts']):
                    if s['k'] == 'assign' and s['pl']['p'] and 'sync.result' in Hk.held_before(bb, i) and not b['cleanup']:
                        writers.append(k.name)
        if len(set(writers)) != 1:
            out.append(bad(R, key, 'the result slot must be written by exactly one closure of this call (writers: %s)' % sorted(set(short(w) for w in writers)), fn=name))
            continue
        out.append(ok(R, key, 'slot created by the call, written only by %s, emptied once after the loop, and an empty slot panics' % short(writers[0]), fn=name))
    return out


def c09_noblock(ctx):
    """try_sync never blocks: no blocking primitive is reachable from it (the user closure excluded), apart from the bounded join of finished threads."""
    out = []
    R = 'ORD-C09-noblock'
    g = cg(ctx)
    ts = _fn(ctx, S + 'try_sync', R, out)
    if not ts:
        return out
    reach = g.reachable(ts.name, skip=lambda s: s.kind in ('dyn_run',) or (s.kind == 'param' and s.foreign and not s.targets))
    n = 0
    for fname in sorted(reach):
        fn = ctx.F.fn(fname)
        for s in g.sites.get(fname, []):
            name = s.t['func'].get('fn')
            if name in BLOCKING:
                n += 1
                key = 'try_sync ~> %s|%s' % (short(fname), BLOCKING[name])
                if BLOCKING[name] == 'JoinHandle::join' and bounded_join(ctx, fn, s.bb):
                    out.append(ok(R, key, 'bounded: only handles whose thread has finished are joined', loc=s.loc, fn=fname))
                elif BLOCKING[name] == 'JoinHandle::join' and join_unknown(ctx, fn):
                    out.append(undecided(R, key, join_unknown(ctx, fn)))
                else:
                    out.append(bad(R, key, 'a blocking call is reachable from try_sync', loc=s.loc, fn=fname))
    # and the decision itself never leads to the waiting strategies
    for bad_callee in ('Scheduler::sync_background', 'Scheduler::sync_drain'):
        if any(short(x).endswith(bad_callee.split('::')[-1]) and 'Scheduler' in x for x in reach):
            out.append(bad(R, 'try_sync ~> %s' % bad_callee, 'try_sync can reach %s (which waits or runs other queued work)' % bad_callee))
    if not any(i.verdict == 'violation' for i in out):
        out.append(ok(R, 'try_sync|reach', '%d functions reachable from try_sync, %d blocking site(s), all bounded' % (len(reach), n), fn=ts.name))
    if len(reach) < 8:
        out.append(undecided(R, 'floor', 'only %d functions reachable from try_sync' % len(reach)))
    return out


def c10_spawn(ctx):
    """A ready queue goes to a dormant thread or to a newly spawned one below the maximum, then scheduling is retried."""
    out = []
    R = 'ORD-C10-spawn'
    st = _fn(ctx, 'desync::SchedulerCore::schedule_thread', R, out)
    if not st:
        return out
    key = 'schedule_thread|dormant-else-spawn-then-retry'
    # decided on the paths of one scheduling request (dsa/poolview.py): whether the spawn attempt and the retry are written in
    # schedule_thread or at the end of schedule_dormant, as a recursive call or as a loop, is not the question
    from .poolview import pool_view
    pv = pool_view(ctx)
    if not pv.ok or not pv.walk_none or not pv.counts or not pv.pushes:
        out.append(bad(R, key, 'expected a walk over the thread table, a room test and the addition of a thread on the paths of a scheduling request (found %d/%d/%d)'
                       % (len(pv.walk_none) if pv.ok else 0, len(pv.counts) if pv.ok else 0, len(pv.pushes) if pv.ok else 0), fn=st.name))
        return out
    # the retry: a recursive call, or - written as a loop - the way back to the walk
    retries = set(pv.retries)
    fnv = pv.fn
    for bb, t in fnv.calls():
        if (t['func'].get('fn') or '').endswith('Iterator::next') and any(bb in fnv.reachable_blocks(p_) for p_ in pv.pushes):
            e_ = result_edges(fnv, bb)
            if e_ and edge_for(e_, OPTION, 'None') in pv.walk_none:
                retries.add(bb)
    a_ok = all(pv.always_between(n_, pv.exits, pv.counts) for n_ in pv.walk_none)
    b_ok = bool(retries) and all(pv.always_between(p_, pv.exits, retries) for p_ in pv.pushes)
    if a_ok and b_ok:
        out.append(ok(R, key, 'no dormant thread -> always try to spawn below the maximum -> on success always retry (%s)' % pv.where(), fn=st.name))
    else:
        out.append(bad(R, key, 'a queue that found no dormant thread does not (always) lead to a spawn attempt followed by a retry', fn=st.name))
    return out


def _has_arith(e, depth=0):
    if depth > 40 or not isinstance(e, tuple):
        return False
    if e[0] == 'binop' and e[1] in ('Add', 'Sub', 'Mul', 'Div', 'Rem', 'AddWithOverflow', 'SubWithOverflow', 'MulWithOverflow', 'Shl', 'Shr', 'AddUnchecked', 'SubUnchecked'):
        return True
    if e[0] == 'call' and e[1].split('::')[-1] in ('saturating_sub', 'saturating_add', 'wrapping_add', 'wrapping_sub', 'checked_add', 'checked_sub', 'min', 'max', 'add', 'sub'):
        return True
    for x in e[1:]:
        if isinstance(x, tuple) and _has_arith(x, depth + 1):
            return True
        if isinstance(x, list) and any(_has_arith(y, depth + 1) for y in x if isinstance(y, tuple)):
            return True
    return False


def c17(ctx):
    """The pool never exceeds its maximum: every in-crate path that adds a pool thread tests `len < max` in the same critical section;
    threads are created in one place; despawning pops under the lock and joins outside it."""
    F = ctx.F
    out = []
    R = 'ORD-C17'
    g = cg(ctx)
    pushes = []
    for fn in F.crate_fns():
        for bb, t in calls(fn, 'alloc::vec::Vec::push'):
            if t['args'] and t['args'][0]['k'] != 'const' and 'SchedulerThread' in clean_ty(t['args'][0]['pl']['ty']) and 'Mutex<bool>' in clean_ty(t['args'][0]['pl']['ty']).replace('std::sync::poison::mutex::', ''):
                recv = render(fn.expr_of_operand(t['args'][0]))
                if 'lock(' in recv and '.threads' in recv:
                    pushes.append((fn, bb, t))
    if not pushes:
        out.append(undecided(R, 'push', 'no site adds to the thread table'))
    # the table's length *is* the size of the pool, at every moment: it grows by single bounded pushes only, and threads leave it only to
    # be retired - a thread that is taken out and put back is not counted while it is out, and a concurrent spawn sees room that is not there
    bulk = []
    for fn in F.crate_fns():
        for bb, t in fn.calls():
            if fn.blocks[bb]['cleanup'] or not t['args'] or t['args'][0]['k'] == 'const':
                continue
            name = t['func'].get('fn') or ''
            ty0 = clean_ty(t['args'][0]['pl']['ty']).replace('std::sync::poison::mutex::', '')
            if 'SchedulerThread' not in ty0 or 'Mutex<bool>' not in ty0 or 'Vec<' not in ty0:
                continue
            recv = render(fn.expr_of_operand(t['args'][0]))
            if not ('lock(' in recv and '.threads' in recv):
                continue
            m = name.split('::')[-1]
            if (name.startswith('alloc::vec::Vec::') and m in ('extend', 'append', 'insert', 'extend_from_slice', 'resize_with', 'splice', 'extend_one', 'extend_from_within')) \
                    or (t.get('trait') or '').endswith('iter::traits::collect::Extend') or m == 'extend':
                bulk.append((fn, bb, m, 'threads are added to the table with `%s`, outside the bounded single push' % m))
            elif name in ('core::mem::take', 'core::mem::replace', 'core::mem::swap'):
                bulk.append((fn, bb, 'mem::' + m, 'the whole thread table is taken out of its mutex with `mem::%s`: while it is out, `threads.len()` under-counts the pool and a concurrent scheduling call spawns beyond the maximum' % m))
    for fn, bb, m, why in bulk:
        out.append(bad(R, '%s|table-changes-one-thread-at-a-time|%s' % (short(fn.name), m), why, loc=fn.loc(bb), fn=fn.name))
    if not bulk:
        out.append(ok(R, 'table-changes-one-thread-at-a-time', 'the thread table is never taken out wholesale or refilled in bulk'))
    for fn, bb, t in pushes:
        key = '%s|push' % short(fn.name)
        H = ctx.held(fn)
        if fn.name == S + 'spawn_thread':
            # public escape hatch: must have no in-crate caller
            callers = [f for f, ss in g.sites.items() for s in ss if fn.name in s.targets]
            if callers:
                out.append(bad(R, key, 'Scheduler::spawn_thread (which adds a thread unconditionally) is called from inside the crate (%s)' % short(callers[0]), fn=fn.name))
            else:
                out.append(ok(R, key, 'unconditional spawn is only reachable by an explicit API call, never from scheduling', fn=fn.name))
            continue
        if 'SchedulerCore.threads' not in H.held_at_term(bb):
            out.append(bad(R, key, 'thread table grown without holding the threads lock', loc=fn.loc(bb), fn=fn.name))
            continue
        # dominated by the true edge of Lt(len(threads under the same guard), max)
        good = False
        adjusted = False
        dom = fn.dominators()
        for b2, blk in enumerate(fn.blocks):
            tt = blk['term']
            if not tt or tt['k'] != 'switch' or b2 not in dom.get(bb, set()):
                continue
            for s in blk['stmts']:
                if s['k'] == 'assign' and s['rv']['k'] == 'binop' and s['rv']['op'] in ('Lt', 'Gt', 'Le', 'Ge'):
                    a = render(fn.expr_of_operand(s['rv']['a']))
                    b = render(fn.expr_of_operand(s['rv']['b']))
                    op = s['rv']['op']
                    # orient as  len(threads) OP max_threads
                    if 'len(' in b and 'threads' in b and 'max_threads' in a:
                        a, b = b, a
                        op = {'Lt': 'Gt', 'Gt': 'Lt', 'Le': 'Ge', 'Ge': 'Le'}[op]
                    if not ('len(' in a and 'threads' in a and 'max_threads' in b):
                        continue
                    # the two sides are the table's length and the maximum themselves, not arithmetic on them (`max + allowance`, `len - idle`)
                    if _has_arith(fn.expr_of_operand(s['rv']['a'])) or _has_arith(fn.expr_of_operand(s['rv']['b'])):
                        adjusted = True
                        continue
                    same_guard = H.holds_before(b2, len(blk['stmts']), 'SchedulerCore.threads') & H.holds_at_term(bb, 'SchedulerCore.threads')
                    true_edge = tt['otherwise']
                    false_edge = dict((str(v), b3) for v, b3 in tt['targets']).get('0')
                    # the edge on which the comparison says "room for one more"
                    room = {'Lt': true_edge, 'Ge': false_edge}.get(op)
                    loose = {'Le': true_edge, 'Gt': false_edge}.get(op)
                    if room is not None and same_guard and edom(fn, room, bb):
                        good = True
                    elif loose is not None and edom(fn, loose, bb) and good is not True:
                        good = 'nonstrict'
        # one test licenses one thread: a push that can be reached again without passing the bound test in between adds a batch under a
        # single test, and only the first of them is covered by it
        if good is True and t['target'] is not None and bb in fn.reachable_blocks(t['target']):
            cmps_ = set()
            for b2, blk in enumerate(fn.blocks):
                tt = blk['term']
                if tt and tt['k'] == 'switch' and not blk['cleanup']:
                    for s in blk['stmts']:
                        if s['k'] == 'assign' and s['rv']['k'] == 'binop' and s['rv']['op'] in ('Lt', 'Gt', 'Le', 'Ge'):
                            a_ = render(fn.expr_of_operand(s['rv']['a']))
                            b_ = render(fn.expr_of_operand(s['rv']['b']))
                            if ('len(' in a_ and 'threads' in a_ and 'max_threads' in b_) or ('len(' in b_ and 'threads' in b_ and 'max_threads' in a_):
                                if not _has_arith(fn.expr_of_operand(s['rv']['a'])) and not _has_arith(fn.expr_of_operand(s['rv']['b'])):
                                    cmps_.add(b2)
            if not fn.must_pass(t['target'], {bb}, cmps_):
                good = 'batch'
        if good == 'batch':
            out.append(bad(R, key, 'several pool threads can be added after a single `threads.len() < max_threads` test (the push sits in a loop that does not re-test the bound): the table can grow past the maximum', loc=fn.loc(bb), fn=fn.name))
        elif good is True:
            out.append(ok(R, key, 'dominated by the true edge of `threads.len() < max_threads`, tested under the same threads lock', loc=fn.loc(bb), fn=fn.name))
        elif good == 'nonstrict':
            out.append(bad(R, key, 'the bound is tested with `<=`: the pool can grow to max + 1', loc=fn.loc(bb), fn=fn.name))
        elif adjusted:
            out.append(bad(R, key, 'the test that licenses a new pool thread compares an adjusted quantity (the maximum plus an allowance, or the table size minus some threads) instead of `threads.len() < max_threads`: '
                           'the table can hold more threads than the maximum', loc=fn.loc(bb), fn=fn.name))
        else:
            out.append(bad(R, key, 'a pool thread is added without testing `threads.len() < max_threads` in the same critical section', loc=fn.loc(bb), fn=fn.name))
    # thread creation in one place
    spawns = [(fn, bb) for fn in F.crate_fns() for bb, t in calls(fn, 'std::thread::builder::Builder::spawn') + calls(fn, 'std::thread::functions::spawn')]
    key = 'thread-creation'
    if len(spawns) == 1 and spawns[0][0].name == 'desync::SchedulerThread::new':
        callers = sorted(set(f for f, ss in g.sites.items() for s in ss if 'desync::SchedulerThread::new' in s.targets))
        push_fns = sorted(set(fn.name for fn, _, _ in pushes))
        if set(callers) <= set(push_fns):
            out.append(ok(R, key, 'OS threads are created only by SchedulerThread::new, called only from %s' % ', '.join(short(c) for c in callers)))
        else:
            out.append(bad(R, key, 'SchedulerThread::new is called from %s, which does not register the thread under the bound' % ', '.join(short(c) for c in callers if c not in push_fns)))
    else:
        out.append(bad(R, key, 'OS threads are created in %d places (%s)' % (len(spawns), ', '.join(short(f.name) for f, _ in spawns))))
    # despawn
    dp = F.fn(S + 'despawn_threads_if_overloaded')
    key = 'despawn'
    if not dp:
        out.append(undecided(R, key, 'anchor not found'))
    else:
        H = ctx.held(dp)
        pops = calls(dp, 'alloc::vec::Vec::pop')
        joins = [s for f in [dp] + _children(ctx, dp.name) for s in g.sites.get(f.name, []) if (s.t['func'].get('fn') or '').endswith('JoinHandle::join')]
        from .rules_locks import ctx_held
        H0 = ctx_held(ctx)
        if not pops or not joins:
            out.append(bad(R, key, 'despawn no longer pops threads and joins them (found %d/%d)' % (len(pops), len(joins)), fn=dp.name))
        elif not all('SchedulerCore.threads' in H.held_at_term(b) for b, _ in pops):
            out.append(bad(R, key, 'threads are removed from the table without holding its lock', fn=dp.name))
        elif any('SchedulerCore.threads' in (set(ctx.held(s.fn).held_at_term(s.bb)) | set(H0[s.fn.name])) for s in joins):
            out.append(bad(R, key, 'threads are joined while the thread table is locked', fn=dp.name))
        else:
            # the lock is released only through the "not over the maximum" edge of an exact `threads.len() > max_threads` test
            exit_edges = set()
            for b2, blk in enumerate(dp.blocks):
                tt = blk['term']
                if not tt or tt['k'] != 'switch' or blk['cleanup']:
                    continue
                for s_ in blk['stmts']:
                    if s_['k'] == 'assign' and s_['rv']['k'] == 'binop' and s_['rv']['op'] in ('Gt', 'Lt', 'Ge', 'Le'):
                        ea, eb = dp.expr_of_operand(s_['rv']['a']), dp.expr_of_operand(s_['rv']['b'])
                        op = s_['rv']['op']
                        if op in ('Lt', 'Le'):
                            ea, eb = eb, ea
                            op = 'Gt' if op == 'Lt' else 'Ge'
                        a, b = render(ea), render(eb)
                        exact_len = ea[0] == 'call' and ea[1].endswith('Vec::len') and 'threads' in a and not _has_arith(ea)
                        exact_max = eb[0] != 'binop' and 'max_threads' in b and 'len(' not in b and not _has_arith(eb)
                        if exact_len and exact_max and op == 'Gt':
                            fe = [tb for v, tb in tt['targets'] if v == '0']
                            if fe:
                                exit_edges.add(fe[0])
                            continue
                        # the same test written from the other side: `len <= max` (i.e. `max >= len`): its *true* edge is "not over"
                        exact_len_b = eb[0] == 'call' and eb[1].endswith('Vec::len') and 'threads' in b and not _has_arith(eb)
                        exact_max_a = ea[0] != 'binop' and 'max_threads' in a and 'len(' not in a and not _has_arith(ea)
                        if exact_len_b and exact_max_a and op == 'Ge':
                            listed0 = [tb for v, tb in tt['targets'] if v == '0']
                            te = tt['otherwise'] if listed0 else None
                            if te is None:
                                te = dict((v, tb) for v, tb in tt['targets']).get('1')
                            if te is not None:
                                exit_edges.add(te)
            drops = [b2 for b2, blk in enumerate(dp.blocks) if not blk['cleanup'] and blk['term'] and blk['term']['k'] == 'drop'
                     and not blk['term']['pl']['p'] and H.guards.get(blk['term']['pl']['l']) == 'SchedulerCore.threads']
            locks_ = [t_['target'] for b2, t_, kind, cls in lock_sites(dp) if cls == 'SchedulerCore.threads' and t_['target'] is not None]
            if exit_edges and drops and locks_ and all(dp.must_pass(l_, set(drops), exit_edges) for l_ in locks_):
                out.append(ok(R, key, 'the thread table is unlocked only after `threads.len() > max_threads` was found false; pops under the lock, joins outside it', fn=dp.name))
            else:
                out.append(bad(R, key, 'despawn can release the thread table while it still holds more than max_threads threads (no exact `threads.len() > max_threads` test guards the exit)', fn=dp.name))
    # every thread taken out of the table ends up in the collection that is joined (or is joined on the spot): a popped thread whose handle
    # is dropped is detached, it keeps running jobs after despawn has returned and is no longer counted
    if dp:
        key = 'despawn|every-popped-thread-is-kept-for-joining'
        pops_ = [(bb, t) for bb, t in calls(dp, 'alloc::vec::Vec::pop')]
        keeps_ = set(bb for bb, t in dp.calls() if (t['func'].get('fn') or '').endswith(('::Vec::push', 'JoinHandle::join', '::Vec::extend', '::VecDeque::push_back'))
                     and any(h in ' '.join(clean_ty(a['pl']['ty']) for a in t['args'] if a['k'] != 'const') for h in ('JoinHandle', 'SchedulerThread')))
        if not pops_:
            pass        # another removal idiom: the shape clause above speaks
        elif not keeps_:
            out.append(bad(R, key, 'threads are popped from the table but their join handles are not collected', fn=dp.name))
        else:
            loose = []
            for pb, pt in pops_:
                e_ = result_edges(dp, pb)
                some_ = edge_for(e_, OPTION, 'Some') if e_ else pt['target']
                if some_ is None:
                    some_ = pt['target']
                stops = set(b for b, _ in pops_) | set(dp.exits())
                if some_ is not None and not dp.must_pass(some_, stops, keeps_):
                    loose.append(pb)
            if loose:
                out.append(bad(R, key, 'a thread can be popped from the table without its join handle being kept (e.g. only idle threads are joined): the detached thread keeps taking jobs after despawn has returned, above the maximum and uncounted', loc=dp.loc(loose[0]), fn=dp.name))
            else:
                out.append(ok(R, key, 'every popped thread\'s handle is pushed onto the collection that is joined', fn=dp.name))
    # every handle taken out of the table is joined: the joining iteration is total (a short-circuiting adaptor or an early exit drops the
    # remaining handles unjoined, i.e. detaches pool threads that are still running)
    if dp:
        key = 'despawn|joins-every-handle'
        TOTAL = ('Iterator::for_each',)
        SHORT = ('Iterator::try_for_each', 'Iterator::try_fold', 'Iterator::any', 'Iterator::all', 'Iterator::find', 'Iterator::find_map', 'Iterator::position',
                 'Iterator::take_while', 'Iterator::map_while', 'Iterator::skip_while', 'Iterator::take', 'Iterator::skip', 'Iterator::step_by', 'Iterator::nth', 'Iterator::last',
                 'Iterator::filter', 'Iterator::filter_map', 'Iterator::next', 'Iterator::max_by_key', 'Iterator::min_by_key')
        joins = [s for f in [dp] + _children(ctx, dp.name) for s in g.sites.get(f.name, []) if (s.t['func'].get('fn') or '').endswith('JoinHandle::join')]
        verdicts = []
        for s_ in joins:
            if s_.fn.name == dp.name:
                nexts = set(b for b, t in dp.calls() if (t['func'].get('fn') or '').endswith(('Iterator::next', 'Vec::pop', 'VecDeque::pop_front', 'VecDeque::pop_back')))
                tgt = s_.t['target']
                if tgt is not None and nexts and dp.must_pass(tgt, set(dp.exits()), nexts):
                    verdicts.append(('ok', 'joined in a loop that only ends when the handles are exhausted'))
                else:
                    verdicts.append(('bad', 'the loop that joins the handles can be left after a join (e.g. on a join error): the remaining threads are detached while still running'))
            else:
                host = None
                for b, t in dp.calls():
                    if any(a['k'] != 'const' and clean_ty(a['pl']['ty']).replace('&mut ', '').replace('&', '') == '{closure:%s}' % s_.fn.name for a in t['args']):
                        host = t['func'].get('fn') or ''
                if host is None:
                    verdicts.append(('und', 'the closure that joins is not passed directly to an iterator method of despawn_threads_if_overloaded'))
                elif host.endswith(TOTAL):
                    # ... over the whole collection: no adaptor in front of the consumer that drops elements
                    PARTIAL = ('Iterator::skip', 'Iterator::take', 'Iterator::step_by', 'Iterator::filter', 'Iterator::filter_map', 'Iterator::take_while', 'Iterator::skip_while',
                               'Iterator::map_while', 'Iterator::nth', 'Iterator::skip_while', 'Vec::truncate', 'Vec::split_off')
                    part = [ (t2['func'].get('fn') or '').split('::')[-1] for b2, t2 in dp.calls() if (t2['func'].get('fn') or '').endswith(PARTIAL) and not dp.blocks[b2]['cleanup']
                             and any(h_ in ' '.join(clean_ty(a_['pl']['ty']) for a_ in t2['args'] if a_['k'] != 'const') for h_ in ('JoinHandle', 'SchedulerThread')) ]
                    if part:
                        verdicts.append(('bad', 'the handles are joined by %s, but behind `%s`, which leaves some of them out: those pool threads are detached while still running' % (host.split('::')[-1], part[0])))
                    else:
                        verdicts.append(('ok', 'joined by %s over all handles' % host.split('::')[-1]))
                elif host.endswith(SHORT):
                    verdicts.append(('bad', 'the handles are joined through %s, which can stop early or skip elements: the remaining pool threads are detached while still running (a panicked thread makes join() return Err)' % host.split('::')[-1]))
                else:
                    verdicts.append(('und', 'joined through %s: totality not known' % host))
        if any(v == 'bad' for v, _ in verdicts):
            out.append(bad(R, key, '; '.join(m for v, m in verdicts if v == 'bad'), fn=dp.name))
        elif any(v == 'und' for v, _ in verdicts) or not verdicts:
            out.append(undecided(R, key, '; '.join(m for v, m in verdicts if v == 'und') or 'no join found'))
        else:
            out.append(ok(R, key, '; '.join(sorted(set(m for v, m in verdicts))), fn=dp.name))
    return out


def free_delegates(ctx):
    """The free functions are thin: each calls the method of the same name on the process-wide scheduler, on every path, with the queue
    and the job it was given; a future id is taken from an atomic counter (ids decide who owns a WaitingForPoll queue)."""
    F = ctx.F
    out = []
    R = 'ORD-free'
    for name in ('desync', 'sync', 'try_sync', 'future_desync', 'future_sync'):
        fn = F.fn('desync::' + name)
        key = '%s|delegates' % name
        if not fn:
            out.append(undecided(R, key, 'free function not found'))
            continue
        target = S + name
        cs = [(bb, t) for bb, t in fn.calls() if (t['func'].get('fn') or '') == target]
        others = [short(t['func'].get('fn') or '') for bb, t in fn.calls() if (t['func'].get('fn') or '').startswith(S) and (t['func'].get('fn') or '') != target]
        if len(cs) == 1 and not others and fn.must_pass(0, set(fn.exits()), {cs[0][0]}):
            bb, t = cs[0]
            recv = render(fn.expr_of_operand(t['args'][0])) if t['args'] else ''
            args_ = [render(fn.expr_of_operand(a)) for a in t['args'][1:]]
            if 'scheduler(' in recv and args_[:2] == ['queue', 'job'] and (t['dest']['l'] == 0 or name in ('desync',)):
                out.append(ok(R, key, 'calls scheduler().%s(queue, job) and returns its result' % name, fn=fn.name))
            else:
                out.append(bad(R, key, 'does not pass its own queue and job to scheduler().%s, or does not return its result (receiver %s, arguments %s)' % (name, recv, args_), fn=fn.name))
        else:
            out.append(bad(R, key, 'does not delegate to Scheduler::%s on every path (calls: %s)' % (name, ', '.join(sorted(set(others))) or 'none'), fn=fn.name))
    # the methods of Desync<T> use the entry point of the same kind (a try_sync that went through sync would block, a sync through
    # desync would not wait ...)
    for name, accepted in (('desync', ('desync::desync', S + 'desync')), ('sync', ('desync::sync', S + 'sync')), ('try_sync', ('desync::try_sync', S + 'try_sync')),
                           ('future_desync', ('desync::future_desync', S + 'future_desync')), ('future_sync', ('desync::future_sync', S + 'future_sync')),
                           ('after', ('desync::Desync::future_desync', 'desync::future_desync', S + 'future_desync', S + 'after'))):
        fn = F.fn('desync::Desync::' + name)
        key = 'Desync::%s|delegates' % name
        if not fn:
            out.append(undecided(R, key, 'method not found'))
            continue
        entry = ['desync::desync', 'desync::sync', 'desync::try_sync', 'desync::future_desync', 'desync::future_sync', 'desync::after'] + [S + x for x in ('desync', 'sync', 'try_sync', 'sync_no_panic', 'future_desync', 'future_sync', 'after')] + ['desync::Desync::' + x for x in ('desync', 'sync', 'try_sync', 'future_desync', 'future_sync', 'after')]
        used = [t['func'].get('fn') for bb, t in fn.calls() if (t['func'].get('fn') or '') in entry]
        good = [bb for bb, t in fn.calls() if (t['func'].get('fn') or '') in accepted]
        wrong = sorted(set(short(u) for u in used if u not in accepted))
        if good and not wrong and fn.must_pass(0, set(fn.exits()), set(good)):
            out.append(ok(R, key, 'goes through %s on every path' % short([u for u in used if u in accepted][0]), fn=fn.name))
        else:
            out.append(bad(R, key, 'Desync::%s goes through %s instead of the entry point of its own kind' % (name, ', '.join(wrong) or 'nothing'), fn=fn.name))
    fid = F.fn('desync::FutureId::new')
    key = 'FutureId::new|unique'
    if not fid:
        out.append(undecided(R, key, 'anchor not found'))
    else:
        adds = [t for bb, t in fid.calls() if (t['func'].get('fn') or '').endswith('::fetch_add')]
        ret = render(fid.expr_of_local(0))
        step = adds[0]['args'][1] if adds and len(adds[0]['args']) > 1 else None
        if len(adds) == 1 and 'fetch_add(' in ret and step is not None and step['k'] == 'const' and str(step.get('val')) not in ('0', 'None'):
            out.append(ok(R, key, 'ids come from an atomic fetch_add with a non-zero step', fn=fid.name))
        else:
            out.append(bad(R, key, 'future ids are no longer drawn from an atomic counter with a non-zero step: two futures can carry the same id and both believe they own a queue parked in WaitingForPoll', fn=fid.name))
    return out


def rs_strength(ctx):
    """Reference strength of the handles that keep work alive while no caller holds it: the schedule owns the queues it lists (a Pending queue
    whose caller dropped every handle must still run), a PipeWaker owns the pipe context (between polls the input stream's waker is the only
    thing that keeps a pipe alive).  The opposite cases (handles that must be weak) are ORD-C05-weak and ORD-C16 weak-core."""
    F = ctx.F
    out = []
    R = 'RS'
    table = (('desync::SchedulerCore', 'desync::JobQueue', 'a queue on the schedule is owned by the schedule: if the schedule only held Weak references, a scheduled operation whose caller dropped the returned future and the queue handle would be freed before a pool thread reaches it'),
             ('desync::PipeWaker', 'desync::PipeContext', 'the waker held by the input stream owns the pipe context: with a Weak reference a pipe that is waiting for input is freed, and the remaining items are never processed'))
    for adt, target, why in table:
        a = F.adts.get(adt)
        key = '%s|owns-%s' % (adt.split('::')[-1], target.split('::')[-1])
        if not a:
            out.append(undecided(R, key, '%s not found' % adt))
            continue
        tys = [clean_ty(f['ty']) for f in a['variants'][0]['fields']]
        strong = [t for t in tys if ('alloc::sync::Arc<' + target) in t]
        weak = [t for t in tys if ('alloc::sync::Weak<' + target) in t]
        if strong and not weak:
            out.append(ok(R, key, 'held through Arc<%s>' % target.split('::')[-1]))
        elif weak:
            out.append(bad(R, key, '%s refers to %s weakly: %s' % (adt.split('::')[-1], target.split('::')[-1], why)))
        else:
            out.append(undecided(R, key, 'no field of %s refers to %s' % (adt, target)))
    return out


def c10_thread(ctx):
    """A pool thread runs every job it is handed: SchedulerThread::run sends the job to the thread's channel on every path, and the thread's
    loop calls each job it receives and then receives again."""
    F = ctx.F
    out = []
    R = 'ORD-C10-thread'
    g = cg(ctx)
    run = F.fn('desync::SchedulerThread::run')
    key = 'SchedulerThread::run|sends'
    if not run:
        out.append(undecided(R, key, 'anchor not found'))
    else:
        sends = [bb for bb, t in calls(run, 'std::sync::mpsc::Sender::send')]
        if sends and run.must_pass(0, set(run.exits()), set(sends)):
            out.append(ok(R, key, 'the job is sent to the thread on every path', fn=run.name))
        else:
            out.append(bad(R, key, 'SchedulerThread::run can return without handing the job to its thread: the queue it was meant to run stays Running/Pending with no runner', fn=run.name))
    def _recvs(k_):
        return calls(k_, 'std::sync::mpsc::Receiver::recv') + calls(k_, 'std::sync::mpsc::Receiver::recv_iter')
    bodies = [k for k in _children(ctx, 'desync::SchedulerThread::new') if _recvs(k)]
    key = 'SchedulerThread|loop-runs-jobs'
    if len(bodies) != 1:
        out.append(undecided(R, key, 'thread body (the closure that receives jobs) not found'))
    else:
        k = bodies[0]
        rc = _recvs(k)
        e = result_edges(k, rc[0][0])
        is_iter = (rc[0][1]['func'].get('fn') or '').endswith('recv_iter')
        okedge = (edge_for(e, OPTION, 'Some') if is_iter else edge_for(e, RESULT, 'Ok')) if e else None
        runs = [s_ for s_ in g.sites.get(k.name, []) if s_.kind == 'param']
        if okedge is None:
            out.append(undecided(R, key, 'test of recv() not recognised'))
        elif len(runs) >= 1 and k.must_pass(okedge, {rc[0][0]} | set(k.exits()), set(s_.bb for s_ in runs)) and rc[0][0] in k.reachable_blocks(okedge):
            out.append(ok(R, key, 'every received job is called before the next recv()', fn=k.name))
        else:
            out.append(bad(R, key, 'the pool thread can take a job from its channel without running it (or stops receiving)', fn=k.name))
    return out


def c10_fetch(ctx):
    """A pool thread reports 'nothing to run' only when the schedule is empty: next_to_run returns None only on the empty edge of
    schedule.pop_front(), and otherwise keeps looking."""
    out = []
    R = 'ORD-C10-fetch'
    fn = _fn(ctx, 'desync::SchedulerCore::next_to_run', R, out)
    if not fn:
        return out
    pops = [(bb, t) for bb, t in calls(fn, 'VecDeque::pop_front') if 'JobQueue' in clean_ty(t['args'][0]['pl']['ty'])]
    key = 'next_to_run|none-only-when-empty'
    if len(pops) != 1:
        out.append(undecided(R, key, 'expected one pop_front on the schedule, found %d' % len(pops)))
        return out
    e = result_edges(fn, pops[0][0])
    none_edge = edge_for(e, OPTION, 'None') if e else None
    nones = []
    for bb, b in enumerate(fn.blocks):
        if b['cleanup']:
            continue
        for s in b['stmts']:
            if s['k'] == 'assign' and not s['pl']['p'] and s['pl']['l'] == 0 and s['rv']['k'] == 'agg' and s['rv'].get('variant') == 'None':
                nones.append(bb)
    # `pop_front()?`: the None answer is built from the residual
    for bb, t in fn.calls():
        if (t['func'].get('fn') or '') == 'core::ops::try_trait::FromResidual::from_residual' and not t['dest']['p'] and t['dest']['l'] == 0 and not fn.blocks[bb]['cleanup']:
            nones.append(bb)
    if none_edge is None or not nones:
        out.append(undecided(R, key, 'shape not recognised'))
    elif all(edom(fn, none_edge, b) for b in nones):
        # and a queue that is not runnable leads back to another pop (loop), not out of the function
        pb = pops[0][0]
        some_edge = edge_for(e, OPTION, 'Some')
        loops = some_edge is not None and pb in fn.reachable_blocks(some_edge)
        if loops:
            out.append(ok(R, key, 'None is returned only when the schedule is empty; entries that are not runnable are skipped and the search continues', fn=fn.name))
        else:
            out.append(bad(R, key, 'after an entry that cannot be run the search stops: a runnable queue behind a stale entry is never found', fn=fn.name))
    else:
        out.append(bad(R, key, 'next_to_run can report "nothing to run" while the schedule still holds queues: the pool thread goes dormant and nobody is asked to run them', fn=fn.name))
    return out


DESYNC_ARC = 'alloc::sync::Arc<desync::Desync<'


def c05_drop(ctx):
    """Desync::drop queues a final synchronous job on its own queue on every path, and that job is where the value is freed."""
    out = []
    R = 'ORD-C05-drop'
    fn = _fn(ctx, '<desync::Desync as core::ops::drop::Drop>::drop', R, out)
    if not fn:
        return out
    syncs = [bb for bb, t in fn.calls() if (t['func'].get('fn') or '') in ('desync::sync', S + 'sync', S + 'sync_no_panic')]
    key = 'Desync::drop|sync-on-every-path'
    if syncs and all_paths_pass(fn, 0, syncs):
        out.append(ok(R, key, 'every path through drop performs a sync on the queue (after everything scheduled before)', fn=fn.name))
    else:
        out.append(bad(R, key, 'a path through Desync::drop does not synchronise with the queue: the value would be freed while operations may still run', fn=fn.name))
    # the queue argument is self.queue
    okq = True
    for bb, t in fn.calls():
        if bb in syncs:
            qa = [a for a in t['args'] if a['k'] != 'const' and 'JobQueue' in clean_ty(a['pl']['ty'])]
            if not qa or 'self.queue' not in render(fn.expr_of_operand(qa[0])):
                okq = False
    if okq:
        out.append(ok(R, 'Desync::drop|own-queue', 'the final job is queued on self.queue', fn=fn.name))
    else:
        out.append(bad(R, 'Desync::drop|own-queue', 'the final job is not queued on this object\'s own queue', fn=fn.name))
    # frees happen inside closures passed to those syncs
    frees = []
    for f in [fn] + _children(ctx, fn.name):
        for bb, t in calls(f, 'alloc::boxed::Box::from_raw'):
            frees.append(f)
    # every final sync is handed a closure that frees the value (one closure per branch, or one closure built first and used by both)
    free_closures = set(f.name for f in frees if f.is_closure)
    jobs_ok = bool(syncs)
    for bb, t in fn.calls():
        if bb in syncs:
            cl = [clean_ty(a['pl']['ty'])[9:-1] for a in t['args'] if a['k'] != 'const' and clean_ty(a['pl']['ty']).startswith('{closure:')]
            if not cl or not any(c in free_closures or any(fc.startswith(c + '::') for fc in free_closures) for c in cl):
                jobs_ok = False
    if frees and all(f.is_closure for f in frees) and jobs_ok and len(frees) <= len(syncs):
        out.append(ok(R, 'Desync::drop|free-in-job', 'Box::from_raw happens inside the closure run by the final sync of each branch', fn=fn.name))
    else:
        out.append(bad(R, 'Desync::drop|free-in-job', 'the value is not freed exactly once per branch inside the final queued job (frees: %d in %s, syncs: %d)' % (len(frees), sorted(set(short(f.name) for f in frees)), len(syncs)), fn=fn.name))
    return out


def c05_weak(ctx):
    """Pipes hold only a Weak<Desync> in their context and upgrade it before scheduling; late references are disposed of on a separate queue."""
    F = ctx.F
    out = []
    R = 'ORD-C05-weak'
    adt = F.adts.get('desync::PipeContext')
    if not adt:
        return [undecided(R, 'anchor', 'PipeContext not found')]
    tf = [f for f in adt['variants'][0]['fields'] if f['name'] == 'target']
    if tf and clean_ty(tf[0]['ty']).startswith('alloc::sync::Weak<desync::Desync<'):
        out.append(ok(R, 'PipeContext.target', 'the pipe context refers to its target through Weak<Desync<_>>'))
    else:
        out.append(bad(R, 'PipeContext.target', 'PipeContext.target is %s: the pipe would keep the Desync alive' % (tf[0]['ty'] if tf else 'missing')))
    strong = [f['name'] for f in adt['variants'][0]['fields'] if DESYNC_ARC in clean_ty(f['ty'])]
    if strong:
        out.append(bad(R, 'PipeContext|strong', 'PipeContext field(s) %s hold a strong reference to the Desync' % strong))
    pp = F.fn('desync::PipeContext::poll')
    if not pp:
        out.append(undecided(R, 'PipeContext::poll', 'anchor not found'))
        return out
    ups = calls(pp, 'alloc::sync::Weak::upgrade')
    fds = calls(pp, 'Desync::future_desync')
    key = 'PipeContext::poll|upgrade-before-schedule'
    if len(ups) != 1 or not fds:
        out.append(bad(R, key, 'expected one Weak::upgrade guarding the scheduling of the poll job (found %d upgrades, %d future_desync)' % (len(ups), len(fds)), fn=pp.name))
    else:
        e = result_edges(pp, ups[0][0])
        some = edge_for(e, OPTION, 'Some') if e else None
        none = edge_for(e, OPTION, 'None') if e else None
        if some is not None and all(edom(pp, some, bb) for bb, _ in fds):
            out.append(ok(R, key, 'the poll job is scheduled only on the Some edge of Weak::upgrade', fn=pp.name))
        else:
            out.append(bad(R, key, 'a poll job can be scheduled without a successful upgrade of the weak target', fn=pp.name))
        # None edge: poll_fn taken and disposed on REFERENCE_CHUTE
        key = 'PipeContext::poll|dispose-when-dead'
        takes = [bb for bb, t in calls(pp, 'core::option::Option::take')]
        chute = [bb for bb, t in calls(pp, 'Desync::desync')]
        if none is not None and any(edom(pp, none, b) for b in takes) and any(edom(pp, none, b) for b in chute):
            out.append(ok(R, key, 'when the target is gone the poll function is taken out and dropped on the disposal queue', fn=pp.name))
        else:
            out.append(bad(R, key, 'when the target is gone the poll function (stream + closure) is not released', fn=pp.name))
    # no closure handed to the target's queue captures a strong reference to the Desync
    for root in ('desync::pipe_in', 'desync::PipeContext::poll'):
        for k in _children(ctx, root):
            for u in k.upvars:
                if DESYNC_ARC in clean_ty(u['ty']) or clean_ty(u['ty']).startswith('desync::Desync<'):
                    out.append(bad(R, '%s|upvar:%s' % (short(k.name), u['name']), 'closure captures a strong reference to the Desync (%s): the pipe keeps its target alive' % u['ty'], fn=k.name))
    if not any(i.verdict != 'ok' and 'upvar' in i.key for i in out):
        out.append(ok(R, 'closures|no-strong-capture', 'no closure of pipe_in / PipeContext::poll captures Arc<Desync<_>>'))
    return out


def c11(ctx):
    """pipe_in: items are processed inside a job of the target, one stream poll per loop turn, each item handed to the processing function and
    awaited to completion before the next poll; Pending keeps the pipe, end of stream ends it."""
    F = ctx.F
    out = []
    R = 'ORD-C11'
    g = cg(ctx)
    # (a) the poll function only runs inside a future_desync job of the target
    pp = F.fn('desync::PipeContext::poll')
    if not pp:
        return [undecided(R, 'anchor', 'PipeContext::poll not found')]
    pollfn_calls = []
    for k in [pp] + _children(ctx, pp.name):
        for s in g.sites.get(k.name, []):
            if s.kind == 'param' and 'PollFn' in s.what:
                pollfn_calls.append(k)
    job_closures = set()
    for bb, t in calls(pp, 'Desync::future_desync'):
        for a in t['args']:
            if a['k'] != 'const' and clean_ty(a['pl']['ty']).startswith('{closure:'):
                job_closures.add(clean_ty(a['pl']['ty'])[9:-1])
    key = 'PipeContext::poll|pollfn-in-job'
    # nothing that PipeContext::poll itself runs or builds - other than the job it hands to future_desync - reaches a call of the poll function
    # (call graph + "constructs this closure / coroutine" edges; the body of the job may live in helper functions of any name)
    def _constructed(fn_):
        outc = set()
        for b_ in fn_.blocks:
            for s_ in b_['stmts']:
                if s_['k'] == 'assign' and s_['rv']['k'] == 'agg' and s_['rv'].get('ak') in ('closure', 'coroutine') and s_['rv'].get('def'):
                    outc.add(s_['rv']['def'])
        return outc
    skip_sites = set(bb for bb, t in calls(pp, 'Desync::future_desync'))
    seen_, work_ = set(), [pp.name]
    while work_:
        fnm = work_.pop()
        if fnm in seen_ or fnm in job_closures:
            continue
        seen_.add(fnm)
        f_ = F.fn(fnm)
        if not f_:
            continue
        for s_, c_ in g.sync_edges(fnm):
            if fnm == pp.name and s_.bb in skip_sites:
                continue
            work_.append(c_)
        work_.extend(_constructed(f_))
    inside = not any(k.name in seen_ for k in pollfn_calls) and bool(job_closures)
    if pollfn_calls and inside:
        out.append(ok(R, key, 'the poll function is invoked only inside the job scheduled with future_desync on the target', fn=pp.name))
    else:
        out.append(bad(R, key, 'the poll function (stream + processing closure) can run outside a job of the target Desync', fn=pp.name))
    # (c) keep_polling == false => poll_fn = None
    cor = [k for k in _children(ctx, pp.name) if k.is_coroutine]
    key = 'PipeContext::poll|release-on-false'
    okc = False
    for k in cor:
        aw = await_sites(k)
        for a in aw:
            # value of the await, tested; on false edge assignment of None through poll_fn guard
            for bb, b in enumerate(k.blocks):
                for s in b['stmts']:
                    if s['k'] == 'assign' and s['pl']['p'] and not b['cleanup']:
                        ev = k.expr_of_rvalue(s['rv'])
                        if ev[0] == 'agg' and ev[2].endswith('Option::None') and 'PipeContext.poll_fn' in (ctx.held(k).held_before(bb, 0) | ctx.held(k).held_at_term(bb)):
                            if a['ready'] is not None and edom(k, a['ready'], bb):
                                okc = True
    if okc:
        out.append(ok(R, key, 'when the poll function reports it is finished, it is dropped (poll_fn = None)', fn=pp.name))
    else:
        out.append(bad(R, key, 'a finished pipe keeps its poll function (input stream and closure are never released)', fn=pp.name))
    # (b) pipe_in's coroutine
    pin = [k for k in _children(ctx, 'desync::pipe_in') if k.is_coroutine]
    key = 'pipe_in|loop'
    if len(pin) != 1:
        out.append(undecided(R, key, 'pipe_in coroutine not found'))
        return out
    k = pin[0]
    polls = [s for s in g.sites.get(k.name, []) if s.kind == 'poll' and 'poll_next' in (s.t['func'].get('fn') or '')]
    procs = [s for s in g.sites.get(k.name, []) if s.kind == 'param']
    aw = await_sites(k)
    if len(polls) != 1 or len(procs) != 1 or len(aw) != 1:
        out.append(bad(R, key, 'expected one stream poll, one call of the processing function and one await per loop turn (found %d/%d/%d)' % (len(polls), len(procs), len(aw)), fn=k.name))
        return out
    e = result_edges(k, polls[0].bb)
    ready = edge_for(e, POLL_ENUM, 'Ready') if e else None
    pending = edge_for(e, POLL_ENUM, 'Pending') if e else None
    inner = inner_switch(k, polls[0].t['dest']['l'], 'Ready', ready) if ready is not None else None
    some = edge_for(inner, OPTION, 'Some') if inner else None
    none = edge_for(inner, OPTION, 'None') if inner else None
    if some is None or none is None or pending is None:
        out.append(undecided(R, key, 'match on the stream poll not recognised'))
        return out
    pb = procs[0].bb
    problems = []
    if not edom(k, some, pb):
        problems.append('the processing function is called outside the Ready(Some(item)) edge')
    if not dominates(k, pb, aw[0]['poll_bb']):
        problems.append('the processing future is awaited before it was created')
    if polls[0].bb not in k.reachable_blocks(aw[0]['ready']):
        problems.append('the loop does not return to the stream after an item')
    # what the stream answered is always looked at: no path leaves the loop turn between the poll and the test of its result
    tgt = polls[0].t['target']
    if tgt is not None and not k.must_pass(tgt, set(k.exits()) | {polls[0].bb}, {e['_bb']}):
        problems.append('the poll function can return (or poll again) after polling the stream without looking at what it answered: an item the stream has already handed over is dropped unprocessed')
    if not k.must_pass(some, {polls[0].bb}, {aw[0]['ready']}):
        problems.append('the next stream poll can happen before the previous item\'s processing future completed (items overlap or are skipped)')
    # the item is moved into the call
    item_src = render(k.expr_of_operand(procs[0].t['args'][1])) if len(procs[0].t['args']) > 1 else ''
    if 'Some' not in item_src:
        problems.append('the value passed to the processing function is not the item that was read (%s)' % item_src[:60])
    # Pending -> keep ; Ready(None) -> stop   (in the terms of PipeContext::poll, which releases the poll function on "stop")
    prb = pipe_result_blocks(ctx, k)
    if prb is None:
        out.append(undecided(R, key, 'the result of the poll function is not a literal keep / stop answer that PipeContext::poll tests' + ('; also: ' + '; '.join(problems) if problems else '')))
        return out
    keep_b, stop_b = prb

    def only(edge, mine, other):
        return k.must_pass(edge, set(k.exits()), mine) and not (k.reachable_blocks(edge, avoid=mine) & other)
    if not only(pending, keep_b, stop_b):
        problems.append('a Pending stream does not keep the pipe alive (must answer "keep polling")')
    if not only(none, stop_b, keep_b):
        problems.append('the end of the stream does not end the pipe (must answer "finished")')
    if problems:
        out.append(bad(R, key, '; '.join(problems), fn=k.name))
    else:
        out.append(ok(R, key, 'poll -> Some(item): process(item), await to completion, poll again; Pending -> keep (true); None -> stop (false)', fn=k.name))
    # a wake-up of the pipe's waker always leads to a poll job (unless this waker was already used): a wake that arrives while the stream
    # is being polled queues the next poll behind the running one, which is what keeps a self-waking stream going
    pw = F.fn('<desync::PipeWaker as futures_task::arc_wake::ArcWake>::wake_by_ref')
    key2 = 'PipeWaker|wake-always-polls'
    if not pw:
        out.append(undecided(R, key2, 'anchor not found'))
    else:
        takes = [(bb, t) for bb, t in pw.calls() if (t['func'].get('fn') or '') in ('core::option::Option::take', 'core::clone::Clone::clone') and t['args'] and '.context' in render(pw.expr_of_operand(t['args'][0])) and 'Option' in clean_ty(pw.local_ty(t['dest']['l']))]
        ppolls = set(bb for bb, t in calls(pw, 'PipeContext::poll'))
        exits_ = set(pw.exits())
        if not ppolls:
            out.append(bad(R, key2, 'PipeWaker::wake_by_ref no longer schedules a poll of the pipe', fn=pw.name))
        elif not takes:
            if pw.must_pass(0, exits_, ppolls):
                out.append(ok(R, key2, 'every wake-up schedules a poll of the pipe', fn=pw.name))
            else:
                out.append(bad(R, key2, 'a wake-up can return without scheduling a poll of the pipe: the stream has signalled new data and nobody will read it', fn=pw.name))
        else:
            tb, tt = takes[0]
            e_ = result_edges(pw, tb)
            some_ = edge_for(e_, OPTION, 'Some') if e_ else None
            if some_ is None:
                out.append(undecided(R, key2, 'test of the taken context not recognised'))
            elif pw.must_pass(0, exits_, {tb}) and pw.must_pass(some_, exits_, ppolls):
                out.append(ok(R, key2, 'every wake-up takes the context, and a context that was still there is always polled', fn=pw.name))
            else:
                out.append(bad(R, key2, 'a wake-up can return without taking the context or without polling the pipe it found: the stream has signalled new data '
                               '(possibly from inside its own poll) and nobody will read it; the pipe sleeps for ever with its waker spent or ignored', fn=pw.name))
    # the context used for the stream poll is built from the closure's own waker parameter
    fw = calls(k, 'core::task::wake::Context::from_waker')
    key = 'pipe_in|stream-waker'
    if len(fw) == 1 and 'desync_waker' in render(k.expr_of_operand(fw[0][1]['args'][0])) or (len(fw) == 1 and expr_root(k.expr_of_operand(fw[0][1]['args'][0]))[0] == 'upvar'):
        out.append(ok(R, key, 'the stream is polled with the pipe\'s own waker (a wake-up schedules the next poll job)', fn=k.name))
    else:
        out.append(bad(R, key, 'the stream is not polled with the waker handed to the poll function: stream wake-ups would not reschedule the pipe', fn=k.name))
    return out


def c12(ctx):
    """pipe: one push per processed item after its future completed; closed only at end of input (or drop); the consumer sees the end only when
    the buffer is empty and closed."""
    F = ctx.F
    out = []
    R = 'ORD-C12'
    g = cg(ctx)
    pk = [k for k in _children(ctx, 'desync::pipe') if k.is_coroutine]
    if len(pk) != 1:
        return [undecided(R, 'anchor', 'pipe coroutine not found')]
    k = pk[0]
    u = FieldUse(k, 'desync::PipeStreamCore')
    polls = [s for s in g.sites.get(k.name, []) if s.kind == 'poll' and 'poll_next' in (s.t['func'].get('fn') or '')]
    procs = [s for s in g.sites.get(k.name, []) if s.kind == 'param']
    aw = await_sites(k)
    pushes = [bb for (bb, m, t) in u.calls.get('pending', []) if m == 'push_back']
    key = 'pipe|one-output-per-input'
    if len(polls) != 1 or len(procs) != 1 or len(aw) != 1 or len(pushes) != 1:
        out.append(bad(R, key, 'expected one stream poll, one processing call, one await and one push per loop turn (found %d/%d/%d/%d)' % (len(polls), len(procs), len(aw), len(pushes)), fn=k.name))
        return out
    e = result_edges(k, polls[0].bb)
    ready = edge_for(e, POLL_ENUM, 'Ready') if e else None
    pending = edge_for(e, POLL_ENUM, 'Pending') if e else None
    inner = inner_switch(k, polls[0].t['dest']['l'], 'Ready', ready) if ready is not None else None
    some = edge_for(inner, OPTION, 'Some') if inner else None
    none = edge_for(inner, OPTION, 'None') if inner else None
    problems = []
    if some is None or none is None:
        out.append(undecided(R, key, 'match on the stream poll not recognised'))
        return out
    if not edom(k, some, procs[0].bb):
        problems.append('processing outside the Ready(Some) edge')
    if not edom(k, aw[0]['ready'], pushes[0]):
        problems.append('the output is pushed before the processing future completed')
    if not k.must_pass(some, {polls[0].bb}, {pushes[0]}):
        problems.append('an input item can be consumed without producing an output')
    # the pushed value is the awaited result
    pt = [t for (bb, m, t) in u.calls.get('pending', []) if m == 'push_back'][0]
    if polls[0].bb not in k.reachable_blocks(pushes[0]):
        problems.append('the loop does not return to the input after an output')
    tgt = polls[0].t['target']
    if tgt is not None and not k.must_pass(tgt, set(k.exits()) | {polls[0].bb}, {e['_bb']}):
        problems.append('the poll function can return (or poll again) after polling the input without looking at what it answered: an item the input has already handed over is dropped')
    if problems:
        out.append(bad(R, key, '; '.join(problems), fn=k.name))
    else:
        out.append(ok(R, key, 'each Ready(Some(item)) leads to exactly one push of the completed result before the next poll', fn=k.name))
    # the answers: a Pending input keeps the pipe (unless the output stream is gone), a full buffer keeps it, the end of the input ends it
    key = 'pipe|answers'
    prb = pipe_result_blocks(ctx, k)
    pending_e = edge_for(e, POLL_ENUM, 'Pending') if e else None
    if prb is None or pending_e is None:
        out.append(undecided(R, key, 'the result of the poll function is not a literal keep / stop answer that PipeContext::poll tests'))
    else:
        keep_b, stop_b = prb
        probs2 = []
        from .ordq import feasible_reach
        if not (k.reachable_blocks(pending_e) & keep_b):
            probs2.append('a Pending input never keeps the pipe: it ends at the first moment its input has nothing ready, and the rest of the input is lost')
        if not k.must_pass(none, set(k.exits()), stop_b) and feasible_reach(k, none, set(k.exits()) | keep_b, stop_b):
            probs2.append('the end of the input does not end the pipe')
        bp = [bb for (bb, i, v) in u.assigns.get('backpressure_release_notify', []) if v[0] == 'agg' and v[2].endswith('Option::Some')]
        for pb in bp:
            if not k.must_pass(pb, set(k.exits()), keep_b) and feasible_reach(k, pb, set(k.exits()) | stop_b, keep_b):
                probs2.append('after parking its waker in the back-pressure slot the producer answers "finished": the pipe is torn down while the consumer is merely slow, and the unread input is lost')
        if not bp:
            probs2.append('no back-pressure registration found')
        if probs2:
            out.append(bad(R, key, '; '.join(probs2), fn=k.name))
        else:
            out.append(ok(R, key, 'Pending input -> keep polling; full buffer -> park the waker and keep polling; end of input -> finished', fn=k.name))
    # the waker parked in the back-pressure slot is still good when the consumer fires it: it is parked before this job has handed it to
    # the input stream (so nobody else can use it up), or the next job replaces whatever is in the slot
    key = 'pipe|backpressure-waker-live'
    bp_all = [bb for (bb, i, v) in u.assigns.get('backpressure_release_notify', []) if v[0] == 'agg' and v[2].endswith('Option::Some')]
    after_poll = k.reachable_blocks(polls[0].t['target']) if polls[0].t['target'] is not None else set()
    late = [b for b in bp_all if b in after_poll]
    early = [b for b in bp_all if b not in after_poll]
    prb2 = pipe_result_blocks(ctx, k)
    if not bp_all or prb2 is None:
        out.append(undecided(R, key, 'back-pressure registration or the poll function\'s answers not recognised'))
    else:
        keep2 = [b for b in prb2[0] if b not in after_poll]
        refresh = bool(early) and bool(keep2) and all(any(dominates(k, e_, b) or edom(k, e_, b) for e_ in early) for b in keep2)
        if not late:
            out.append(ok(R, key, 'the waker is parked only before the input is polled in that job', fn=k.name))
        elif refresh:
            out.append(ok(R, key, 'a waker parked after the input was polled can be used up by the input, but every throttled poll job replaces the slot', fn=k.name))
        else:
            out.append(bad(R, key, 'a waker is parked in the back-pressure slot after the same waker was handed to the input stream, and a later throttled poll does not always replace it: '
                           'the input can use the (one-shot) waker up, the consumer then fires a dead waker and the producer never resumes', fn=k.name))
    # closed = true only on Ready(None)
    key = 'pipe|closed-at-end'
    cl = [(bb, i) for (bb, i, v) in u.assigns.get('closed', [])]
    if len(cl) == 1 and edom(k, none, cl[0][0]):
        out.append(ok(R, key, 'the producer sets closed only when the input returned Ready(None)', fn=k.name))
    else:
        out.append(bad(R, key, 'the producer marks the stream closed %s' % ('%d times' % len(cl) if len(cl) != 1 else 'on an edge other than end-of-input'), fn=k.name))
    # consumer
    pn = F.fn('<desync::PipeStream as futures_core::stream::Stream>::poll_next')
    key = 'poll_next|end-only-when-empty-and-closed'
    if not pn:
        out.append(undecided(R, key, 'anchor not found'))
    else:
        u2 = FieldUse(pn, 'desync::PipeStreamCore')
        pops = [(bb, t) for (bb, m, t) in u2.calls.get('pending', []) if m == 'pop_front']
        if len(pops) != 1:
            out.append(bad(R, key, 'expected one pop_front in poll_next', fn=pn.name))
        else:
            e = result_edges(pn, pops[0][0])
            none_e = edge_for(e, OPTION, 'None') if e else None
            # Ready(None) aggregates: Poll::Ready whose payload is Option::None
            ends = []
            for bb, b in enumerate(pn.blocks):
                if b['cleanup']:
                    continue
                for s in b['stmts']:
                    if s['k'] == 'assign' and s['rv']['k'] == 'agg' and s['rv'].get('variant') == 'Ready' and s['rv'].get('adt') == POLL_ENUM:
                        pe = pn.expr_of_operand(s['rv']['ops'][0])
                        if pe[0] == 'agg' and pe[2].endswith('Option::None'):
                            ends.append(bb)
            # the closed test
            closed_true = None
            for bb, b in enumerate(pn.blocks):
                t = b['term']
                if t and t['k'] == 'switch':
                    for s in b['stmts']:
                        if s['k'] == 'assign' and s['rv']['k'] == 'use' and s['rv']['op']['k'] == 'copy' and any(p['k'] == 'field' and p['n'] == 'closed' for p in s['rv']['op']['pl']['p']):
                            closed_true = t['otherwise']
            if closed_true is None:
                from .ordq import field_test_edges
                fte = field_test_edges(pn, 'closed')
                if len(fte) == 1:
                    closed_true = fte[0][1]
            some_e = edge_for(e, OPTION, 'Some') if e else None
            closed_false = None
            if closed_true is not None:
                for bb, b in enumerate(pn.blocks):
                    t = b['term']
                    if t and t['k'] == 'switch' and not b['cleanup'] and t['otherwise'] == closed_true and t['targets']:
                        closed_false = t['targets'][0][1]
            from .ordq import feasible_reach

            closed_sw = [bb for bb, b in enumerate(pn.blocks) if b['term'] and b['term']['k'] == 'switch' and not b['cleanup'] and b['term']['otherwise'] == closed_true]

            def only_after(edge, other, b, test_bb):
                # b is reached only through `edge`: by dominance, or - when the test result travelled through a helper's return value - because
                # the test itself dominates b and no feasible path leads from the opposite edge to b
                return edom(pn, edge, b) or (other is not None and test_bb is not None and dominates(pn, test_bb, b) and not feasible_reach(pn, other, {b}, set()))
            if none_e is None or not ends or closed_true is None:
                out.append(undecided(R, key, 'shape not recognised'))
            elif all(only_after(none_e, some_e, b, pops[0][0]) and only_after(closed_true, closed_false, b, closed_sw[0] if closed_sw else None) for b in ends):
                out.append(ok(R, key, 'the stream ends only when nothing is buffered and the core is closed', fn=pn.name))
            else:
                out.append(bad(R, key, 'the consumer can be told the stream ended while outputs are still buffered or the input is still open', fn=pn.name))
    return out


def c16(ctx):
    """Dropping the output stream shuts the pipe down: the producer stops on `closed` / on a dead core, the only strong reference to the
    Desync held by the pipe sits in on_drop, which runs on the disposal queue."""
    F = ctx.F
    out = []
    R = 'ORD-C16'
    pk = [k for k in _children(ctx, 'desync::pipe') if k.is_coroutine]
    if len(pk) != 1:
        return [undecided(R, 'anchor', 'pipe coroutine not found')]
    k = pk[0]
    # the closure that creates the coroutine upgrades the weak core
    parent = F.fn(k.parent)
    ups = []
    for c_ in [x for x in [parent] + _children(ctx, 'desync::pipe') if x]:
        for bb_, t_ in calls(c_, 'alloc::sync::Weak::upgrade'):
            if 'PipeStreamCore' in clean_ty(t_['args'][0]['pl']['ty']) and (c_.name, bb_) not in [(a, b) for a, b, _ in ups]:
                ups.append((c_.name, bb_, t_))
    key = 'pipe|weak-core'
    if len(ups) >= 1:
        out.append(ok(R, key, 'the producer reaches the stream core through a Weak that is upgraded on every poll', fn=parent.name))
    else:
        out.append(bad(R, key, 'the producer no longer upgrades a weak reference to the stream core on each poll', fn=parent.name if parent else ''))
    # strong Arc<Desync> only in the on_drop closure
    holders = []
    for c in _children(ctx, 'desync::pipe'):
        for u in c.upvars:
            if DESYNC_ARC in clean_ty(u['ty']):
                holders.append((c, u['name']))
    ps_new = calls(F.fn('desync::pipe'), 'PipeStream::new') if F.fn('desync::pipe') else []
    on_drop = None
    if ps_new:
        for a in ps_new[0][1]['args']:
            if a['k'] != 'const' and clean_ty(a['pl']['ty']).startswith('{closure:'):
                on_drop = clean_ty(a['pl']['ty'])[9:-1]
    key = 'pipe|strong-ref-only-in-on_drop'
    if on_drop and holders and all(c.name == on_drop for c, _ in holders):
        out.append(ok(R, key, 'the only closure of pipe() holding Arc<Desync<_>> is the on_drop closure given to PipeStream::new'))
    else:
        out.append(bad(R, key, 'a strong reference to the Desync is held by %s (expected only the on_drop closure)' % ', '.join('%s.%s' % (short(c.name), n) for c, n in holders)))
    # stream core must not be held strongly by producer closures
    for c in _children(ctx, 'desync::pipe'):
        if c.name == on_drop:
            continue
        for u in c.upvars:
            if clean_ty(u['ty']).startswith('alloc::sync::Arc<std::sync::poison::mutex::Mutex<desync::PipeStreamCore<') and not c.is_coroutine and c.parent == 'desync::pipe':
                out.append(bad(R, 'pipe|core-strong', 'the producer closure holds a strong reference to the stream core: dropping the output stream would not be noticed', fn=c.name))
    # closed => return false
    u = FieldUse(k, 'desync::PipeStreamCore')
    key = 'pipe|stop-on-closed'
    reads = u.reads.get('closed', [])
    # a poll that reads its input and then goes (back) to sleep has looked at `closed` on the way: the poll that PipeStream::drop's wake-up
    # triggers then ends the pipe instead of parking again.  (One test is enough when it is made in the critical section that registers
    # the close notifier - LW1 - and two are needed when registration and first test are apart; what is necessary is a test on every path.)
    from .ordq import field_test_edges, feasible_reach
    tests_c = set(sb for sb, _ in field_test_edges(k, 'closed', 'lock('))
    polls_c = [s_ for s_ in cg(ctx).sites.get(k.name, []) if s_.kind == 'poll' and 'poll_next' in (s_.t['func'].get('fn') or '')]
    prb_c = pipe_result_blocks(ctx, k)
    if len(polls_c) == 1 and prb_c and polls_c[0].t['target'] is not None:
        after_c = k.reachable_blocks(polls_c[0].t['target'])
        keeps_c = set(b for b in prb_c[0] if b in after_c)
        if not keeps_c:
            out.append(undecided(R, key, 'no "keep polling" answer after the input poll'))
        elif tests_c and (k.must_pass(0, keeps_c, tests_c) or not feasible_reach(k, 0, keeps_c, tests_c)):
            out.append(ok(R, key, 'every poll that reads the input and answers "keep polling" has tested `closed` (%d read site(s))' % len(reads), fn=k.name))
        else:
            out.append(bad(R, key, 'the producer can poll its input and go back to sleep without having looked at `closed`: the poll that follows the drop of the output stream parks again instead of ending the pipe', fn=k.name))
    elif len(reads) >= 2:
        out.append(ok(R, key, '`closed` is consulted at the start of the poll and again before going to sleep (%d reads)' % len(reads), fn=k.name))
    else:
        out.append(bad(R, key, 'the producer consults `closed` only %d time(s)' % len(reads), fn=k.name))
    # drop marks the core closed, under its lock
    dr0 = F.fn('<desync::PipeStream as core::ops::drop::Drop>::drop')
    if dr0:
        u0 = FieldUse(dr0, 'desync::PipeStreamCore')
        sets = [(bb, i) for (bb, i, v) in u0.assigns.get('closed', []) if v[0] == 'const' and str(v[1]) == '1']
        H0 = ctx.held(dr0)
        if sets and all('PipeStream.core' in H0.held_before(bb, i) for bb, i in sets) and all_paths_pass(dr0, 0, [bb for bb, _ in sets]):
            out.append(ok(R, 'PipeStream::drop|sets-closed', 'dropping the output stream marks the core closed (under its lock) on every path', fn=dr0.name))
        else:
            out.append(bad(R, 'PipeStream::drop|sets-closed', 'dropping the output stream does not (always) mark the core closed: the producer keeps reading its input', fn=dr0.name))
    # whenever the producer finds the core closed it stops (returns false)
    key = 'pipe|closed-means-stop'
    from .ordq import field_test_edges
    closed_true = [te for _, te in field_test_edges(k, 'closed', 'lock(')]
    prb = pipe_result_blocks(ctx, k)
    one_blocks, zero_blocks = prb if prb else (set(), set())

    def _ret_consts(edge):
        # every path from the edge to the end of the poll function answers "finished" (and never "keep polling")
        if k.must_pass(edge, set(k.exits()), zero_blocks) and not (k.reachable_blocks(edge, avoid=zero_blocks) & one_blocks):
            return {'0'}
        from .ordq import feasible_reach
        if not feasible_reach(k, edge, set(k.exits()) | one_blocks, zero_blocks):
            return {'0'}
        return {'?'}
    if prb is None:
        out.append(undecided(R, key, 'the result of the poll function is not a literal keep / stop answer that PipeContext::poll tests'))
        closed_true = None
    if closed_true is None:
        pass
    elif len(closed_true) < 1:
        out.append(undecided(R, key, 'no test of `closed` found in the producer'))
    elif all(_ret_consts(e_) == {'0'} for e_ in closed_true):
        out.append(ok(R, key, 'every test of `closed` (%d) leads to `return false` (the poll function, input stream and closure are then released)' % len(closed_true), fn=k.name))
    else:
        out.append(bad(R, key, 'the producer sees the core closed but keeps the pipe alive (does not return false)', fn=k.name))
    # a pipe whose output is dropped while its producer sleeps on back-pressure is only released if (a) a spent PipeWaker no longer holds
    # the context (one-shot: the input stream may keep the waker it has already woken), or (b) the close notifier registered by the
    # previous poll is still in place on the throttled return, so that PipeStream::drop reaches the producer through it
    key = 'pipe|release-when-throttled'
    pw = F.fn('<desync::PipeWaker as futures_task::arc_wake::ArcWake>::wake_by_ref')
    one_shot = False
    if pw:
        takes = [(bb, t) for bb, t in calls(pw, 'core::option::Option::take') if '.context' in render(pw.expr_of_operand(t['args'][0]))]
        polls = calls(pw, 'PipeContext::poll')
        if takes and polls and all('take(' in render(pw.expr_of_operand(t['args'][0])) for bb, t in polls):
            one_shot = True
    bp_some = [bb for (bb, i, v) in u.assigns.get('backpressure_release_notify', []) if v[0] == 'agg' and v[2] == 'core::option::Option::Some']
    nsc_none = [bb for (bb, i, v) in u.assigns.get('notify_stream_closed', []) if v[0] == 'agg' and v[2] == 'core::option::Option::None']
    kept = bool(bp_some) and not any(b == t_ or t_ in k.reachable_blocks(b) for b in nsc_none for t_ in bp_some)
    # the waker parked in the back-pressure slot is the pipe's own (its wake-up schedules a fresh poll job and holds the context weakly enough
    # for the one-shot rule above), never the waker of the job that is running the poll function: parking that one suspends the poll job in
    # the middle of the target's queue, where it holds the stream core, the context and the input - and PipeStream::drop does not fire this slot
    ambient = []
    for k2 in _children(ctx, 'desync::pipe'):
        u2 = FieldUse(k2, 'desync::PipeStreamCore')
        for (bb2, i2, v2) in u2.assigns.get('backpressure_release_notify', []):
            if v2[0] == 'agg' and v2[2].endswith('Option::Some'):
                txt = render(v2)
                if 'waker(' in txt.replace('from_waker(', 'from_w(') and 'from_waker(' not in txt:
                    ambient.append((k2, bb2, txt))
    if ambient:
        k2, bb2, txt = ambient[0]
        out.append(bad(R, 'pipe|throttled-parks-own-waker', 'the throttled producer parks the waker of the job that is running it (%s) instead of the pipe\'s own waker: the poll job is suspended in the '
                       'target\'s queue holding the stream core, the context and the input stream, only a read of the output could resume it, and dropping the output never does' % txt[:60], loc=k2.loc(bb2), fn=k2.name))
    elif bp_some:
        out.append(ok(R, 'pipe|throttled-parks-own-waker', 'the back-pressure slot receives the pipe\'s own waker; the throttled poll job ends instead of suspending', fn=k.name))
    if ambient:
        pass
    elif not pw or not bp_some:
        out.append(undecided(R, key, 'PipeWaker::wake_by_ref or the back-pressure registration in pipe() not found'))
    elif one_shot and kept:
        out.append(ok(R, key, 'a PipeWaker gives up its context when it fires, and the throttled return leaves the close notifier of the previous poll registered', fn=k.name))
    elif one_shot:
        out.append(ok(R, key, 'a PipeWaker gives up its context when it fires: a waker kept by the input stream after use cannot keep the pipe alive', fn=k.name))
    elif kept:
        out.append(ok(R, key, 'PipeWaker is not one-shot, but the throttled return leaves the close notifier registered, so PipeStream::drop still reaches the producer', fn=k.name))
    else:
        out.append(bad(R, key, 'a PipeWaker keeps its context after firing and the throttled return has cleared the close notifier: when the output stream is dropped while the producer '
                       'waits for space, nothing wakes it and the input stream keeps the pipe (stream, closure) alive through the spent waker', fn=k.name))
    # on_drop runs on the disposal queue
    dr = F.fn('<desync::PipeStream as core::ops::drop::Drop>::drop')
    key = 'PipeStream::drop|on_drop-on-chute'
    if not dr:
        out.append(undecided(R, key, 'anchor not found'))
    else:
        g = cg(ctx)
        callers = []
        for c in [dr] + _children(ctx, dr.name):
            for s in g.sites.get(c.name, []):
                if s.kind == 'param' and ('boxed' in s.what or 'closure value' in s.what):
                    callers.append(c)
        chute_closures = set()
        for c in [dr] + _children(ctx, dr.name):
            for bb, t in calls(c, 'Desync::desync'):
                for a in t['args']:
                    if a['k'] != 'const' and clean_ty(a['pl']['ty']).startswith('{closure:'):
                        chute_closures.add(clean_ty(a['pl']['ty'])[9:-1])
        if callers and all(c.name in chute_closures for c in callers):
            out.append(ok(R, key, 'on_drop (which releases the Desync) is only invoked inside a job on the disposal queue', fn=dr.name))
        else:
            out.append(bad(R, key, 'on_drop is invoked directly in PipeStream::drop (a Desync could be dropped from inside its own job or under the stream lock), or not at all', fn=dr.name))
        # the producer is woken (which runs PipeContext::poll, and with it a temporary upgrade of the Weak<Desync>, on this thread and
        # under the stream lock) before the job that releases the pipe's own Arc<Desync> is queued: otherwise the temporary can be the
        # last strong reference and Desync::drop runs here, under the stream lock, waiting for a poll job that needs that lock
        key = 'PipeStream::drop|wake-before-release'

        def blocks_reaching(pred):
            out_ = []
            for s_ in g.sites.get(dr.name, []):
                if pred(s_, dr):
                    out_.append(s_.bb)
                for c_ in s_.targets:
                    cf = F.fn(c_)
                    if cf and cf.is_closure and any(pred(s2, cf) for s2 in g.sites.get(cf.name, [])):
                        out_.append(s_.bb)
            return out_
        wakes_ = blocks_reaching(lambda s_, f_: s_.kind == 'wake')
        rel_ = blocks_reaching(lambda s_, f_: (s_.t['func'].get('fn') or '').endswith('Desync::desync'))
        if not wakes_ or not rel_:
            out.append(undecided(R, key, 'wake of the close notifier or queuing of on_drop not found in PipeStream::drop'))
        elif not any(w_ == r_ or (dr.blocks[r_]['term'].get('target') is not None and w_ in dr.reachable_blocks(dr.blocks[r_]['term']['target'])) for w_ in wakes_ for r_ in rel_):
            out.append(ok(R, key, 'the close notifier is woken before on_drop is queued on the disposal queue', fn=dr.name))
        else:
            out.append(bad(R, key, 'on_drop is queued on the disposal queue before the close notifier is woken: the poll that the wake runs on this thread can then hold the last Arc<Desync> '
                           'and drop the Desync under the stream lock (it waits for the closing poll job, which needs that lock)', fn=dr.name))
    return out



def c15_unwind(ctx):
    """A panic in a job must unwind out of the pool thread (so that the thread finishes and is reaped and replaced): nothing between the
    thread's entry point and the job catches the unwind."""
    F = ctx.F
    out = []
    R = 'ORD-C15-unwind'
    roots = ('desync::SchedulerThread::new', 'desync::wrap_fnonce',
             'desync::SchedulerThread::run', SCHEDULE_DORMANT, 'desync::SchedulerCore::schedule_thread')
    n = 0
    hits = []
    for f in F.crate_fns():
        if (f.root or f.name) in roots:
            n += 1
            for bb, t in f.calls():
                nm = t['func'].get('fn') or ''
                if 'catch_unwind' in nm:
                    hits.append((f, bb))
    # anywhere else: a panic of an operation has to unwind through the ActiveQueue guard of whoever is running the queue (that is what marks
    # the queue Panicked); an unwind that is caught inside the job and re-raised or swallowed later never passes the guard
    g = cg(ctx)
    for f in F.crate_fns():
        if (f.root or f.name) in roots:
            continue
        for bb, t in f.calls():
            nm = t['func'].get('fn') or ''
            if 'catch_unwind' in nm and not f.blocks[bb]['cleanup']:
                out.append(bad(R, '%s|no-catch' % short(f.root or f.name), 'a panic is caught inside the crate (%s): if it comes from an operation, it no longer unwinds through the ActiveQueue guard of the thread that runs the queue, '
                               'so the queue is not marked Panicked and later operations run on data the panicking operation left half-updated' % short(f.name), loc=f.loc(bb), fn=f.name))
    if n < 6:
        out.append(undecided(R, 'floor', 'pool thread path has only %d bodies' % n))
    if hits:
        f, bb = hits[0]
        out.append(bad(R, 'pool-thread|no-catch', 'the pool thread path catches panics (%s): a thread whose job panicked stays alive with its busy flag set, is never reaped and never replaced, so the pool loses a slot for ever' % short(f.name), loc=f.loc(bb), fn=f.name))
    else:
        out.append(ok(R, 'pool-thread|no-catch', 'nothing on the pool thread path catches an unwinding job (%d bodies): the thread finishes, is reaped by remove_finished_threads and replaced' % n))
    return out


# ---------------------------------------------------------------------------------------------
DWS = 'desync::DrainWakerState'


def _enum_swap_table(fn, enum_path):
    """For the `mem::swap(&mut *guard, &mut tmp); match tmp {..}` / `match mem::replace(&mut *guard, X) {..}` idiom:
    variant -> (set of variants the protected state is left in, set of Some/None given to the Option<Waker> result)."""
    table = {}
    cands = []
    for bb, b in enumerate(fn.blocks):
        t = b['term']
        if t and t['k'] == 'switch' and not b['cleanup'] and 'debug_assert' not in (t['sp'].get('mac') or ''):
            for s in b['stmts']:
                if s['k'] == 'assign' and s['rv']['k'] == 'discr' and clean_ty(s['rv']['pl']['ty']) == enum_path:
                    cands.append((bb, t))
    if not cands:
        return None
    dom = fn.dominators()
    # the decision is the test that comes first (dominates the other tests of the same value)
    cands.sort(key=lambda c: len(dom.get(c[0], ())))
    bb, t = cands[0]
    adt = fn.facts.adts.get(enum_path)
    if not adt:
        return None
    # what the swap / replace leaves in the protected state until an arm overwrites it
    default = set()
    for b2, t2 in fn.calls():
        name = t2['func'].get('fn') or ''
        if name in ('core::mem::replace', 'core::mem::swap') and len(t2['args']) == 2:
            for a in t2['args']:
                e = fn.expr_of_operand(a)
                if e[0] == 'agg' and e[2].startswith(enum_path + '::'):
                    default.add(e[2].split('::')[-1])
    listed = dict((str(val), tb) for val, tb in t['targets'])
    for v in adt['variants']:
        tgt = listed.get(str(v['discr']), t['otherwise'])
        if tgt is None:
            continue
        written, opt = set(), set()
        for b2 in sorted(fn.reachable_blocks(tgt)):
            if not edom(fn, tgt, b2):
                continue
            blk = fn.blocks[b2]
            if blk['cleanup']:
                continue
            for s in blk['stmts']:
                if s['k'] != 'assign':
                    continue
                e = fn.expr_of_rvalue(s['rv'])
                if s['pl']['p'] and all(p['k'] == 'deref' for p in s['pl']['p']) and e[0] == 'agg' and e[2].startswith(enum_path + '::'):
                    written.add(e[2].split('::')[-1])
                if not s['pl']['p'] and e[0] == 'agg' and e[2] in ('core::option::Option::Some', 'core::option::Option::None') and 'Waker' in fn.local_ty(s['pl']['l']):
                    opt.add(e[2].split('::')[-1])
        # the new state / the waker to wake computed into locals by the arm (a transition function returning `(new state, Option<Waker>)`)
        # and stored after the match: the values that reach the store *from this arm*
        from .ordq import trace_sources
        for b2, blk in enumerate(fn.blocks):
            if blk['cleanup'] or b2 not in fn.reachable_blocks(tgt):
                continue
            for s in blk['stmts']:
                if s['k'] != 'assign' or s['rv']['k'] != 'use' or s['rv']['op']['k'] not in ('copy', 'move'):
                    continue
                to_state = s['pl']['p'] and all(p['k'] == 'deref' for p in s['pl']['p']) and clean_ty(s['rv']['op']['pl'].get('ty') or '') == enum_path
                to_opt = not s['pl']['p'] and 'Waker' in fn.local_ty(s['pl']['l']) and 'Option<' in clean_ty(fn.local_ty(s['pl']['l']))
                if not (to_state or to_opt):
                    continue
                leaves = trace_sources(fn, s['rv']['op']['pl'])
                for kind_, lbb, what_ in (leaves or []):
                    if kind_ != 'agg' or lbb is None or not (lbb == tgt or edom(fn, tgt, lbb)):
                        continue
                    if to_state and str(what_.get('adt')) == enum_path:
                        written.add(str(what_.get('variant')))
                    if to_opt and str(what_.get('adt')) == 'core::option::Option':
                        opt.add(str(what_.get('variant')))
        if not written:
            written = set(default)
        table[v['name']] = (written, opt)
    table['__exchanged__'] = (set(default), set())
    return table


def c06_drain(ctx):
    """Poll-side drain: on a suspended job the order is requeue -> state write -> DrainWaker::wake_with; DrainWaker latches a wake that
    arrives before the real waker is installed; DoubleWaker wakes both the queue and the polling task; the thread-side drain parks in a loop
    that re-reads the state."""
    F = ctx.F
    out = []
    R = 'ORD-C06-drain'
    g = cg(ctx)
    dq = _fn(ctx, 'desync::SchedulerFuture::drain_queue', R, out)
    if dq:
        ww = calls(dq, 'DrainWaker::wake_with')
        rq = calls(dq, 'JobQueue::requeue')
        u = FieldUse(dq, JQC)
        sw = [(bb, i) for (bb, i, v) in u.assigns.get('state', [])]
        key = 'drain_queue|requeue->state->wake_with'
        if len(ww) < 2 or len(rq) < 1:
            out.append(bad(R, key, 'expected a requeue and two wake_with sites on the suspended-job path (found %d/%d)' % (len(rq), len(ww)), fn=dq.name))
        else:
            problems = []
            for wb, t in ww:
                writes_before = [(bb, i) for (bb, i) in sw if dominates(dq, bb, wb)]
                if not any(dominates(dq, rq[0][0], bb) for (bb, i) in writes_before):
                    problems.append('wake_with (%s) is not preceded by requeue and then the state write' % dq.loc(wb))
            # every path from the Pending edge of the job's run to the exit passes a wake_with
            runs = [s for s in g.sites.get(dq.name, []) if s.kind == 'dyn_run']
            if len(runs) == 1:
                e = result_edges(dq, runs[0].bb)
                pend = edge_for(e, POLL_ENUM, 'Pending') if e else None
                if pend is None or not dq.must_pass(pend, set(dq.exits()), set(b for b, _ in ww)):
                    problems.append('a suspended job can leave drain_queue without the real waker being installed in the DrainWaker')
            else:
                problems.append('job execution site not found')
            # what is installed wakes the queue itself (so that a pool thread or a waiter can take the queue over when the polling task
            # went away) as well as the polling task
            from .ordq import backward_slice
            for wb, t in ww:
                if len(t['args']) < 2:
                    problems.append('wake_with (%s) receives no waker' % dq.loc(wb))
                    continue
                from .ordq import slice_alternatives
                alts = slice_alternatives(dq, t['args'][1])
                if len(alts) > 1 and any('desync::WakeQueue' not in a_ for a_, c_ in alts):
                    problems.append('the waker installed at %s is, on one of the ways it is produced, not built in this poll from a WakeQueue (a waker kept from an earlier poll: DoubleWaker and DrainWaker fire once, '
                                    'a re-used one has already been spent, so the next wake-up reaches neither the queue nor the task)' % dq.loc(wb))
                    continue
                adts, cals = backward_slice(dq, t['args'][1])
                if 'desync::WakeQueue' not in adts:
                    problems.append('the waker installed at %s is not built from a WakeQueue: when the job is woken only the polling task hears of it, and if that task has dropped the future the parked queue is never resumed' % dq.loc(wb))
            if ww and not any('core::task::wake::Context::waker' in backward_slice(dq, t['args'][1])[1] for wb, t in ww if len(t['args']) > 1):
                problems.append('no installed waker includes the polling task\'s own waker: the task that parked the queue for itself is never told to poll again')
            if problems:
                out.append(bad(R, key, '; '.join(problems) + ': a wake-up arriving in between is lost or acts on a queue that is not parked yet', fn=dq.name))
            else:
                out.append(ok(R, key, 'on both suspended-job branches: requeue, then the parked state is written, then the real waker is installed', fn=dq.name))
    # DrainWaker decision tables
    for name, need in (('desync::DrainWaker::wake_with', {'Woken': ('opt', 'Some'), 'NotWoken': ('write', 'WillWakeWithWaker'), 'WillWakeWithWaker': ('write', 'WillWakeWithWaker')}),
                       ('<desync::DrainWaker as futures_task::arc_wake::ArcWake>::wake_by_ref', {'NotWoken': ('write', 'Woken'), 'WillWakeWithWaker': ('opt', 'Some'), 'Woken': ('write', 'Woken')})):
        fn = F.fn(name)
        key = 'DW-table|' + short(name).split('::')[-1]
        if not fn:
            out.append(undecided(R, key, 'anchor not found'))
            continue
        tab = _enum_swap_table(fn, DWS)
        if not tab:
            out.append(undecided(R, key, 'swap-and-match idiom not recognised'))
            continue
        probs = []
        if not tab.pop('__exchanged__', (set(), set()))[0]:
            probs.append('the latch is tested without being exchanged with the protected state (no mem::swap / mem::replace): the decision is made on a constant')
        for var, (kind, val) in need.items():
            w, o = tab.get(var, (set(), set()))
            if kind == 'opt' and val not in o:
                probs.append('row %s does not hand a waker to be woken' % var)
            if kind == 'write' and val not in w:
                probs.append('row %s does not leave the state %s' % (var, val))
        # the exchange and the write that settles the new state are one critical section: a guard released and taken again in
        # between lets the other party act on the placeholder the exchange left behind
        Hdw = ctx.held(fn)
        xch = [b2 for b2, t2 in fn.calls() if (t2['func'].get('fn') or '') in ('core::mem::replace', 'core::mem::swap') and not fn.blocks[b2]['cleanup']]
        xh = frozenset().union(*[Hdw.holds_at_term(b2, 'DrainWaker.state') for b2 in xch]) if xch else frozenset()
        for b2, blk in enumerate(fn.blocks):
            if blk['cleanup']:
                continue
            for i2, st in enumerate(blk['stmts']):
                if st['k'] == 'assign' and st['pl']['p'] and all(p_['k'] == 'deref' for p_ in st['pl']['p']) and clean_ty(st['pl'].get('ty') or '') == DWS:
                    if xch and not (Hdw.holds_before(b2, i2, 'DrainWaker.state') & xh):
                        probs.append('the state is exchanged under one hold of the latch\'s lock and written under another (the lock is released between the exchange and the decision)')
        # the Option result is woken after the lock
        wakes = [s for c in [fn] + _children(ctx, fn.name) for s in g.sites.get(c.name, []) if s.kind == 'wake']
        if not wakes:
            probs.append('the waker selected by the table is never woken')
        if probs:
            out.append(bad(R, key, '; '.join(probs) + ' (a wake-up that arrives before / after the real waker is installed would be dropped)', fn=name))
        else:
            out.append(ok(R, key, 'rows: ' + '; '.join('%s -> write %s, wake %s' % (v, sorted(w) or '-', sorted(o) or '-') for v, (w, o) in sorted(tab.items())), fn=name))
    # DoubleWaker wakes both
    dw = F.fn('<desync::DoubleWaker as futures_task::arc_wake::ArcWake>::wake_by_ref')
    key = 'DoubleWaker|wakes-both'
    if not dw:
        out.append(undecided(R, key, 'anchor not found'))
    else:
        wakes = [s for s in g.sites.get(dw.name, []) if s.kind == 'wake']
        takes = calls(dw, 'core::option::Option::take') + [(bb, t) for bb, t in calls(dw, 'core::clone::Clone::clone') if 'Option' in clean_ty(dw.local_ty(t['dest']['l']))]
        if len(wakes) >= 2 and takes:
            # both on the Some edge, one after the other
            a, b = wakes[0].bb, wakes[1].bb
            if dominates(dw, a, b) or dominates(dw, b, a):
                out.append(ok(R, key, 'the pair is taken once and both wakers are woken on the same path', fn=dw.name))
            else:
                out.append(bad(R, key, 'the two wakers are woken on different paths', fn=dw.name))
        else:
            out.append(bad(R, key, 'DoubleWaker no longer wakes both of its wakers (found %d wake sites)' % len(wakes), fn=dw.name))
    # thread-side: park in a loop that re-reads the state
    rj = F.fn('desync::JobQueue::run_one_job_now')
    key = 'run_one_job_now|park-in-recheck-loop'
    if not rj:
        out.append(undecided(R, key, 'anchor not found'))
    else:
        parks = calls(rj, 'std::thread::functions::park')
        if len(parks) != 1:
            out.append(undecided(R, key, 'expected one thread::park, found %d' % len(parks)))
        else:
            pb, pt = parks[0]
            H = ctx.held(rj)
            after = rj.reachable_blocks(pt['target']) if pt['target'] is not None else set()
            cyc = [b for b in after if pb in rj.reachable_blocks(b)]
            reread = [b for b in cyc if 'JobQueue.core' in H.held_at_term(b) or 'JobQueue.core' in H.held_before(b, 0)]
            runs = set(x.bb for x in g.sites.get(rj.name, []) if x.kind == 'dyn_run')
            region_blocks = set(b for b in range(len(rj.blocks)) if 'JobQueue.core' in H.held_at_term(b) or 'JobQueue.core' in H.held_before(b, 0))
            rechecked = pt['target'] is not None and rj.must_pass(pt['target'], runs | set(rj.exits()), region_blocks)
            if pb in after and reread and rechecked and 'JobQueue.core' not in H.held_at_term(pb):
                out.append(ok(R, key, 'park sits in a loop that re-reads the queue state under its lock (spurious or early unparks are harmless)', fn=rj.name))
            else:
                out.append(bad(R, key, 'thread::park is not re-checked in a loop against the queue state (an unpark that arrives before the park, or a spurious one, is mis-handled)', fn=rj.name))
    return out


def c10_raise(ctx):
    """Raising the pool maximum hands every waiting queue a thread: after storing the new maximum, set_max_threads calls schedule_thread
    until it reports that nothing more could be scheduled."""
    out = []
    R = 'ORD-C10-raise'
    fn = _fn(ctx, S + 'set_max_threads', R, out)
    if not fn:
        return out
    key = 'set_max_threads|schedule-until-false'
    st = calls(fn, 'Scheduler::schedule_thread')
    H = ctx.held(fn)
    writes = [(bb, i) for bb, b in enumerate(fn.blocks) if not b['cleanup'] for i, s in enumerate(b['stmts'])
              if s['k'] == 'assign' and s['pl']['p'] and 'SchedulerCore.max_threads' in H.held_before(bb, i)]
    if not writes:
        out.append(bad(R, key, 'set_max_threads no longer stores the new maximum under its lock', fn=fn.name))
        return out
    if len(st) != 1:
        out.append(bad(R, key, 'expected one schedule_thread call site in a loop, found %d' % len(st), fn=fn.name))
        return out
    bb, t = st[0]
    e = result_edges(fn, bb)
    on_cycle = t['target'] is not None and bb in fn.reachable_blocks(t['target'])
    if not on_cycle or not e:
        out.append(bad(R, key, 'after the maximum is raised only one thread is asked for: queues already waiting in the schedule stay there although threads may now be spawned', fn=fn.name))
        return out
    true_edge = e.get('otherwise')
    false_edge = e.get('0')
    exits = set(fn.exits())
    # the true edge must lead back to the call, the function may only be left through the false edge
    if true_edge is not None and bb in fn.reachable_blocks(true_edge) and false_edge is not None and fn.must_pass(t['target'], exits, {false_edge}) \
            and 'SchedulerCore.max_threads' not in H.held_at_term(bb) and all(dominates(fn, w[0], bb) for w in writes):
        out.append(ok(R, key, 'the new maximum is stored, then schedule_thread is repeated until it returns false (outside the max_threads lock)', fn=fn.name))
    else:
        out.append(bad(R, key, 'the scheduling loop after raising the maximum can stop while schedule_thread still succeeds', fn=fn.name))
    return out



def c11_sleep(ctx):
    """A pipe's poll function may answer "keep me, I am waiting" (true) only on a path on which somebody holds its waker: the input
    stream returned Pending for a poll made with the pipe's waker, or the waker was parked in the back-pressure slot."""
    F = ctx.F
    out = []
    R = 'ORD-C11-sleep'
    g = cg(ctx)
    for root in ('desync::pipe_in', 'desync::pipe'):
        ks = [k for k in _children(ctx, root) if k.is_coroutine]
        key = root.split('::')[-1] + '|sleep-only-when-registered'
        if len(ks) != 1:
            out.append(undecided(R, key, 'poll coroutine not found'))
            continue
        k = ks[0]
        polls = [x for x in g.sites.get(k.name, []) if x.kind == 'poll' and 'poll_next' in (x.t['func'].get('fn') or '')]
        if len(polls) != 1:
            out.append(undecided(R, key, 'expected one poll of the input stream, found %d' % len(polls)))
            continue
        e = result_edges(k, polls[0].bb)
        pending = edge_for(e, POLL_ENUM, 'Pending') if e else None
        u = FieldUse(k, 'desync::PipeStreamCore')
        parks = [bb for (bb, i, v) in u.assigns.get('backpressure_release_notify', []) if v[0] == 'agg' and v[2].endswith('Option::Some')]
        prb = pipe_result_blocks(ctx, k)
        trues = sorted(prb[0]) if prb else []
        if not trues or pending is None:
            out.append(undecided(R, key, 'shape not recognised (true results %d)' % len(trues)))
            continue
        # `if slot.is_none() { slot = Some(waker) }`: on the other edge a waker is already parked there
        occupied = []
        for bb_, b_ in enumerate(k.blocks):
            t_ = b_['term']
            if t_ and t_['k'] == 'switch' and not b_['cleanup'] and t_['discr']['k'] != 'const' and not t_['discr']['pl']['p']:
                txt_ = render(k.expr_of_local(t_['discr']['pl']['l']))
                if 'backpressure_release_notify' in txt_:
                    zero_ = dict((str(v), tb) for v, tb in t_['targets']).get('0')
                    if txt_.startswith('is_none(') and zero_ is not None:
                        occupied.append(zero_)
                    elif txt_.startswith('is_some('):
                        occupied.append(t_['otherwise'])
        parks = list(parks) + occupied
        # ... or the poll function woke its own waker before answering (a batch limit: "queue another poll behind whatever is waiting and
        # give up the turn"): the waker the input is polled with, woken by the coroutine itself
        ctx_wakers = set()
        for bb_, t_ in k.calls():
            if (t_['func'].get('fn') or '').endswith('Context::from_waker') and t_['args'] and not k.blocks[bb_]['cleanup']:
                uv = upvar_of(k.expr_of_operand(t_['args'][0]))
                if uv:
                    ctx_wakers.add(uv)
        self_wakes = []
        for bb_, t_ in k.calls():
            if (t_['func'].get('fn') or '').endswith(('Waker::wake_by_ref', 'Waker::wake')) and t_['args'] and not k.blocks[bb_]['cleanup']:
                if upvar_of(k.expr_of_operand(t_['args'][0])) in ctx_wakers:
                    self_wakes.append(bb_)
        parks = parks + self_wakes
        from .ordq import feasible_reach
        badb = [b for b in trues if not (edom(k, pending, b) or any(dominates(k, pb, b) or edom(k, pb, b) for pb in parks))
                and feasible_reach(k, 0, {b}, set(parks) | {pending})]
        if badb:
            out.append(bad(R, key, 'the poll function answers "still waiting" on a path where nobody holds its waker (the input was not Pending and no back-pressure registration): the pipe is never polled again and the remaining items are lost', loc=k.loc(badb[0]), fn=k.name))
        else:
            out.append(ok(R, key, 'every "still waiting" result lies on the Pending edge of the input poll%s' % (' or after parking the waker in the back-pressure slot' if parks else ''), fn=k.name))
    return out


def c11_slot(ctx):
    """The input stream stays where the next poll finds it: a poll function that takes the stream out of a shared slot for the duration of
    a poll (`slot.lock().take()`) puts it back on every path on which it answers "keep me" - a stream that is still out when the function
    returns is destroyed with the function's frame, with every item it had not yet produced, and the next poll finds the slot empty."""
    out = []
    R = 'ORD-C11-slot'
    for root in ('desync::pipe_in', 'desync::pipe'):
        rf = ctx.F.fn(root)
        ks = [k for k in _children(ctx, root) if k.is_coroutine]
        key = root.split('::')[-1] + '|input-back-in-its-slot'
        if len(ks) != 1 or rf is None or rf.arg_count < 2:
            out.append(undecided(R, key, 'poll coroutine not found'))
            continue
        k = ks[0]
        sty = clean_ty(rf.local_ty(2)) if 'Desync' in clean_ty(rf.local_ty(1)) else clean_ty(rf.local_ty(1))   # the type of the `stream` parameter
        opt = 'core::option::Option<%s>' % sty
        takes = []
        for bb, t in k.calls():
            if k.blocks[bb]['cleanup'] or not t['args'] or t['args'][0]['k'] == 'const':
                continue
            nm = t['func'].get('fn') or ''
            aty = clean_ty(t['args'][0]['pl']['ty']).replace('&mut ', '').replace('&', '')
            if aty == opt and (nm.endswith(('Option::take', 'mem::take')) or (nm.endswith('mem::replace') and 'None' in render(k.expr_of_operand(t['args'][1])))):
                takes.append(bb)
        if not takes:
            out.append(ok(R, key, 'the input stream is polled where it lives: nothing takes it out of a slot', fn=k.name))
            continue
        stores = []
        for bb, b in enumerate(k.blocks):
            if b['cleanup']:
                continue
            for s_ in b['stmts']:
                if s_['k'] == 'assign' and s_['pl']['p'] and clean_ty(s_['pl'].get('ty', '')) == opt:
                    ev = k.expr_of_rvalue(s_['rv'])
                    if ev[0] == 'agg' and ev[2].endswith('Option::Some'):
                        stores.append(bb)
            t = b['term']
            if t and t['k'] == 'call' and t['args'] and (t['func'].get('fn') or '').endswith(('Option::replace', 'Option::insert', 'mem::replace')) and t['args'][0]['k'] != 'const' \
                    and clean_ty(t['args'][0]['pl']['ty']).replace('&mut ', '') == opt and 'None' not in render(k.expr_of_operand(t['args'][1])):
                stores.append(bb)
        prb = pipe_result_blocks(ctx, k)
        trues = sorted(prb[0]) if prb else []
        if not trues:
            out.append(undecided(R, key, 'the answers of the poll function were not recognised'))
            continue
        from .ordq import feasible_reach
        lost = [b for b in trues for tk in takes if not k.must_pass(tk, {b}, set(stores)) and feasible_reach(k, tk, {b}, set(stores))]
        if lost:
            out.append(bad(R, key, 'the poll function takes the input stream out of its slot and can answer "keep me" without having put it back: the stream is destroyed with the '
                           'function\'s frame, the next poll finds the slot empty and the items the stream had not yet produced are never processed', loc=k.loc(lost[0]), fn=k.name))
        else:
            out.append(ok(R, key, 'taken out in %d place(s), stored back on every path to a "keep me" answer (%d store(s))' % (len(takes), len(stores)), fn=k.name))
    return out


def rs_cycle(ctx):
    """No strong reference cycle among the crate's own types: a value that (through its fields, through Arc / Box / Mutex / Option / Vec, not
    through Weak) can own another value of its own type is never freed by reference counting.  The pipes shut down purely by reference
    counting (a finished or abandoned pipe releases its context, and with it the input stream, the closure and the target), so a cycle
    through PipeContext / PipeWaker / PipeStreamCore keeps all of that alive for ever."""
    import re
    F = ctx.F
    out = []
    names = set(F.adts)

    def strip_weak(ty):
        res = ''
        i = 0
        while i < len(ty):
            m = re.match(r'(alloc::sync::Weak|alloc::rc::Weak|std::sync::Weak)<', ty[i:])
            if m:
                depth = 0
                j = i + len(m.group(0)) - 1
                while j < len(ty):
                    if ty[j] == '<':
                        depth += 1
                    elif ty[j] == '>':
                        depth -= 1
                        if depth == 0:
                            break
                    j += 1
                i = j + 1
                continue
            res += ty[i]
            i += 1
        return res
    edges = {}
    for name, adt in F.adts.items():
        if not name.startswith('desync::'):
            continue
        for v in adt['variants']:
            for f_ in v['fields']:
                ty = strip_weak(clean_ty(f_['ty']))
                for m in re.finditer(r'desync::[A-Za-z_][A-Za-z0-9_]*', ty):
                    tgt = m.group(0)
                    if tgt in names:
                        edges.setdefault(name, {}).setdefault(tgt, f_['name'])
    # cycles (including self-loops) by DFS
    cycles = []
    state = {}

    def dfs(n, path):
        state[n] = 1
        for t_ in sorted(edges.get(n, {})):
            if state.get(t_) == 1:
                cyc = path[path.index(t_):] + [t_] if t_ in path else [n, t_]
                cycles.append(cyc)
            elif state.get(t_) is None:
                dfs(t_, path + [t_])
        state[n] = 2
    for n in sorted(edges):
        if state.get(n) is None:
            dfs(n, [n])
    n_edges = sum(len(v) for v in edges.values())
    if cycles:
        for cyc in cycles[:3]:
            desc = ' -> '.join('%s' % c.split('::')[-1] for c in cyc)
            flds = ', '.join('%s.%s' % (a.split('::')[-1], edges[a][b]) for a, b in zip(cyc, cyc[1:]) if b in edges.get(a, {}))
            out.append(bad('RS-cycle', '|'.join(c.split('::')[-1] for c in sorted(set(cyc))), 'strong ownership cycle %s (fields %s): none of these values is ever freed by reference counting, and what they hold '
                           '(input stream, processing closure, target object, wakers) lives for ever' % (desc, flds)))
    else:
        out.append(ok('RS-cycle', 'acyclic', 'the strong ownership graph of the crate\'s types (%d edges) has no cycle' % n_edges))
    if n_edges < 10:
        out.append(undecided('RS-cycle', 'floor', 'only %d ownership edges found between the crate\'s types' % n_edges))
    return out
