"""Compile-fail witnesses (type-level clauses of C05/C14), thorough tier.

The witness crate (/verif/witness) is compiled as doc-tests against the tree under analysis with `cargo +nightly test --doc`
(the nightly toolchain enforces the error code of `compile_fail,E0xxx`).  Nothing is executed: failing programs never build,
the twins are `no_run`.  A witness that starts compiling means a bound was relaxed: VIOLATION naming the witness.
A twin that stops compiling means the witness environment is broken: UNDECIDED, never a violation.
"""
import hashlib
import json
import os
import re
import shutil
import subprocess
import tempfile

VERIF = os.path.dirname(os.path.dirname(os.path.abspath(__file__)))
WIT = os.path.join(VERIF, 'witness')
EVID = os.path.join(VERIF, 'evidence')

FOR = {
    'C14': None,                      # all witnesses
    'C05': {'W07', 'W08'},            # the future borrows the Desync; Desync is not Clone
}

WHAT = {
    'W01': 'desync job borrowing a local', 'W02': 'future_desync job borrowing a local', 'W03': 'reference to the payload escaping sync',
    'W04': 'Desync::new of a !Send value', 'W05': '!Send capture in sync', 'W06': '!Send result of sync', 'W07': 'drop(Desync) while a future_sync future is alive',
    'W08': 'Desync::clone', 'W09': '!Send capture in desync', 'W10': '!Send result of try_sync', 'W11': 'pipe_in closure borrowing a local',
    'W12': 'Arc<Desync<T>>: Send for a !Send T', 'W13': 'after job borrowing a local',
}


def run(pid, repo):
    if pid not in FOR:
        return None
    only = FOR[pid]
    d = tempfile.mkdtemp(prefix='dsa-witness-', dir=os.environ.get('DSA_SCRATCH', '/var/tmp'))
    lines, code = [], 0
    try:
        crate = os.path.join(d, 'witness')
        shutil.copytree(WIT, crate, ignore=shutil.ignore_patterns('target'))
        ct = open(os.path.join(crate, 'Cargo.toml')).read().replace('path = "/repo"', 'path = "%s"' % repo)
        open(os.path.join(crate, 'Cargo.toml'), 'w').write(ct)
        lock = os.path.join(repo, 'Cargo.lock')
        if os.path.exists(lock):
            shutil.copy(lock, os.path.join(crate, 'Cargo.lock'))
        env = dict(os.environ)
        env['CARGO_NET_OFFLINE'] = 'true'
        env['CARGO_TARGET_DIR'] = os.path.join(VERIF, '.cache', 'witness-target')
        r = subprocess.run(['cargo', '+nightly', 'test', '--doc', '--offline'], cwd=crate, env=env, capture_output=True, text=True)
        out = r.stdout + r.stderr
        res = {}
        for m in re.finditer(r'test src/lib\.rs - (W\d+) \(line \d+\) - (compile fail|compile) \.\.\. (\w+)', out):
            w, kind, verdict = m.group(1), m.group(2), m.group(3)
            res[(w, 'witness' if kind == 'compile fail' else 'twin')] = verdict
        if not res:
            lines.append('UNDECIDED property=%s reason=witness crate did not build: %s' % (pid, out[-400:].replace('\n', ' ')))
            return {'evidence': {'error': out[-1000:]}, 'lines': lines, 'code': 2}
        ev = []
        for (w, kind), verdict in sorted(res.items()):
            if only is not None and w not in only:
                continue
            ev.append({'witness': w, 'kind': kind, 'what': WHAT.get(w, ''), 'result': 'failed-to-compile-as-required' if (kind == 'witness' and verdict == 'ok') else ('compiled-as-required' if verdict == 'ok' else 'UNEXPECTED')})
            if verdict != 'ok':
                if kind == 'witness':
                    os.makedirs(os.path.join(EVID, 'violations'), exist_ok=True)
                    h = hashlib.sha1(w.encode()).hexdigest()[:10]
                    path = os.path.join(EVID, 'violations', '%s-W-%s.json' % (pid, h))
                    with open(path, 'w') as f:
                        json.dump({'property': pid, 'config': 'dev', 'repo': repo, 'instance': {'rule': 'W', 'key': w, 'verdict': 'violation', 'detail': 'witness %s (%s) now compiles (or fails with a different error): a bound that fences the unsafe code was relaxed' % (w, WHAT.get(w, '')), 'loc': 'witness/src/lib.rs'}}, f, indent=1)
                    lines.append('VIOLATION property=%s replay=%s' % (pid, path))
                    lines.append('  rule W, witness %s: a program that must be rejected (%s) is accepted by the compiler' % (w, WHAT.get(w, '')))
                    code = 1
                else:
                    lines.append('UNDECIDED property=%s reason=twin of witness %s no longer compiles (witness environment broken)' % (pid, w))
                    code = max(code, 2) if code != 1 else 1
        n = len(ev)
        if n < (4 if only else 26):
            lines.append('UNDECIDED property=%s reason=only %d witness results parsed' % (pid, n))
            code = max(code, 2) if code != 1 else 1
        return {'evidence': ev, 'lines': lines, 'code': code}
    finally:
        shutil.rmtree(d, ignore_errors=True)
