"""A7 QD: who may mutate an ordered container, and how (resolved callees on resolved receiver places)."""
from collections import defaultdict

from .facts import short, clean_ty, ty_head, render
from .proto import JQC, PARKED
from .rule import ok, bad, undecided
from .rules_lw import FieldUse, PSC
from .rules_proto import events_of

SCHED_CORE = 'desync::SchedulerCore'
READ_ONLY = {'len', 'is_empty', 'iter', 'front', 'back', 'get', 'contains', 'capacity', 'deref', 'as_slices', 'fmt', 'clone'}

DEQUEUE = 'desync::JobQueue::dequeue'
REQUEUE = 'desync::JobQueue::requeue'


def _mutators(ctx, adt, field):
    """{fn name: [(method, bb, loc)]} calls that receive a `&mut` to the field, and whole-field assignments."""
    res = defaultdict(list)
    for fn in ctx.F.crate_fns():
        u = FieldUse(fn, adt)
        # which ref temporaries are &mut
        mut_temps = set()
        for bb, b in enumerate(fn.blocks):
            if b['cleanup']:
                continue
            for s in b['stmts']:
                if s['k'] == 'assign' and s['rv']['k'] == 'ref' and s['rv']['m'] == 'mut' and not s['pl']['p']:
                    if u.reftemps.get(s['pl']['l']) == field:
                        mut_temps.add(s['pl']['l'])
                if s['k'] == 'assign' and not s['pl']['p'] and u.reftemps.get(s['pl']['l']) == field and fn.local_ty(s['pl']['l']).strip().startswith('&mut'):
                    mut_temps.add(s['pl']['l'])
        for (bb, m, t) in u.calls.get(field, []):
            a = t['args'][0]
            if a['pl']['l'] in mut_temps:
                callee = t['func'].get('fn') or ''
                local = bool(ctx.F.fn(callee))
                res[fn.name].append((m if not local else 'escape:' + short(callee), bb, fn.loc(bb)))
        for (bb, i, val) in u.assigns.get(field, []):
            res[fn.name].append(('assign', bb, fn.loc(bb, i)))
        # a &mut that is not the first argument of a call (escapes some other way)
        for bb, t in fn.calls():
            if fn.blocks[bb]['cleanup']:
                continue
            for a in t['args'][1:]:
                if a['k'] in ('move', 'copy') and not a['pl']['p'] and a['pl']['l'] in mut_temps:
                    res[fn.name].append(('escape:arg', bb, fn.loc(bb)))
    return res


def _discipline(ctx, rule, adt, field, allowed, label):
    """allowed: method -> (expected count, set of functions or None)"""
    out = []
    if adt not in ctx.F.adts:
        return [undecided(rule, 'anchor:' + label, '%s not found' % adt)]
    muts = _mutators(ctx, adt, field)
    counts = defaultdict(int)
    for fname, lst in sorted(muts.items()):
        for (m, bb, loc) in lst:
            counts[m] += 1
            key = '%s|%s.%s' % (short(fname), label, m)
            if m not in allowed:
                out.append(bad(rule, key, '%s is mutated with `%s`: only %s are part of the queue discipline' % (label, m, ', '.join(sorted(allowed))), loc=loc, fn=fname))
                continue
            exp, fns = allowed[m]
            root = ctx.F.fn(fname).root or fname
            if fns is not None and fname not in fns and root not in fns:
                out.append(bad(rule, key, '`%s` on %s outside %s' % (m, label, ', '.join(short(x) for x in sorted(fns))), loc=loc, fn=fname))
            else:
                out.append(ok(rule, key, 'allowed mutator', loc=loc, fn=fname))
    for m, (exp, fns) in allowed.items():
        if counts[m] < exp:
            out.append(undecided(rule, 'floor:%s.%s' % (label, m), 'found %d `%s` sites, expected at least %d' % (counts[m], m, exp)))
    return out


def qd_queue(ctx):
    """JobQueueCore.queue: new work is appended (push_back), work is taken from the front (pop_front, only in dequeue),
    a suspended job goes back to the front (push_front, only in requeue); nothing else touches the list."""
    P = ctx.proto
    out = _discipline(ctx, 'QD-queue', JQC, 'queue', {
        'push_back': (3, None),
        'pop_front': (1, {DEQUEUE}),
        'push_front': (1, {REQUEUE}),
        'assign': (0, {'desync::JobQueue::new'}),
    }, 'JobQueueCore.queue')
    # the appending functions must not be the requeue path and vice versa
    muts = _mutators(ctx, JQC, 'queue')
    if REQUEUE in muts and any(m != 'push_front' for (m, _, _) in muts[REQUEUE]):
        out.append(bad('QD-queue', 'requeue|front', 'requeue must put the job back at the front (push_front only)', fn=REQUEUE))
    elif REQUEUE in muts:
        out.append(ok('QD-queue', 'requeue|front', 'requeue uses push_front', fn=REQUEUE))
    else:
        out.append(undecided('QD-queue', 'requeue|front', 'JobQueue::requeue not found or does not touch the queue'))
    # dequeue refuses while the queue is parked
    pops = [(fname, m, snaps) for fname, m, snaps in events_of(P, 'pop')]
    if not pops:
        out.append(undecided('QD-queue', 'dequeue|parked', 'no pop from the job list found'))
    for fname, m, snaps in pops:
        key = '%s|%s-not-parked' % (short(fname), m)
        parked = set()
        for (S, T) in snaps:
            parked |= (S & PARKED)
        if parked:
            out.append(bad('QD-queue', key, 'a job can be taken from the list while the queue is parked in %s: the suspended job at the front would be run by a second runner' % '/'.join(sorted(parked)), fn=fname))
        else:
            out.append(ok('QD-queue', key, 'jobs are only taken when the queue is not parked', fn=fname))
    return out


def qd_single_store(ctx):
    """The jobs of a queue live in one place.  Every decision "is there anything to run?" (`queue.len() == 0` in sync / try_sync /
    sync_no_panic / drain / reschedule_queue) looks at JobQueueCore.queue; a second field that can hold a job is invisible to those tests
    unless each of them looks at it too."""
    F = ctx.F
    out = []
    R = 'QD-queue'
    adt = F.adts.get(JQC)
    if not adt:
        return [undecided(R, 'single-job-store', 'JobQueueCore not found')]
    fields = [f_['name'] for v in adt['variants'] for f_ in v['fields'] if 'ScheduledJob' in f_['ty']]
    extra = [f_ for f_ in fields if f_ != 'queue']
    if 'queue' not in fields:
        return [undecided(R, 'single-job-store', 'JobQueueCore.queue no longer holds the jobs')]
    if not extra:
        out.append(ok(R, 'single-job-store', 'JobQueueCore.queue is the only field that can hold a job'))
    blind = []
    for fn in (F.crate_fns() if extra else []):
        u = FieldUse(fn, JQC)
        tests = [m for (bb, m, t) in u.calls.get('queue', []) if m in ('len', 'is_empty')]
        if not tests:
            continue
        for x in extra:
            if not u.reads.get(x) and not u.calls.get(x):
                blind.append((fn, x))
    for fn, x in blind:
        out.append(bad(R, '%s|single-job-store' % short(fn.root or fn.name), 'jobs can also be held in JobQueueCore.%s, and %s decides whether the queue is empty by looking at `queue` alone: an operation '
                       'parked in `%s` is not seen, so a later operation is run ahead of (or in the middle of) it' % (x, short(fn.name), x), fn=fn.name))
    if not blind and extra:
        out.append(ok(R, 'single-job-store', 'every emptiness test of `queue` also looks at %s' % ', '.join(extra)))
    # the sibling stores: ready queues live in `schedule` only (next_to_run looks nowhere else), pool threads in `threads` only (the bound
    # counts nothing else), produced outputs in `pending` only (the consumer pops nothing else)
    for adt_name, frag, primary, what in (('desync::SchedulerCore', 'desync::JobQueue', 'schedule', 'ready queues'),
                                          ('desync::SchedulerCore', 'desync::SchedulerThread', 'threads', 'pool threads'),
                                          ('desync::PipeStreamCore', 'Item', 'pending', 'produced outputs')):
        a2 = F.adts.get(adt_name)
        key = '%s.%s|single-store' % (adt_name.split('::')[-1], primary)
        if not a2:
            out.append(undecided(R, key, '%s not found' % adt_name))
            continue
        import re as _re
        holders = [f_['name'] for v in a2['variants'] for f_ in v['fields'] if _re.search(r'\b%s\b' % _re.escape(frag.split('::')[-1]), f_['ty'])]
        others = [h for h in holders if h != primary]
        if primary not in holders:
            out.append(undecided(R, key, '%s.%s no longer holds the %s' % (adt_name, primary, what)))
        elif others:
            out.append(bad(R, key, '%s can also be held in %s.%s: the code that serves them (and the tests and bounds that count them) looks at `%s` only' % (what, adt_name.split('::')[-1], others[0], primary)))
        else:
            out.append(ok(R, key, '`%s` is the only field that holds %s' % (primary, what)))
    return out


def qd_pending(ctx):
    """PipeStreamCore.pending: outputs are appended by the producer only, taken from the front by the consumer only."""
    return _discipline(ctx, 'QD-pending', PSC, 'pending', {
        'push_back': (1, {'desync::pipe'}),
        'pop_front': (1, {'<desync::PipeStream as futures_core::stream::Stream>::poll_next'}),
        'assign': (1, {'<desync::PipeStream as core::ops::drop::Drop>::drop', 'desync::PipeStream::new'}),
    }, 'PipeStreamCore.pending')


def expr_root_kind(e):
    """'arg' / 'upvar' / 'var' / 'call' ... of the innermost base of an access path (through fields, derefs, clones)."""
    for _ in range(30):
        if e[0] in ('field', 'downcast', 'index', 'deref', 'ref'):
            e = e[1]
        elif e[0] == 'call' and e[2] and e[1].endswith(('::clone', '::deref', '::borrow', '::as_ref')):
            e = e[2][0]
        else:
            break
    return e[0]


def qd_job_lifetime(ctx):
    """A job lives in its queue, in the hands of the runner that is polling it, or nowhere: a runner hands the job it took either back to
    the queue (`requeue`, when it is suspended) or to its destructor, at once.  Its destruction is a signal - a blocked `sync` is released
    when its job object dies, a result future is cancelled when its signaller dies - so a finished job that is parked in a slot "until
    later" (an `Option` kept across loop turns, a batch, a field) delays that signal past the next job's run."""
    F = ctx.F
    out = []
    R = 'QD-queue'
    n = 0
    for name in ('desync::JobQueue::drain', 'desync::JobQueue::run_one_job_now', 'desync::SchedulerFuture::drain_queue'):
        fn = F.fn(name)
        if not fn:
            continue
        def is_job(l):
            ty = clean_ty(fn.local_ty(l) or '').strip()
            return ty.startswith('alloc::boxed::Box<dyn(desync::ScheduledJob')
        jobs = set(i for i in range(len(fn.locals)) if is_job(i))
        if not jobs:
            continue
        n += 1
        key = '%s|a-taken-job-is-requeued-or-dropped' % short(name)
        probs = []
        for bb, b in enumerate(fn.blocks):
            if b['cleanup']:
                continue
            for s_ in b['stmts']:
                if s_['k'] != 'assign':
                    continue
                rv = s_['rv']
                if rv['k'] == 'agg':
                    for o in rv.get('ops', []):
                        if o['k'] in ('move', 'copy') and not o['pl']['p'] and o['pl']['l'] in jobs:
                            probs.append((bb, 'is stored in a `%s` value' % str(rv.get('adt') or rv.get('ak')).split('::')[-1]))
                elif rv['k'] in ('use', 'cast') and rv['op']['k'] in ('move', 'copy') and not rv['op']['pl']['p'] and rv['op']['pl']['l'] in jobs and s_['pl']['p']:
                    probs.append((bb, 'is moved into `%s`' % s_['pl'].get('t', '?')))
            t = b['term']
            if t and t['k'] == 'call':
                nm = t['func'].get('fn') or ''
                for a in t['args']:
                    if a['k'] in ('move',) and not a['pl']['p'] and a['pl']['l'] in jobs and not nm.endswith(('JobQueue::requeue', 'mem::drop')):
                        probs.append((bb, 'is handed to %s' % nm.split('::')[-1]))
        if probs:
            out.append(bad(R, key, 'in %s a job taken from the queue %s instead of being put back or destroyed at once: its destructor - which releases the sync() caller waiting for it, or cancels the future waiting for its result - runs only later, after other jobs' % (short(name), probs[0][1]), loc=fn.loc(probs[0][0]), fn=fn.name))
        else:
            out.append(ok(R, key, 'a job taken from the queue only goes back through requeue() or to its destructor', fn=fn.name))
    if n < 3:
        out.append(undecided(R, 'floor:job-lifetime', 'only %d of the 3 runner functions hold a job local' % n))
    return out


def qd_schedule(ctx):
    """SchedulerCore.schedule: ready queues are appended, taken from the front by pool threads, removed by a stealing waiter."""
    out = []
    # the schedule is an Arc<Mutex<VecDeque<Arc<JobQueue>>>>: mutators act on the guard's deref, not on a field place;
    # identify them by receiver type
    counts = defaultdict(int)
    allowed = {'push_back': 2, 'pop_front': 1, 'retain': 1}
    for fn in ctx.F.crate_fns():
        for bb, t in fn.calls():
            if fn.blocks[bb]['cleanup']:
                continue
            name = t['func'].get('fn') or ''
            if not t['args'] or t['args'][0]['k'] == 'const':
                continue
            ty = clean_ty(t['args'][0]['pl']['ty'])
            if ty != '&mut alloc::collections::vec_deque::VecDeque<alloc::sync::Arc<desync::JobQueue>>':
                continue
            if name in ('core::mem::take', 'core::mem::replace', 'core::mem::swap'):
                # the whole schedule taken out of its mutex: while it is out, a queue pushed by another thread lands in a list nobody reads, or
                # the entries that were taken are invisible to every pool thread that looks
                out.append(bad('QD-schedule', '%s|schedule.mem::%s' % (short(fn.name), name.split('::')[-1]), 'the schedule is taken out of its mutex wholesale (`mem::%s`)' % name.split('::')[-1], loc=fn.loc(bb), fn=fn.name))
                continue
            if not name.startswith('alloc::collections::vec_deque::VecDeque::'):
                continue
            m = name.split('::')[-1]
            counts[m] += 1
            key = '%s|schedule.%s' % (short(fn.name), m)
            if m in ('retain', 'retain_mut'):
                # what is removed is exactly the entries of the queue being claimed: `!Arc::ptr_eq(entry, queue)` keeps everybody else's
                for a_ in t['args'][1:]:
                    if a_['k'] == 'const' or not clean_ty(a_['pl']['ty']).startswith('{closure:'):
                        continue
                    cf = ctx.F.fn(clean_ty(a_['pl']['ty'])[9:-1])
                    if not cf:
                        continue
                    pe = [(b2, t2) for b2, t2 in cf.calls() if (t2['func'].get('fn') or '').endswith('Arc::ptr_eq') and not cf.blocks[b2]['cleanup']]
                    if len(pe) != 1:
                        continue
                    pkey = '%s|schedule.retain-keeps-the-others' % short(fn.name)
                    r_ = pe[0][1]['dest']['l']
                    negated = False
                    direct = False
                    for b3 in cf.blocks:
                        for s3 in b3['stmts']:
                            if s3['k'] == 'assign' and not s3['pl']['p'] and s3['pl']['l'] == 0:
                                rv3 = s3['rv']
                                if rv3['k'] == 'unop' and rv3['op'] == 'Not' and rv3['a']['k'] in ('copy', 'move') and rv3['a']['pl']['l'] == r_:
                                    negated = True
                                elif rv3['k'] == 'use' and rv3['op']['k'] in ('copy', 'move') and rv3['op']['pl']['l'] == r_:
                                    direct = True
                    if pe[0][1]['dest']['l'] == 0 and not pe[0][1]['dest']['p']:
                        direct = True
                    args_ = [cf.expr_of_operand(x_) for x_ in pe[0][1]['args']]
                    roots_ = set(expr_root_kind(x_) for x_ in args_)
                    if negated and not direct and roots_ == {'arg', 'upvar'}:
                        out.append(ok('QD-schedule', pkey, 'the entries removed are those of the queue being claimed (`!Arc::ptr_eq(entry, queue)`)', fn=fn.name))
                    elif direct and not negated:
                        out.append(bad('QD-schedule', pkey, 'the retain keeps the entries of the claimed queue and removes everybody else\'s: every other Pending queue loses its place on the schedule and is never picked up by a pool thread', loc=fn.loc(bb), fn=fn.name))
                    elif negated and roots_ != {'arg', 'upvar'}:
                        out.append(bad('QD-schedule', pkey, 'the retain does not compare each entry with the queue being claimed (%s)' % ', '.join(render(x_)[:30] for x_ in args_), loc=fn.loc(bb), fn=fn.name))
            if m in allowed:
                out.append(ok('QD-schedule', key, 'allowed mutator', loc=fn.loc(bb), fn=fn.name))
            else:
                out.append(bad('QD-schedule', key, 'the schedule is mutated with `%s`' % m, loc=fn.loc(bb), fn=fn.name))
    for m, n in allowed.items():
        if counts[m] < n:
            out.append(undecided('QD-schedule', 'floor:' + m, 'found %d `%s` sites, expected at least %d' % (counts[m], m, n)))
    # whoever takes a queue's entries off the schedule claims the queue (or the queue no longer needs a runner): a Pending queue, or one
    # abandoned in WaitingForPoll and offered to the pool, is reachable by pool threads only through its schedule entry
    P = ctx.proto
    viol = defaultdict(list)
    for (r, fname, msg, loc) in P.viol:
        if r == 'TOK-unschedule':
            viol[fname].append((msg, loc))
    nrem = 0
    for fname, m, snaps in events_of(P, 'sched_remove'):
        nrem += 1
        key = '%s|%s-claims' % (short(fname), m)
        if viol.get(fname):
            msg, loc = viol[fname][0]
            out.append(bad('QD-schedule', key, msg, loc=loc, fn=fname))
        else:
            out.append(ok('QD-schedule', key, 'entries are removed only on paths that claim the queue or leave it in a state that needs no entry', fn=fname))
    if nrem < 1:
        out.append(undecided('QD-schedule', 'floor:remove-claims', 'no removal from the schedule was seen by the protocol interpreter (expected claim_pending_queue)'))
    return out


def qd_once(ctx):
    """Jobs run at most once: the payload is moved out (Option::take / swap to the empty state) and the empty case panics."""
    F = ctx.F
    out = []
    for fname, taker in (('desync::Job::run', 'core::option::Option::take'),
                         ('desync::FutureJob::run', 'desync::JobState::take')):
        fn = F.fn(fname)
        key = short(fname)
        if not fn:
            out.append(undecided('QD-once', key, 'anchor not found'))
            continue
        takes = [(bb, t) for bb, t in fn.calls() if (t['func'].get('fn') or '') == taker]
        if len(takes) != 1:
            out.append(bad('QD-once', key, 'the job payload is no longer moved out with %s exactly once (found %d)' % (taker.split('::')[-1], len(takes)), fn=fname))
            continue
        bb, t = takes[0]
        # the None edge of the taken value must reach a panic and must not reach return
        d = t['dest']['l']
        sw_bb = None
        for b2, blk in enumerate(fn.blocks):
            tt = blk['term']
            if tt and tt['k'] == 'switch':
                for s in blk['stmts']:
                    if s['k'] == 'assign' and s['rv']['k'] == 'discr':
                        root = fn.expr_of_place(s['rv']['pl'])
                        if root == fn.expr_of_local(d) or (root[0] == 'var' and root[1] == d) or s['rv']['pl']['l'] == d:
                            sw_bb = b2
                # through a user variable copy: accept any switch on a discriminant of a local moved from d
                if sw_bb is None:
                    for s in blk['stmts']:
                        if s['k'] == 'assign' and s['rv']['k'] == 'discr':
                            l = s['rv']['pl']['l']
                            for dd in fn.defs().get(l, []):
                                if dd[0] == 'stmt' and dd[3]['k'] == 'use' and dd[3]['op']['k'] == 'move' and dd[3]['op']['pl']['l'] == d:
                                    sw_bb = b2
        if sw_bb is None:
            out.append(undecided('QD-once', key, 'cannot find the test of the taken payload', fn=fname))
            continue
        sw = fn.blocks[sw_bb]['term']
        none_edges = [b2 for v, b2 in sw['targets'] if v == '0']
        if not any(v == '0' for v, _ in sw['targets']):
            none_edges = [sw['otherwise']]
        exits = set(fn.exits())
        silent = False
        for ne in none_edges:
            if fn.reachable_blocks(ne) & exits:
                silent = True
        if silent:
            out.append(bad('QD-once', key, 'running a job whose payload is already gone returns normally instead of panicking (a job run twice is silently ignored)', fn=fname))
        else:
            out.append(ok('QD-once', key, 'payload moved out once; the empty case panics', fn=fname))
    # FutureJob::run keeps the future when it is still pending
    fj = F.fn('desync::FutureJob::run')
    if fj:
        from .ordq import result_edges, edge_for, edom
        polls = [(bb, t) for bb, t in fj.calls() if (t['func'].get('fn') or '').endswith('poll_unpin') or (t['func'].get('fn') or '').endswith('Future::poll')]
        key = 'FutureJob::run|keeps-pending-future'
        if len(polls) != 1:
            out.append(undecided('QD-once', key, 'expected one poll of the job future, found %d' % len(polls)))
        else:
            e = result_edges(fj, polls[0][0])
            pend = edge_for(e, 'core::task::poll::Poll', 'Pending') if e else None
            stores = []
            for bb, b in enumerate(fj.blocks):
                if b['cleanup']:
                    continue
                for s_ in b['stmts']:
                    if s_['k'] == 'assign' and s_['pl']['p'] and s_['pl']['p'][-1]['k'] == 'field' and s_['pl']['p'][-1]['n'] == 'action':
                        ev = fj.expr_of_rvalue(s_['rv'])
                        if ev[0] == 'agg' and ev[2].endswith('JobState::WaitingForFuture'):
                            stores.append(bb)
            if pend is not None and stores and fj.must_pass(pend, set(fj.exits()), set(stores)):
                out.append(ok('QD-once', key, 'a future that returned Pending is stored back (WaitingForFuture) before run returns Pending', fn=fj.name))
            else:
                out.append(bad('QD-once', key, 'a job whose future returned Pending is not kept: the next run finds it Completed and panics, the operation is lost', fn=fj.name))
    else:
        out.append(undecided('QD-once', 'FutureJob::run|keeps-pending-future', 'anchor not found'))
    # JobState::take swaps in Completed
    js = F.fn('desync::JobState::take')
    if not js:
        out.append(undecided('QD-once', 'JobState::take', 'anchor not found'))
    else:
        sw = [t for bb, t in js.calls() if (t['func'].get('fn') or '') in ('core::mem::swap', 'core::mem::replace', 'core::mem::take')]
        comp = any(s['k'] == 'assign' and s['rv']['k'] == 'agg' and s['rv'].get('variant') == 'Completed' for b in js.blocks for s in b['stmts'])
        if sw and comp:
            out.append(ok('QD-once', 'JobState::take', 'state swapped to Completed when the future is taken', fn=js.name))
        else:
            out.append(bad('QD-once', 'JobState::take', 'JobState::take no longer leaves Completed behind', fn=js.name))
    return out


def _ret_variants(fn, edge, adt='core::task::poll::Poll'):
    """Variants of `adt` assigned to the return place on paths from `edge` (None in the set when a path returns something else)."""
    blocks = {}
    for bb, b in enumerate(fn.blocks):
        if b['cleanup']:
            continue
        for s in b['stmts']:
            if s['k'] == 'assign' and not s['pl']['p'] and s['pl']['l'] == 0:
                if s['rv']['k'] == 'agg' and s['rv'].get('adt') == adt:
                    blocks[bb] = s['rv'].get('variant')
                else:
                    blocks[bb] = None
    reach = fn.reachable_blocks(edge)
    return set(v for b, v in blocks.items() if b in reach), blocks


def qd_run(ctx):
    """Jobs do what they are for: Job::run calls its closure (then reports Ready), FutureJob::run reports exactly what its future
    reported, UnsafeJob::run delegates to the job it points to and hands its answer back unchanged; dropping an UnsafeJob that carries a
    notification sets the flag to true before notifying."""
    from .ordq import result_edges, edge_for, calls, dominates
    from .rules_locks import cg
    F = ctx.F
    g = cg(ctx)
    out = []
    R = 'QD-run'
    POLL = 'core::task::poll::Poll'
    # Job::run
    jr = F.fn('desync::Job::run')
    key = 'Job::run|calls-action'
    if not jr:
        out.append(undecided(R, key, 'anchor not found'))
    else:
        acts = [s for s in g.sites.get(jr.name, []) if s.kind == 'param']
        takes = [(bb, t) for bb, t in jr.calls() if (t['func'].get('fn') or '') == 'core::option::Option::take']
        e = result_edges(jr, takes[0][0]) if len(takes) == 1 else None
        some = edge_for(e, 'core::option::Option', 'Some') if e else None
        if len(acts) != 1 or some is None:
            out.append(bad(R, key, 'Job::run does not call its closure exactly once on the path where it still has it (call sites: %d)' % len(acts), fn=jr.name))
        else:
            rv, _ = _ret_variants(jr, acts[0].t['target'] if acts[0].t['target'] is not None else some)
            if jr.must_pass(some, set(jr.exits()), {acts[0].bb}) and rv == {'Ready'}:
                out.append(ok(R, key, 'the closure is called on every path that still holds it, then Ready is reported', fn=jr.name))
            else:
                out.append(bad(R, key, 'a path through Job::run reports completion without having called the closure (or reports something other than Ready after it)', fn=jr.name))
    # FutureJob::run
    fj = F.fn('desync::FutureJob::run')
    key = 'FutureJob::run|reports-what-the-future-reported'
    if not fj:
        out.append(undecided(R, key, 'anchor not found'))
    else:
        polls = [(bb, t) for bb, t in fj.calls() if (t['func'].get('fn') or '').endswith(('poll_unpin', 'Future::poll'))]
        e = result_edges(fj, polls[0][0]) if len(polls) == 1 else None
        rdy = edge_for(e, POLL, 'Ready') if e else None
        pend = edge_for(e, POLL, 'Pending') if e else None
        if rdy is None or pend is None:
            out.append(undecided(R, key, 'match on the future\'s poll not recognised'))
        else:
            a, _ = _ret_variants(fj, rdy)
            b, _ = _ret_variants(fj, pend)
            # the two arms join at the return: judge each by the assignments it dominates
            from .ordq import edom
            _, blocks = _ret_variants(fj, 0)
            ra = set(v for bb, v in blocks.items() if edom(fj, rdy, bb))
            rb = set(v for bb, v in blocks.items() if edom(fj, pend, bb))
            whole = fj.expr_of_local(0)
            if whole[0] == 'call' and whole[1].endswith(('poll_unpin', 'Future::poll')) and len(whole) > 3 and whole[3] == polls[0][0]:
                out.append(ok(R, key, 'returns the future\'s own answer', fn=fj.name))
            elif ra == {'Ready'} and rb == {'Pending'}:
                out.append(ok(R, key, 'Ready when the future is Ready, Pending when it is Pending', fn=fj.name))
            else:
                out.append(bad(R, key, 'FutureJob::run reports %s when its future is Ready and %s when it is Pending: a suspended operation is treated as finished (and dropped), or a finished one is polled again' % (sorted(str(x) for x in ra), sorted(str(x) for x in rb)), fn=fj.name))
    # UnsafeJob::run
    uj = F.fn('desync::UnsafeJob::run')
    key = 'UnsafeJob::run|delegates'
    if not uj:
        out.append(undecided(R, key, 'anchor not found'))
    else:
        dels = [(bb, t) for bb, t in uj.calls() if t.get('method') == 'run' and t.get('rk') == 'virtual']
        if len(dels) == 1 and not dels[0][1]['dest']['p'] and dels[0][1]['dest']['l'] == 0 and uj.must_pass(0, set(uj.exits()), {dels[0][0]}):
            out.append(ok(R, key, 'runs the job it points to and returns its answer', fn=uj.name))
        elif len(dels) == 1 and uj.must_pass(0, set(uj.exits()), {dels[0][0]}) and 'run(' in __import__('dsa.facts', fromlist=['render']).render(uj.expr_of_local(0)):
            out.append(ok(R, key, 'runs the job it points to and returns its answer', fn=uj.name))
        else:
            out.append(bad(R, key, 'UnsafeJob::run does not (always) run the job it points to, or does not return that job\'s answer', fn=uj.name))
    # UnsafeJob::drop: flag := true, then notify
    ud = F.fn('<desync::UnsafeJob as core::ops::drop::Drop>::drop')
    key = 'UnsafeJob::drop|flag-true-then-notify'
    if not ud:
        out.append(undecided(R, key, 'anchor not found'))
    else:
        H = ctx.held(ud)
        sets = []
        for bb, b in enumerate(ud.blocks):
            if b['cleanup']:
                continue
            for i, s_ in enumerate(b['stmts']):
                if s_['k'] == 'assign' and s_['pl']['p'] and 'sync.ready' in H.held_before(bb, i) and s_['rv']['k'] == 'use' and s_['rv']['op']['k'] == 'const':
                    sets.append((bb, str(s_['rv']['op'].get('val'))))
        notifies = [bb for bb, t in ud.calls() if (t['func'].get('fn') or '').endswith(('Condvar::notify_all', 'Condvar::notify_one'))]
        from .facts import render as _render
        takes = [(bb, t) for bb, t in ud.calls() if t['args'] and t['args'][0]['k'] != 'const' and 'on_finish' in _render(ud.expr_of_operand(t['args'][0]))
                 and 'Option' in clean_ty(ud.local_ty(t['dest']['l']))]
        e = result_edges(ud, takes[0][0]) if len(takes) == 1 else None
        some = edge_for(e, 'core::option::Option', 'Some') if e else None
        if some is None and sets and notifies:
            out.append(undecided(R, key, 'test of the optional notification not recognised'))
        elif not sets or not notifies or some is None:
            out.append(bad(R, key, 'dropping an UnsafeJob no longer sets the finished flag and notifies the waiting sync caller', fn=ud.name))
        elif any(v != '1' for bb, v in sets):
            out.append(bad(R, key, 'the finished flag is set to false: the sync caller waiting for this job never sees it finish', fn=ud.name))
        elif ud.must_pass(some, set(ud.exits()), set(bb for bb, v in sets)) and all(any(dominates(ud, sb, nb) for sb, v in sets) for nb in notifies) \
                and ud.must_pass(some, set(ud.exits()), set(notifies)):
            out.append(ok(R, key, 'the flag is set to true under its mutex and the condition variable is notified on every path that carries a notification', fn=ud.name))
        else:
            out.append(bad(R, key, 'a path drops the job without setting the flag and notifying', fn=ud.name))
    return out


def qd_wake_blocked(ctx):
    """JobQueueCore.wake_blocked: blocked sync callers register once (push) and stay registered until they leave; the list is only ever
    pruned of entries whose waiter is gone (retain on strong_count)."""
    F = ctx.F
    out = []
    R = 'QD-waiters'
    if JQC not in F.adts:
        return [undecided(R, 'anchor', 'JobQueueCore not found')]
    counts = defaultdict(int)
    for fn in F.crate_fns():
        u = FieldUse(fn, JQC)
        for (bb, m, t) in u.calls.get('wake_blocked', []):
            counts[m] += 1
            key = '%s|wake_blocked.%s' % (short(fn.root or fn.name), m)
            if m in ('push', 'iter_mut', 'iter', 'len', 'deref', 'deref_mut'):
                out.append(ok(R, key, 'allowed', loc=fn.loc(bb), fn=fn.name))
            elif m == 'retain':
                # the predicate must be the liveness test
                cl = [clean_ty(a['pl']['ty'])[9:-1] for a in t['args'] if a['k'] != 'const' and clean_ty(a['pl']['ty']).startswith('{closure:')]
                live = False
                wrong = None
                for c in cl:
                    cf = F.fn(c)
                    if cf and any((tt['func'].get('fn') or '').endswith('Weak::strong_count') for _, tt in cf.calls()):
                        live = True
                        # ... and the test is "somebody still holds it" (count > 0), nothing stricter: the waiter itself is one holder, and
                        # between registering and handing a clone to its job it is the only one
                        for b_ in cf.blocks:
                            for s_ in b_['stmts']:
                                if s_['k'] == 'assign' and s_['rv']['k'] == 'binop' and s_['rv']['op'] in ('Gt', 'Ge', 'Lt', 'Le', 'Ne', 'Eq'):
                                    ea_, eb_ = cf.expr_of_operand(s_['rv']['a']), cf.expr_of_operand(s_['rv']['b'])
                                    op_ = s_['rv']['op']
                                    if eb_[0] == 'call' and eb_[1].endswith('strong_count') and ea_[0] == 'const':
                                        ea_, eb_ = eb_, ea_
                                        op_ = {'Gt': 'Lt', 'Lt': 'Gt', 'Ge': 'Le', 'Le': 'Ge'}.get(op_, op_)
                                    if ea_[0] == 'call' and ea_[1].endswith('strong_count') and eb_[0] == 'const':
                                        try:
                                            cval = int(str(eb_[1]).split('_')[0])
                                        except ValueError:
                                            cval = None
                                        if (op_, cval) not in (('Gt', 0), ('Ne', 0), ('Ge', 1)):
                                            wrong = 'strong_count %s %s' % (op_, eb_[1])
                if live and wrong:
                    out.append(bad(R, key, 'waiters are pruned by `%s`, which is stricter than "nobody holds the condition variable any more": a caller that has registered but whose job does not hold its clone yet '
                                   '(or no longer does) is struck off the list while it is still going to wait, and is not told when the queue is handed on' % wrong, loc=fn.loc(bb), fn=fn.name))
                elif live:
                    out.append(ok(R, key, 'prunes only entries whose waiter is gone (strong_count)', loc=fn.loc(bb), fn=fn.name))
                else:
                    out.append(bad(R, key, 'waiters are removed by a predicate other than "the waiter is gone"', loc=fn.loc(bb), fn=fn.name))
            else:
                out.append(bad(R, key, 'the list of blocked sync callers is mutated with `%s`: a waiter that is woken but cannot claim the queue relies on being notified again' % m, loc=fn.loc(bb), fn=fn.name))
        for (bb, i, val) in u.assigns.get('wake_blocked', []):
            out.append(bad(R, '%s|wake_blocked.assign' % short(fn.root or fn.name), 'the list of blocked sync callers is replaced wholesale', loc=fn.loc(bb, i), fn=fn.name))
    if counts['push'] < 1 or counts['retain'] < 2:
        out.append(undecided(R, 'floor', 'expected 1 push and 2 retain sites, found %d/%d' % (counts['push'], counts['retain'])))
    # a caller registers before it can wait, whatever state it found the queue in (a queue parked by a suspension is not "running", but its
    # waiters still need the hand-over when it is resumed)
    sb = F.fn('desync::Scheduler::sync_background')
    key = 'sync_background|registers-before-waiting'
    if not sb:
        out.append(undecided(R, key, 'anchor not found'))
    else:
        ub = FieldUse(sb, JQC)
        pushes_ = set(bb for (bb, m, t) in ub.calls.get('wake_blocked', []) if m == 'push')
        waits_ = set(bb for bb, t in sb.calls() if (t['func'].get('fn') or '').startswith('std::sync::poison::condvar::Condvar::wait'))
        if not waits_:
            out.append(undecided(R, key, 'no Condvar::wait in sync_background'))
        elif pushes_ and sb.must_pass(0, waits_, pushes_):
            out.append(ok(R, key, 'the caller\'s condition variable is in wake_blocked on every path that reaches the wait', fn=sb.name))
        else:
            out.append(bad(R, key, 'sync_background can reach its wait without having registered in wake_blocked: when the queue is handed on (rescheduled, resumed after a suspension) this caller is not told, and with no free pool thread it waits for ever', fn=sb.name))
    # reschedule_queue tells every blocked sync caller, on every path: a waiter has no other way to learn that it may claim the queue
    # (a pool thread that was asked to look at the schedule can be taken by another queue)
    rq = F.fn('desync::SchedulerCore::reschedule_queue')
    key = 'reschedule_queue|notifies-waiters-always'
    if not rq:
        out.append(undecided(R, key, 'anchor not found'))
    else:
        u = FieldUse(rq, JQC)
        touches = [bb for (bb, m, t) in u.calls.get('wake_blocked', []) if m != 'retain']
        NOTIFY = ('Condvar::notify_one', 'Condvar::notify_all')
        notif = [bb for bb, t in rq.calls() if (t['func'].get('fn') or '').endswith(NOTIFY)]
        walks = list(notif)
        for bb, t in rq.calls():
            for a in t['args']:
                if a['k'] != 'const' and clean_ty(a['pl']['ty']).startswith('{closure:'):
                    cf = F.fn(clean_ty(a['pl']['ty'])[9:-1])
                    if cf and any((tt['func'].get('fn') or '').endswith(NOTIFY) for _, tt in cf.calls()):
                        walks.append(bb)
                        notif.append(bb)
        # the walk starts where the list is borrowed for it: a notify inside a `for` body is conditional on the list's contents, not on the path
        walks = [b for b in touches if any(n == b or n in rq.reachable_blocks(b) for n in notif)]
        # the walk visits every entry: an adaptor that stops at the first match (or looks at one position) notifies a single waiter - which can
        # be one that cannot claim the queue, or the caller itself
        SHORT = ('find', 'find_map', 'any', 'all', 'position', 'rposition', 'next', 'next_back', 'nth', 'last', 'take', 'take_while', 'skip_while', 'map_while',
                 'first', 'first_mut', 'last_mut', 'get', 'get_mut', 'pop', 'min_by_key', 'max_by_key', 'step_by', 'try_for_each', 'try_fold')
        partial = []
        for f_ in [rq] + [c for c in F.crate_fns() if c.is_closure and c.root == rq.name]:
            for bb, t in f_.calls():
                nm = t['func'].get('fn') or ''
                if f_.blocks[bb]['cleanup'] or not t['args'] or t['args'][0]['k'] == 'const':
                    continue
                ty0 = clean_ty(t['args'][0]['pl']['ty'])
                if 'Condvar' in ty0 and 'Weak<' in ty0 and nm.split('::')[-1] in SHORT and ('Iterator' in nm or 'slice' in nm or 'Vec' in nm or 'iter' in nm):
                    # the desugared `for` loop calls Iterator::next itself: that is the exhaustive walk, not a partial one
                    if nm.endswith('Iterator::next') and bb in f_.reachable_blocks(t['target'] if t['target'] is not None else bb):
                        continue
                    partial.append((f_, bb, nm.split('::')[-1]))
        if not walks or not notif:
            out.append(bad(R, key, 'reschedule_queue no longer walks wake_blocked and notifies the blocked sync callers', fn=rq.name))
        elif partial:
            f_, bb, m_ = partial[0]
            out.append(bad(R, key, 'reschedule_queue looks at part of wake_blocked only (`%s`): it notifies one waiter, not every live one - the one it picks may be unable to claim the queue (or be the caller itself), '
                           'and the others, whose only way to learn that the queue is claimable is this notification, wait for ever when no pool thread is free' % m_, loc=f_.loc(bb), fn=rq.name))
        elif rq.must_pass(0, set(rq.exits()), set(walks)):
            out.append(ok(R, key, 'every path through reschedule_queue walks wake_blocked and notifies each live waiter', fn=rq.name))
        else:
            out.append(bad(R, key, 'some path through reschedule_queue returns without notifying the blocked sync callers: a waiter whose queue became claimable '
                           'is only served if a pool thread happens to pick exactly this queue', fn=rq.name))
    return out
