#!/usr/bin/env python3
"""Adds one hand-written mutant to mutants/ without regenerating the corpus.
usage (from python): add(name, what, [(file, old, new), ...], {'C10': ['ID-same']})"""
import json, os, subprocess, tempfile
VERIF = os.path.dirname(os.path.dirname(os.path.abspath(__file__)))
MUT = os.path.join(VERIF, 'mutants')


def add(name, what, edits, expect, repo='/repo'):
    chunks = []
    byfile = {}
    for file, old, new in edits:
        src = byfile.get(file) or open(os.path.join(repo, file)).read()
        assert src.count(old) == 1, '%s: pattern occurs %d times in %s' % (name, src.count(old), file)
        byfile[file] = src.replace(old, new)
    for file, new in byfile.items():
        with tempfile.NamedTemporaryFile('w', suffix='.rs', delete=False) as f:
            f.write(new)
            tmp = f.name
        r = subprocess.run(['diff', '-u', '--label', 'a/' + file, '--label', 'b/' + file, os.path.join(repo, file), tmp], capture_output=True, text=True)
        os.unlink(tmp)
        chunks.append(r.stdout)
    open(os.path.join(MUT, name + '.patch'), 'w').write(''.join(chunks))
    p = os.path.join(MUT, 'index.json')
    idx = json.load(open(p))
    idx['mutants'] = [m for m in idx['mutants'] if m['name'] != name]
    idx['mutants'].append({'name': name, 'patch': name + '.patch', 'what': what, 'origin': 'manual', 'expect': dict((k, {'rules': v}) for k, v in expect.items())})
    json.dump(idx, open(p, 'w'), indent=1)
    print('added', name)
