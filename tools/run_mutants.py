#!/usr/bin/env python3
"""Detection matrix: every mutant in mutants/index.json (or patches given on the command line) against every property."""
import json
import os
import sys
from concurrent.futures import ThreadPoolExecutor

VERIF = os.path.dirname(os.path.dirname(os.path.abspath(__file__)))
sys.path.insert(0, VERIF)
from dsa import selfcheck, props  # noqa

idx = selfcheck.load_index()
muts = idx['mutants']
SHARD = None
if '--shard' in sys.argv:
    i_ = sys.argv.index('--shard')
    SHARD = tuple(int(x) for x in sys.argv[i_ + 1].split('/'))
    del sys.argv[i_:i_ + 2]
if len(sys.argv) > 1:
    muts = [m for m in muts if any(a in m['name'] for a in sys.argv[1:])]
if SHARD:
    muts = [m for n_, m in enumerate(muts) if n_ % SHARD[1] == SHARD[0]]
pids = sorted(props.PROPS)
bad = 0
for m in muts:
    r = selfcheck.run_mutant(m, '/repo', pids)
    if r['status'] != 'ran':
        print('%-45s %s %s' % (m['name'], r['status'], r.get('why', '')[:200]))
        continue
    hits = {p: v for p, v in r['violations'].items() if v}
    line = []
    okall = True
    for p, exp in m['expect'].items():
        got = r['violations'].get(p, [])
        hit = [g for g in got if g['rule'] in exp['rules'] and (not exp.get('key') or exp['key'] in g['key'])]
        if not hit:
            okall = False
    print('%-45s %s  detected by: %s' % (m['name'], 'OK    ' if okall else 'MISSED', ', '.join('%s[%s]' % (p, ','.join(sorted(set(x['rule'] for x in v)))) for p, v in sorted(hits.items())) or '-'))
    if not okall:
        bad += 1
        print('     expected:', json.dumps(m['expect']))
# benign refactors: nothing may fire
known = json.load(open(os.path.join(VERIF, 'known_findings.json')))
kset = set((k['property'], k['rule'], k['key']) for k in known['findings'])
for n_, b in enumerate(idx.get('benign', [])):
    if len(sys.argv) > 1 and not any(a in b['name'] for a in sys.argv[1:]):
        continue
    if SHARD and n_ % SHARD[1] != SHARD[0]:
        continue
    r = selfcheck.run_mutant(b, '/repo', pids, want=('violation', 'undecided'))
    if r['status'] != 'ran':
        print('%-45s %s %s' % (b['name'], r['status'], r.get('why', '')[:300]))
        bad += 1
        continue
    hits = {}
    for p, v in r['violations'].items():
        v2 = [x for x in v if (p, x['rule'], x['key']) not in kset]
        if v2:
            hits[p] = v2
    if hits and b.get('undecided_ok') and all(x.get('verdict') == 'undecided' for v in hits.values() for x in v):
        print('%-45s UNDECIDED (accepted for this variant): %s' % (b['name'], ', '.join(sorted(hits))))
        continue
    print('%-45s %s' % (b['name'], 'SILENT' if not hits else 'FALSE ALARM: ' + ', '.join('%s[%s]' % (p, ','.join(sorted(set(x['rule'] + ('?' if x.get('verdict') == 'undecided' else '') for x in v)))) for p, v in sorted(hits.items()))))
    if hits:
        bad += 1
        if os.environ.get('VERBOSE'):
            for p, v in sorted(hits.items()):
                for x in v:
                    print('      ', p, x.get('verdict'), x['rule'], x['key'])
sys.exit(1 if bad else 0)
