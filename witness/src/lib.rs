//! Compile-fail witnesses for the type-level clauses of C05 / C14 (and their compiling twins).
//!
//! Each `compile_fail,E0xxx` block is a program a *user* of the crate could write that would be unsound if it compiled; it must be
//! rejected with exactly that error.  Each is paired with a twin that differs only in the offending line and must compile
//! (`no_run`): a witness whose path is merely wrong also "fails to compile", the twin shows the rest of the program is fine.
//! Run with `cargo +nightly test --doc --offline` (the stable toolchain ignores the error code).

/// W01: a job handed to `desync` may outlive the caller's frame, so it cannot borrow a local.
/// ```compile_fail,E0597
/// let d = desync::Desync::new(0u32);
/// let x = 1u32;
/// let r = &x;
/// d.desync(move |v| { *v = *r; });
/// ```
/// Twin: `sync` returns only after the job ran, so the borrow is fine.
/// ```no_run
/// let d = desync::Desync::new(0u32);
/// let x = 1u32;
/// let r = &x;
/// d.sync(move |v| { *v = *r; });
/// ```
pub struct W01;

/// W02: `future_desync` jobs run in the background: `'static` captures only.
/// ```compile_fail,E0597
/// use futures::prelude::*;
/// let d = desync::Desync::new(0u32);
/// let x = 1u32;
/// let r = &x;
/// let _f = d.future_desync(move |v| { *v = *r; async move { }.boxed() });
/// ```
/// Twin: `future_sync` borrows for the life of the returned future.
/// ```no_run
/// use futures::prelude::*;
/// let d = desync::Desync::new(0u32);
/// let x = 1u32;
/// let r = &x;
/// let _f = d.future_sync(move |v| { *v = *r; async move { }.boxed() });
/// ```
pub struct W02;

/// W03: a reference to the protected value cannot escape the job.
/// ```compile_fail
/// let d = desync::Desync::new(0u32);
/// let leaked: &u32 = d.sync(|v| &*v);
/// assert!(*leaked == 0);
/// ```
/// Twin: copying the value out is fine.
/// ```no_run
/// let d = desync::Desync::new(0u32);
/// let copied: u32 = d.sync(|v| *v);
/// assert!(copied == 0);
/// ```
pub struct W03;

/// W04: the protected value crosses to pool threads: it must be `Send`.
/// ```compile_fail,E0277
/// let d = desync::Desync::new(std::rc::Rc::new(0u32));
/// d.sync(|_| { });
/// ```
/// Twin:
/// ```no_run
/// let d = desync::Desync::new(std::sync::Arc::new(0u32));
/// d.sync(|_| { });
/// ```
pub struct W04;

/// W05: a `sync` closure may run on another thread (a pool thread draining the queue): `Send` captures only.
/// ```compile_fail,E0277
/// let d = desync::Desync::new(0u32);
/// let rc = std::rc::Rc::new(1u32);
/// d.sync(move |v| { *v = *rc; });
/// ```
/// Twin:
/// ```no_run
/// let d = desync::Desync::new(0u32);
/// let rc = std::sync::Arc::new(1u32);
/// d.sync(move |v| { *v = *rc; });
/// ```
pub struct W05;

/// W06: the result of `sync` is produced on another thread: it must be `Send`.
/// ```compile_fail,E0277
/// let d = desync::Desync::new(0u32);
/// let _r = d.sync(|v| std::rc::Rc::new(*v));
/// ```
/// Twin:
/// ```no_run
/// let d = desync::Desync::new(0u32);
/// let _r = d.sync(|v| std::sync::Arc::new(*v));
/// ```
pub struct W06;

/// W07: the future returned by `future_sync` borrows the `Desync`: the object cannot be dropped while the future is alive.
/// ```compile_fail,E0505
/// use futures::prelude::*;
/// let d = desync::Desync::new(0u32);
/// let f = d.future_sync(|v| { *v += 1; async move { }.boxed() });
/// drop(d);
/// drop(f);
/// ```
/// Twin:
/// ```no_run
/// use futures::prelude::*;
/// let d = desync::Desync::new(0u32);
/// let f = d.future_sync(|v| { *v += 1; async move { }.boxed() });
/// drop(f);
/// drop(d);
/// ```
pub struct W07;

/// W08: a `Desync` cannot be duplicated (two owners would free the value twice).
/// ```compile_fail,E0599
/// let d = desync::Desync::new(0u32);
/// let _e = d.clone();
/// ```
/// Twin: sharing goes through `Arc`.
/// ```no_run
/// let d = std::sync::Arc::new(desync::Desync::new(0u32));
/// let _e = d.clone();
/// ```
pub struct W08;

/// W09: a `desync` job must be `Send`.
/// ```compile_fail,E0277
/// let d = desync::Desync::new(0u32);
/// let rc = std::rc::Rc::new(1u32);
/// d.desync(move |v| { *v = *rc; });
/// ```
/// Twin:
/// ```no_run
/// let d = desync::Desync::new(0u32);
/// let rc = std::sync::Arc::new(1u32);
/// d.desync(move |v| { *v = *rc; });
/// ```
pub struct W09;

/// W10: `try_sync` has the same bounds as `sync`.
/// ```compile_fail,E0277
/// let d = desync::Desync::new(0u32);
/// let _r = d.try_sync(|v| std::rc::Rc::new(*v));
/// ```
/// Twin:
/// ```no_run
/// let d = desync::Desync::new(0u32);
/// let _r = d.try_sync(|v| std::sync::Arc::new(*v));
/// ```
pub struct W10;

/// W11: the processing closure of `pipe_in` lives as long as the stream does: it cannot borrow a local.
/// ```compile_fail,E0597
/// use futures::prelude::*;
/// let d = std::sync::Arc::new(desync::Desync::new(0u32));
/// let (_tx, rx) = futures::channel::mpsc::channel::<u32>(1);
/// let x = 1u32;
/// let r = &x;
/// desync::pipe_in(d, rx, move |v, item| { *v = item + *r; future::ready(()).boxed() });
/// ```
/// Twin:
/// ```no_run
/// use futures::prelude::*;
/// let d = std::sync::Arc::new(desync::Desync::new(0u32));
/// let (_tx, rx) = futures::channel::mpsc::channel::<u32>(1);
/// let x = 1u32;
/// desync::pipe_in(d, rx, move |v, item| { *v = item + x; future::ready(()).boxed() });
/// ```
pub struct W11;

/// W12: a `Desync` can be shared between threads only if its value is `Send` (here: checked through `Arc<Desync<T>>: Send`).
/// ```compile_fail,E0277
/// fn needs_send<T: Send>(_: T) { }
/// struct NotSend(*const u8);
/// unsafe impl Sync for NotSend { }
/// fn make() -> std::sync::Arc<desync::Desync<NotSend>> { unimplemented!() }
/// needs_send(make());
/// ```
/// Twin:
/// ```no_run
/// fn needs_send<T: Send>(_: T) { }
/// fn make() -> std::sync::Arc<desync::Desync<u32>> { unimplemented!() }
/// needs_send(make());
/// ```
pub struct W12;

/// W13: `after` jobs run in the background: `'static` captures only.
/// ```compile_fail,E0597
/// let d = desync::Desync::new(0u32);
/// let x = 1u32;
/// let r = &x;
/// let _f = d.after(futures::future::ready(2u32), move |v, n| { *v = n + *r; });
/// ```
/// Twin:
/// ```no_run
/// let d = desync::Desync::new(0u32);
/// let x = 1u32;
/// let _f = d.after(futures::future::ready(2u32), move |v, n| { *v = n + x; });
/// ```
pub struct W13;
