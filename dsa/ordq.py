"""Generic ordering queries over one function's CFG (A8): dominance, must-pass-through, switch edges of a call result, await sites."""
from .facts import clean_ty, ty_head

STD_DISCR = {
    'core::option::Option': {'None': '0', 'Some': '1'},
    'core::result::Result': {'Ok': '0', 'Err': '1'},
    'core::task::poll::Poll': {'Ready': '0', 'Pending': '1'},
}


def calls(fn, suffix, cleanup=False):
    out = []
    for bb, t in fn.calls():
        if not cleanup and fn.blocks[bb]['cleanup']:
            continue
        n = t['func'].get('fn') or ''
        if n == suffix or n.endswith('::' + suffix) or n.endswith(suffix):
            out.append((bb, t))
    return out


def calls_resolved(fn, suffix):
    out = []
    for bb, t in fn.calls():
        if fn.blocks[bb]['cleanup']:
            continue
        n = t.get('resolved') or t['func'].get('fn') or ''
        if n.endswith(suffix):
            out.append((bb, t))
    return out


def dominates(fn, a, b):
    return a in fn.dominators().get(b, set())


def edom(fn, tgt, b):
    """Block b only executes after the *edge* into tgt was taken: tgt dominates b and tgt has a single entry edge
    (predecessors that tgt itself dominates are loop back-edges and do not count)."""
    if tgt is None:
        return False
    dom = fn.dominators()
    if tgt not in dom.get(b, set()):
        return False
    entries = [p for p in fn.preds().get(tgt, []) if tgt not in dom.get(p, set()) and p in dom]
    return len(entries) <= 1


def switch_of_local(fn, local, start_bb, max_steps=6):
    """Find the switch that tests `local` (directly if bool, or via discriminant(local)) at/after start_bb along straight-line flow.
    Returns (switch bb, {value: target}, otherwise) or None."""
    bb = start_bb
    for _ in range(max_steps):
        b = fn.blocks[bb]
        t = b['term']
        if t is None:
            return None
        if t['k'] == 'switch' and t['discr']['k'] in ('copy', 'move'):
            dl = t['discr']['pl']['l']
            if dl == local and not t['discr']['pl']['p']:
                return bb, dict((v, tb) for v, tb in t['targets']), t['otherwise']
            for s in b['stmts']:
                if s['k'] == 'assign' and not s['pl']['p'] and s['pl']['l'] == dl and s['rv']['k'] == 'discr':
                    pl = s['rv']['pl']
                    if pl['l'] == local and not pl['p']:
                        return bb, dict((v, tb) for v, tb in t['targets']), t['otherwise']
            return None
        if t['k'] in ('goto', 'falseedge', 'falseunwind', 'drop'):
            bb = t['target']
            continue
        return None
    return None


def result_edges(fn, call_bb):
    """Edges of the switch on the result of the call ending block call_bb: {variant value or 'otherwise': target}."""
    t = fn.blocks[call_bb]['term']
    if t['target'] is None or t['dest']['p']:
        return None
    r = switch_of_local(fn, t['dest']['l'], t['target'])
    if not r:
        return None
    bb, m, oth = r
    m = dict(m)
    m['otherwise'] = oth
    m['_bb'] = bb
    return m


def edge_for(edges, adt, variant):
    """Target block for `variant` of a std enum in a result_edges map."""
    if edges is None:
        return None
    v = STD_DISCR[adt][variant]
    if v in edges:
        return edges[v]
    # otherwise edge stands for the variants not listed
    listed = [k for k in edges if k not in ('otherwise', '_bb')]
    if v not in listed:
        return edges['otherwise']
    return None


def inner_switch(fn, local, outer_variant, start_bb):
    """Switch on discriminant((local as Variant).0) starting at start_bb (nested match on Poll<Result<..>>)."""
    bb = start_bb
    for _ in range(6):
        b = fn.blocks[bb]
        t = b['term']
        if t is None:
            return None
        if t['k'] == 'switch':
            for s in b['stmts']:
                if s['k'] == 'assign' and s['rv']['k'] == 'discr':
                    pl = s['rv']['pl']
                    if pl['l'] == local and any(p['k'] == 'downcast' and p['v'] == outer_variant for p in pl['p']):
                        m = dict((v, tb) for v, tb in t['targets'])
                        m['otherwise'] = t['otherwise']
                        m['_bb'] = bb
                        return m
            return None
        if t['k'] in ('goto', 'falseedge', 'falseunwind', 'drop'):
            bb = t['target']
            continue
        return None
    return None


def await_sites(fn):
    """Awaits in a coroutine body: a Future::poll whose Pending edge leads to a Yield. -> [{'poll_bb','ready','pending','yield_bb','what','arg'}]"""
    out = []
    for bb, t in fn.calls():
        if fn.blocks[bb]['cleanup']:
            continue
        if (t['func'].get('fn') or '') != 'core::future::future::Future::poll':
            continue
        e = result_edges(fn, bb)
        if not e:
            continue
        ready = edge_for(e, 'core::task::poll::Poll', 'Ready')
        pending = edge_for(e, 'core::task::poll::Poll', 'Pending')
        # does pending reach a yield without calls?
        y = None
        cur = pending
        for _ in range(6):
            if cur is None:
                break
            tt = fn.blocks[cur]['term']
            if tt and tt['k'] == 'yield':
                y = cur
                break
            if tt and tt['k'] in ('goto', 'falseedge', 'falseunwind', 'drop'):
                cur = tt['target']
            else:
                break
        if y is None:
            continue
        what = t.get('resolved') or ''
        st = clean_ty(t.get('self_ty') or '')
        # the awaited value: follow Pin::new_unchecked(&mut x) back to x
        arg = fn.expr_of_operand(t['args'][0])
        out.append({'poll_bb': bb, 'ready': ready, 'pending': pending, 'yield_bb': y, 'what': what, 'self_ty': st, 'arg': arg})
    return out


def upvar_of(expr):
    """Name of the upvar an expression is rooted in (through into_future / moves), or None."""
    from .facts import expr_root
    e = expr
    seen = 0
    while seen < 10:
        seen += 1
        r = expr_root(e)
        if r[0] == 'upvar':
            return r[1]
        if r[0] == 'call' and r[2]:
            e = r[2][0]
            continue
        return None
    return None


def all_paths_pass(fn, src_bb, through):
    """Every path from the start of src_bb to a normal exit passes one of the blocks in `through`."""
    return fn.must_pass(src_bb, set(fn.exits()), set(through))
