"""New plain structs are read as the tuple of their fields.

The rules name the protocol's data by the types of the pinned tree (dsa/known_adts.txt): the thread table is a
`Vec<(Arc<Mutex<bool>>, SchedulerThread)>`, a DoubleWaker holds `Option<(Waker, Waker)>`, the blocked sync caller creates three separate
Arcs.  A struct that is *not* in that table and only bundles such values (`struct ThreadEntry { busy, thread }`) is a behaviour-preserving
"introduce parameter object" refactoring: it is made transparent here, before any rule runs, by rewriting every printed type, field
projection and struct literal of such a struct into the corresponding tuple form - the same idea as helper flattening (dsa/flatten.py), for
data.  A new struct with a destructor of its own, a new enum, or a new generic struct whose parameters cannot be substituted textually
is left alone (it is a new kind of object, and the rules that meet it say so)."""
import os
import re

HERE = os.path.dirname(os.path.abspath(__file__))
TY_KEYS = ('ty', 'bty', 'self_ty')


def known_adts():
    p = os.path.join(HERE, 'known_adts.txt')
    if not os.path.exists(p):
        return None
    with open(p) as f:
        return set(l.strip() for l in f if l.strip())


def _split_top(s):
    out, depth, cur = [], 0, ''
    i = 0
    while i < len(s):
        c = s[i]
        if c in '<([{':
            depth += 1
        elif c in '>)]}' and not (c == '>' and i > 0 and s[i - 1] == '-'):
            depth -= 1
        if c == ',' and depth == 0:
            out.append(cur.strip())
            cur = ''
        else:
            cur += c
        i += 1
    if cur.strip():
        out.append(cur.strip())
    return out


def transparent(j):
    known = known_adts()
    if known is None:
        return j, []
    drops = set()
    for i in j.get('impls', []):
        if (i.get('trait') or '').endswith('ops::drop::Drop'):
            drops.add(i.get('self_head'))
    new = {}
    for a in j['adts']:
        p = a['path']
        if p in known or not p.startswith(j.get('crate', 'desync') + '::') or a['kind'] != 'Struct' or len(a['variants']) != 1 or p in drops:
            continue
        if any(g['kind'] not in ('type', 'lifetime') for g in a.get('generics', [])):
            continue
        if not a['variants'][0]['fields']:
            continue        # a unit struct is a marker / an answer (`Err(Panicked)`), not a bundle of protocol data
        new[p] = a
    if not new:
        return j, []
    names = sorted(new, key=len, reverse=True)
    pat = re.compile(r'(?<![A-Za-z0-9_:])(' + '|'.join(re.escape(n) for n in names) + r')(?![A-Za-z0-9_:])')

    def expand(s, depth=0):
        if not isinstance(s, str) or depth > 6:
            return s
        m = pat.search(s)
        while m:
            name = m.group(1)
            a = new[name]
            end = m.end()
            args = []
            if end < len(s) and s[end] == '<':
                d, k = 0, end
                while k < len(s):
                    if s[k] == '<':
                        d += 1
                    elif s[k] == '>' and s[k - 1] != '-':
                        d -= 1
                        if d == 0:
                            break
                    k += 1
                args = _split_top(s[end + 1:k])
                end = k + 1
            params = [g['name'] for g in a.get('generics', []) if g['kind'] == 'type']
            targs = [x for x in args if not x.startswith("'")]
            fields = []
            for f_ in a['variants'][0]['fields']:
                ft = f_['ty']
                if params and len(params) == len(targs):
                    for p_, v_ in zip(params, targs):
                        ft = re.sub(r'(?<![A-Za-z0-9_:])%s(?![A-Za-z0-9_])' % re.escape(p_), v_.replace('\\', '\\\\'), ft)
                fields.append(ft)
            tup = '(' + ', '.join(fields) + (',' if len(fields) == 1 else '') + ')'
            s = s[:m.start()] + tup + s[end:]
            m = pat.search(s, m.start() + 1)
        return s

    def walk(x):
        if isinstance(x, dict):
            # (field projections keep their names: `entry.thread` reads as field `thread` of a tuple - rules that look for a named field of
            # a known struct still find it when the field moved into a new bundling struct)
            if x.get('k') == 'field' and isinstance(x.get('bty'), str):
                m_ = pat.match(x['bty'].strip().lstrip('&').replace('mut ', '', 1).strip())
                if m_:
                    x['was_struct'] = m_.group(1)
            if x.get('k') == 'agg' and x.get('ak') == 'adt' and x.get('adt') in new:
                x['ak'] = 'tuple'
                x['was_adt'] = x.pop('adt')
                x.pop('variant', None)
            for k, v in list(x.items()):
                if k in TY_KEYS and isinstance(v, str):
                    x[k] = expand(v)
                elif k in ('fnargs', 'inputs') and isinstance(v, list):
                    x[k] = [expand(e) if isinstance(e, str) else e for e in v]
                elif k == 't' and isinstance(v, str):
                    pass
                else:
                    walk(v)
        elif isinstance(x, list):
            for e in x:
                walk(e)

    for f in j['fns']:
        walk(f)
    for a in j['adts']:
        if a['path'] not in new:
            walk(a)
    return j, names
