#!/usr/bin/env python3
"""Regenerates dsa/eo_baseline.json from /repo (run only on a tree whose orderings have been reviewed: the pinned tree + fix commits)."""
import json
import os
import sys
VERIF = os.path.dirname(os.path.dirname(os.path.abspath(__file__)))
sys.path.insert(0, VERIF)
from dsa import extract            # noqa
from dsa.ctx import Ctx            # noqa
from dsa.rules_eo import order_pairs, scope, BASELINE   # noqa

facts, info = extract.extract('/repo', 'dev')
ctx = Ctx(facts, info)
pairs = {}
total = 0
for root in scope(ctx):
    p, occ = order_pairs(ctx, root)
    if p:
        pairs[root] = sorted(p)
        total += len(p)
json.dump({'comment': 'effect-order baseline of the pinned tree (+ fix commits); see dsa/rules_eo.py', 'floor': int(total * 0.9), 'pairs': pairs}, open(BASELINE, 'w'), indent=0)
print('functions with orderings: %d, pairs: %d' % (len(pairs), total))
