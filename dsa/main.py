"""Entry point: ./check <ID>|all [--tier quick|thorough] [--repo DIR] [--explain FILE] [--facts FILE]

exit 0  every rule instance of the property held (or is a listed known finding)
exit 1  + `VIOLATION property=<id> replay=<path>` for each rule instance that is violated
exit 2  + `UNDECIDED property=<id> reason=...` the check can neither confirm nor accuse (build failed, anchor
          missing, instance count below its floor, shape not understood)
"""
import argparse
import hashlib
import json
import os
import sys
import time

from . import extract, props
from .ctx import Ctx
from .rule import OK, VIOLATION, UNDECIDED

VERIF = os.path.dirname(os.path.dirname(os.path.abspath(__file__)))
EVID = os.path.join(VERIF, 'evidence')


def load_known():
    p = os.path.join(VERIF, 'known_findings.json')
    if not os.path.exists(p):
        return {'findings': [], 'fixed': []}
    with open(p) as f:
        return json.load(f)


def run_property(pid, ctxs, tier, seed, t0, extra_evidence=None):
    """ctxs: {config: Ctx}. Returns (exit code, lines to print)."""
    spec = props.PROPS[pid]
    known = load_known()
    known_keys = {(k['property'], k['rule'], k['key']): k for k in known.get('findings', [])}
    lines = []
    all_inst = []
    per_config = {}
    for cfg, ctx in ctxs.items():
        insts = props.evaluate(pid, ctx)
        per_config[cfg] = insts
        for i in insts:
            all_inst.append((cfg, i))
    # merge across configurations: an instance is identified by rule|key; worst verdict wins
    merged = {}
    order = {OK: 0, UNDECIDED: 1, VIOLATION: 2}
    for cfg, i in all_inst:
        k = i.ident()
        if k not in merged or order[i.verdict] > order[merged[k][1].verdict]:
            merged[k] = (cfg, i)
    viols, undec, kf = [], [], []
    for k, (cfg, i) in sorted(merged.items()):
        if i.verdict == VIOLATION:
            if (pid, i.rule, i.key) in known_keys:
                kf.append((cfg, i, known_keys[(pid, i.rule, i.key)]))
            else:
                viols.append((cfg, i))
        elif i.verdict == UNDECIDED:
            undec.append((cfg, i))
    os.makedirs(os.path.join(EVID, 'violations'), exist_ok=True)
    for cfg, i, k in kf:
        lines.append('KNOWN-FINDING: property=%s %s [%s %s]' % (pid, k.get('what_fails', i.detail), i.rule, i.key))
    for cfg, i in viols:
        h = hashlib.sha1(i.ident().encode()).hexdigest()[:10]
        path = os.path.join(EVID, 'violations', '%s-%s-%s.json' % (pid, i.rule, h))
        with open(path, 'w') as f:
            json.dump({'property': pid, 'config': cfg, 'instance': i.to_json(), 'repo': ctxs[cfg].info.get('repo')}, f, indent=1)
        lines.append('VIOLATION property=%s replay=%s' % (pid, path))
        lines.append('  rule %s, instance %s%s: %s' % (i.rule, i.key, (' (' + i.loc + ')') if i.loc else '', i.detail))
    for cfg, i in undec:
        lines.append('UNDECIDED property=%s reason=%s: %s' % (pid, i.ident(), i.detail))
    # evidence
    first = ctxs[sorted(ctxs)[0]]
    n_eval = len(all_inst)
    distinct = len(merged)
    samples = [i.to_json() for _, (_, i) in sorted(merged.items())]
    rules_applied = sorted(set(i.rule for _, (_, i) in merged.items()))
    ev = {
        'property_id': pid,
        'tier': tier,
        'seed': seed,
        'level': 'other',
        'coverage': {
            'explanation': spec['explanation'],
            'rule': 'each sample is one rule instance: an obligation the rule found in the type-checked program (function, site, path or table row), keyed without line numbers; distinct = distinct rule|key pairs; all instances carry a non-vacuous obligation (instances are created only where the code has the construct the rule speaks about)',
            'evaluations': n_eval,
            'distinct_nontrivial': distinct,
            'obligations': distinct,
            'discharged': sum(1 for _, (_, i) in merged.items() if i.verdict == OK),
            'samples': samples,
            'rules_applied': rules_applied,
            'configurations': sorted(ctxs),
            'facts': {cfg: dict(c.stats(), **c.info) for cfg, c in ctxs.items()},
            'known_findings_matched': [i.ident() for _, i, _ in kf],
            'undecided_instances': [i.ident() for _, i in undec],
            'decided_clauses': spec['decided'],
            'undecided_clauses': spec['not_decided'],
            'exhaustive': True,
        },
        'assumptions': props.ASSUMPTIONS + spec.get('assumptions', []),
        'wall_s': round(time.time() - t0, 2),
        'violations': len(viols),
    }
    if extra_evidence:
        ev['coverage'].update(extra_evidence)
    os.makedirs(EVID, exist_ok=True)
    with open(os.path.join(EVID, '%s.json' % pid), 'w') as f:
        json.dump(ev, f, indent=1, sort_keys=False)
    summary = '%s: %d instances over %d rules, %d ok, %d violation(s), %d known finding(s), %d undecided [%s]' % (
        pid, distinct, len(rules_applied), ev['coverage']['discharged'], len(viols), len(kf), len(undec), ','.join(sorted(ctxs)))
    lines.append(summary)
    code = 1 if viols else (2 if undec else 0)
    return code, lines


def write_failure_evidence(pid, tier, seed, t0, reason):
    os.makedirs(EVID, exist_ok=True)
    spec = props.PROPS[pid]
    ev = {'property_id': pid, 'tier': tier, 'seed': seed, 'level': 'other',
          'coverage': {'explanation': 'NO VERDICT: ' + reason, 'evaluations': 0, 'distinct_nontrivial': 0, 'samples': [],
                       'decided_clauses': spec['decided'], 'undecided_clauses': spec['not_decided']},
          'assumptions': props.ASSUMPTIONS, 'wall_s': round(time.time() - t0, 2), 'violations': 0}
    with open(os.path.join(EVID, '%s.json' % pid), 'w') as f:
        json.dump(ev, f, indent=1)


def main(argv=None):
    ap = argparse.ArgumentParser()
    ap.add_argument('prop')
    ap.add_argument('--tier', default=os.environ.get('VERIF_TIER', 'quick'), choices=['quick', 'thorough'])
    ap.add_argument('--repo', default='/repo')
    ap.add_argument('--explain')
    ap.add_argument('--facts', help='use an existing fact file instead of extracting (debugging only)')
    ap.add_argument('--no-selfcheck', action='store_true', help='thorough tier: skip the mutant / witness stages')
    a = ap.parse_args(argv)
    seed = int(os.environ.get('VERIF_SEED', '0') or 0)
    t0 = time.time()
    pids = sorted(props.PROPS) if a.prop == 'all' else [a.prop]
    for p in pids:
        if p not in props.PROPS:
            print('unknown property %s' % p)
            return 2
    if a.explain:
        from . import explain
        return explain.explain(a.explain, a.repo)
    configs = ['dev'] if a.tier == 'quick' else ['dev', 'release', 'test']
    ctxs = {}
    try:
        for cfg in configs:
            if a.facts and cfg == 'dev':
                with open(a.facts) as f:
                    ctxs[cfg] = Ctx(json.load(f), {'config': cfg, 'repo': a.repo, 'from_file': a.facts})
            else:
                facts, info = extract.extract(a.repo, cfg)
                ctxs[cfg] = Ctx(facts, info)
    except extract.ExtractError as e:
        for p in pids:
            write_failure_evidence(p, a.tier, seed, t0, str(e)[:500])
            print('UNDECIDED property=%s reason=%s' % (p, str(e).splitlines()[0][:300]))
        sys.stderr.write(str(e) + '\n')
        return 2
    worst = 0
    for p in pids:
        extra = None
        if a.tier == 'thorough' and not a.no_selfcheck:
            from . import selfcheck
            extra, sc_lines, sc_code = selfcheck.run(p, a.repo, seed)
        else:
            sc_lines, sc_code = [], 0
        code, lines = run_property(p, ctxs, a.tier, seed, t0, extra)
        for l in lines + sc_lines:
            print(l)
        code = max(code, sc_code) if code != 1 else 1
        if sc_code == 1:
            code = 1
        worst = 1 if (code == 1 or worst == 1) else max(worst, code)
    return worst


if __name__ == '__main__':
    sys.exit(main())
