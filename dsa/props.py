"""Property -> rules.  A rule that is a necessary condition of several properties is run by each of them."""
from . import rules_proto as RP
from . import rules_locks as RL
from . import rules_lw as RW
from . import rules_qd as RQ
from . import rules_guard as RG
from . import rules_ord as RO
from . import rules_ua as RU
from . import rules_eo as RE
from . import rules_must as RM
from . import rules_wp as RWP

ASSUMPTIONS = [
    "rustc's MIR construction, type checking and callee resolution (facts are read from the compiler's own built MIR)",
    'every access to JobQueueCore goes through its Mutex (checked: state written only inside a JobQueue.core critical section)',
    'dynamic calls resolve within closed candidate sets: ScheduledJob is crate-private; wakers are in-crate ArcWake types or caller-supplied',
    'std::sync Mutex/Condvar/thread::park semantics; user closures, futures and streams are arbitrary code',
    'host target only (cfg(target_arch = "wasm32") items are not compiled and not analysed)',
]

_cache_attr = '_rule_cache'


def _run(ctx, func):
    cache = getattr(ctx, _cache_attr, None)
    if cache is None:
        cache = {}
        setattr(ctx, _cache_attr, cache)
    if func not in cache:
        res = func(ctx)
        # an analysis that reports a fail-closed condition about itself (shape not understood, state written where it cannot follow)
        # must not accuse the code on the strength of its incomplete picture: its violations are downgraded to UNDECIDED
        if any(i.key.startswith('analysis:') for i in res):
            from .rule import VIOLATION, UNDECIDED
            for i in res:
                if i.verdict == VIOLATION:
                    i.verdict = UNDECIDED
                    i.detail = '(not asserted: the analysis is incomplete on this tree) ' + i.detail
        cache[func] = res
    return cache[func]


def evaluate(pid, ctx):
    out = []
    seen = {}
    for entry in PROPS[pid]['rules']:
        func, names = entry[0], entry[1]
        keys = entry[2] if len(entry) > 2 else None
        for i in _run(ctx, func):
            if names is not None and i.rule not in names and not i.rule.startswith('analysis'):
                continue
            if keys is not None and not any((i.key.startswith(k[1:]) if k.startswith('^') else k in i.key) for k in keys) and not i.key.startswith('analysis:'):
                continue
            if not i.loc and i.fn:
                f = ctx.F.fn(i.fn)
                if f:
                    i.loc = '%s:%s' % (f.file, f.line)
            if i.ident() in seen:
                # the same instance reported twice (a rule shared by two groups, or two sites with one key): the worse verdict stands
                j = seen[i.ident()]
                if RANK.get(i.verdict, 0) > RANK.get(out[j].verdict, 0):
                    out[j] = i
                continue
            seen[i.ident()] = len(out)
            out.append(i)
    return out


RANK = {'ok': 0, 'known': 1, 'undecided': 2, 'violation': 3}


PROPS = {}


def prop(pid, explanation, decided, not_decided, rules, assumptions=None):
    decided = list(decided)
    for entry in rules:
        if entry is G_CORE[0] and 'scheduler core' not in ' '.join(decided):
            decided.append('the necessary conditions of the scheduler core that this property presupposes (one runner at a time, token released and handed on, wakers and pool resume parked queues, '
                           'waiters notified, dead threads reaped, lock discipline, reviewed transition relation and effect order; every protocol action happens on every path that owes it '
                           '(MUST: must-pass-through obligations, e.g. a waker cannot return before looking at the state, a taken waker is woken, a created thread is registered); every waker that is '
                           'polled with or left in a slot comes from the caller or is one of the crate\'s own, built for the queue it runs and the thread that parks, and a wrapper waker type forwards every wake it receives (WP); every object the rules reason about per owner (a queue per Desync, a result slot per future, a buffer per pipe, a schedule and thread table '
                           'per scheduler, a busy flag per thread, the id a queue is parked under) is made for that owner by its constructor, starts in the protocol\'s initial state and keeps its identity, the types of the protocol have the reviewed destructors (DROP-base), and the two ends of every hand-shake are one object (ID-fixed, ID-fresh, ID-same): group CORE in dsa/props.py)')
        if getattr(entry[0], '__name__', '') == 'tr_base':
            decided.append('the transition relation extracted from %s is the reviewed one: no transition added, none removed (TR-base; regression rule against dsa/tr_baseline.json)'
                           % (', '.join(entry[2]) if len(entry) > 2 and entry[2] else 'every function that writes the queue state'))
        if getattr(entry[0], '__name__', '') == 'eo':
            decided.append('the recorded orderings of protocol effects (state and slot writes, wakes, notifies, queue operations, in-crate calls) in %s still hold: '
                           'nothing was moved across another effect, made conditional or dropped (EO; regression rule against the reviewed baseline dsa/eo_baseline.json)'
                           % ', '.join(entry[2] if len(entry) > 2 and entry[2] else ['all protocol functions']))
    PROPS[pid] = {'explanation': explanation, 'decided': decided, 'not_decided': not_decided, 'rules': rules, 'assumptions': assumptions or []}


COMMON = ('Static structural rules decided on the type-checked program (rustc built MIR of every body of the crate, extracted on every run): '
          'each rule is a necessary condition of the property that is visible in the shape of the code on every path, and holds for all schedules at once. '
          'The behaviour of executions as a whole is NOT decided. ')

# Rule groups for dependent properties: a property that is *derived* from another (DESIGN §5) runs that property's necessary conditions too.
G_EXCL = [(RP.tok_exec, None), (RP.pa_rules, {'PA-excl', 'PA-stuck', 'PA'}), (RP.tok_requeue, None), (RQ.qd_queue, None), (RP.tr_immediate, None), (RO.c05_drop, None)]
G_POOL = [(RO.c03_dormant, None), (RO.c10_fetch, None), (RO.c10_thread, None), (RQ.qd_schedule, None)]
# The scheduler core: every property of an object rests on its queue being run by exactly one runner at a time and on that runner, the
# wakers and the pool handing the queue on correctly.  A change that breaks one of these necessary conditions breaks the progress or the
# exclusion that the other properties presuppose, so every scheduler-dependent property runs the whole group (seeding rounds 2-6: a third
# of the seeded changes were reported by a neighbouring property's check only, until the target's check ran the same rules).
G_CORE = [(RP.tok_exec, None), (RP.tok_leak, None), (RP.tok_resched, None), (RP.tok_pending, None), (RP.tok_requeue, None), (RP.pa_rules, None),
          (RP.park_wake, None), (RP.tr_dead, None), (RP.tr_roles, None), (RP.tr_immediate, None), (RP.tr_sibling, None), (RP.tr_defer, None), (RP.tr_base, None),
          (RQ.qd_queue, None), (RQ.qd_single_store, None), (RQ.qd_job_lifetime, None), (RQ.qd_schedule, None), (RQ.qd_wake_blocked, None), (RQ.qd_run, None), (RQ.qd_once, None),
          (RG.tok_guard, None), (RG.aq_drop, None), (RG.c15_reap, None), (RG.c15_refuse, None), (RG.drop_base, None),
          (RL.try_rule, None), (RL.lo, None), (RL.bl, None),
          (RO.c03_dormant, None), (RO.c10_fetch, None), (RO.c10_thread, None), (RO.c10_spawn, None), (RO.c02_append, None), (RO.c06_drain, None),
          (RO.c07_own, None), (RO.c07_signal, None), (RO.c08, None, ['result-after-scheduler', 'polls-with-callers-context', 'drop-order', 'unwind-keeps-the-slot']),
          (RO.free_delegates, None), (RO.rs_strength, None, ['SchedulerCore']), (RW.lw_owner, None), (RU.ua_leak, None), (RM.must, None), (RWP.wp, None), (RU.id_fixed, None), (RU.id_fresh_objects, None), (RU.id_same, None), (RU.id_confined, None), (RO.rs_cycle, None), (RW.lw_recheck, None),
          (RE.eo, None, ['^SchedulerCore::', '^<SchedulerCore::', '^JobQueue::', '^<JobQueue::', '^Scheduler::', '^<Scheduler::', '^<WakeQueue', '^<WakeThread', '^<SchedulerFuture', '^SchedulerFuture', '^<ActiveQueue', '^<UnsafeJob', '^FutureJob::', '^SchedulerThread::'])]
G_ORDER = [(RO.c02_append, None), (RO.free_delegates, None, ['|delegates']), (RQ.qd_queue, None), (RQ.qd_single_store, None), (RP.tr_immediate, None), (RP.tr_sibling, None, ['sync']), (RP.tok_requeue, None),
           (RP.pa_rules, {'PA-excl', 'PA'}), (RP.tok_exec, None)]

prop('C01', COMMON +
     'The right to run a queue is modelled as a token. Decided: jobs execute only with the token held (interprocedural typestate over the extracted state writes, TOK-exec); '
     'no configuration with two holders is reachable in the protocol extracted from the code (counting abstraction, PA-excl); a suspended job goes back to the front before any release '
     'and dequeue refuses while the queue is parked (TOK-requeue, QD-queue); a caller\'s closure runs out of queue order only from (Idle, empty) (TR-immediate); &mut T is produced only '
     'inside a queue job of the same object (UA-confine); future_sync\'s user future is created and polled only inside its slot (ORD-C08).',
     ['jobs execute only under the token (TOK-exec)', 'no second holder reachable in the extracted protocol (PA-excl, PA-stuck)',
      'suspended job back to the front before release; dequeue refuses while parked (TOK-requeue, QD-queue)', 'direct run only from Idle-and-empty (TR-immediate)',
      '&mut T only inside a job of the same object (UA-confine)', 'future_sync user future only in its slot (ORD-C08)'],
     ["that the abstraction's transitions are the only way threads interleave (trusted: all accesses go through Mutex<JobQueueCore>)",
      "overlap of a completed future_sync user future's destructor with the next operation"],
     [(RP.tok_exec, None), (RP.pa_rules, {'PA-excl', 'PA-stuck', 'PA'}), (RP.tok_requeue, None), (RQ.qd_queue, None), (RP.tr_immediate, None), (RU.ua_confine, None), (RO.c08, None), (RP.tr_base, None)] + G_CORE)

prop('C02', COMMON +
     'Decided: every scheduling call appends its job under the queue lock before it returns, in its own body (ORD-C02-append); the job list is only appended at the back, taken from the front, '
     'and a suspended job is put back at the front (QD-queue, TOK-requeue); a closure runs ahead of the list only when the queue was claimed Idle and seen empty in the same critical section (TR-immediate, TR-sibling).',
     ['append under the lock before the call returns (ORD-C02-append)', 'FIFO discipline (QD-queue)', 'immediate execution only when Idle and empty (TR-immediate, TR-sibling)', 'suspended job returns to the front (TOK-requeue)', 'a single runner per queue (PA-excl, TOK-exec): a second runner would start later operations early', 'a future_sync operation occupies its slot from the announcement to the completion hand-shake: the queue does not move on to the next operation while it runs (ORD-C08)'],
     ['the real-time order of two calls on different threads (it is the linearisation order of the core mutex)', 'every runner path preserving order is derived from QD + TOK-requeue'],
     G_ORDER + [(RO.c08, None), (RQ.qd_job_lifetime, None)])

prop('C03', COMMON +
     'Decided: an acquired token is always released or handed on (TOK-leak, globally PA-stuck); every owner release to Idle is followed by reschedule_queue or made under the queue-empty test (TOK-resched); '
     'marking a queue Pending is followed by pushing it on the schedule and asking for a thread (TOK-pending); the dormant-thread handshake (ORD-C03-dormant, TRY) and the pool thread\'s fetch loop (ORD-C10-fetch); '
     'no job dropped, duplicated or run twice (QD-queue, QD-schedule, QD-once, TOK-requeue); a parked queue is resumed by its waker and can be taken over by the pool (PARK-wake).',
     ['token released/handed on on every path (TOK-leak, PA-stuck)', 'Idle release followed by reschedule or made under the empty test (TOK-resched, TOK-resched-body)',
      'Pending implies in the schedule and a thread asked (TOK-pending)', 'dormant handshake and fetch loop (ORD-C03-dormant, ORD-C10-fetch, TRY)', 'no job dropped or run twice (QD-*, TOK-requeue)', 'blocked sync callers stay registered until they leave and are told on every reschedule (QD-waiters)', 'wakers resume parked queues (PARK-wake)'],
     ['that a woken pool thread is eventually scheduled by the OS', 'quiescence of a whole program'],
     [(RP.tok_leak, None), (RP.pa_rules, {'PA-stuck', 'PA'}), (RP.tok_resched, None), (RP.tok_pending, None), (RP.tok_requeue, None), (RQ.qd_queue, None), (RQ.qd_schedule, None), (RQ.qd_once, None),
      (RL.try_rule, None), (RO.c03_dormant, None), (RO.c10_fetch, None), (RP.park_wake, None), (RQ.qd_wake_blocked, None), (RP.tr_roles, None), (RP.tr_dead, None), (RQ.qd_run, None), (RO.c10_thread, None), (RO.rs_strength, None, ['SchedulerCore']), (RU.ua_leak, None), (RE.eo, None, ['^SchedulerCore::', '^<SchedulerCore::', '^JobQueue::', '^<JobQueue::', '^Scheduler::schedule_job_desync', '^<Scheduler::schedule_job_desync', '^WakeQueue', '^<WakeQueue', '^WakeThread', '^<WakeThread', '^SchedulerThread::', '^<SchedulerThread::', '^FutureJob::', '^<FutureJob::', 'floor', 'baseline']), (RP.tr_base, None), (RE.eo, None, ['^JobQueue::', '^<JobQueue::', '^Scheduler::schedule_job_desync', '^<Scheduler::schedule_job_desync']), (RO.c08, None, ['result-after-scheduler'])] + G_CORE + G_CORE)

prop('C04', COMMON +
     'Decided: the sync strategy is chosen in one critical section and waits only when somebody owns or will wake the queue (TR-defer); the condition-variable handshake of the blocked caller (CV1, CV2, CV3: the guard handed to wait() is a hold under which the condition was read); '
     'the blocked caller stays registered until it leaves and retries to claim the queue after each wake-up (QD-waiters, ORD-C04-steal) and stops running jobs as soon as its own closure is through (ORD-C04-stop); it does not return before its lifetime-erased job is gone (UA-wait) and returns its own slot\'s value (ORD-C04-result); '
     'no lock cycle and nothing foreign or blocking under an internal lock (LO, BL); caller-side execution holds the token (TOK-exec).',
     ['strategy chosen atomically; waits only when the queue is owned or parked (TR-defer)', 'blocked caller cannot miss its wake-up (CV1, CV2, CV3, QD-waiters)', 'caller runs the queue itself when woken and it is claimable (ORD-C04-steal)', 'a caller running the queue re-tests its own completion before every further job, so it returns without running what is queued behind it (ORD-C04-stop)',
      'own result, after completion (ORD-C04-result, UA-wait)', 'the completion handshake (condition variable, ready flag) is created by the call and shared with nobody (ORD-C04-private)', 'no lock-order cycle, no blocking/foreign code under an internal lock (LO, BL)', 'caller-side execution holds the token (TOK-exec)', 'caller-side parking: wake latched while polling, consumed before parking, unpark + re-check loop (PARK-wake, ORD-C06-drain)'],
     ['termination of the operations ahead; OS fairness', '"from inside a job of a different Desync" is derived from BL (no internal lock is held while a job runs)'],
     [(RP.tr_defer, None, ['sync']), (RL.cv, None), (RQ.qd_wake_blocked, None), (RQ.qd_run, None), (RP.tr_roles, None), (RP.tr_dead, None), (RO.free_delegates, None, ['sync|']), (RG.c15_reap, None), (RO.c08, None, ['result-after-scheduler']), (RO.c04_steal, None), (RO.c04_stop, None), (RO.c04_result, None), (RO.c04_private, None), (RU.ua_wait, None), (RL.lo, None), (RL.bl, None), (RL.lock_classes, None), (RP.tok_exec, None), (RP.tok_resched, None),
      (RP.park_wake, None, ['WakeThread', 'run_one_job_now']), (RO.c06_drain, None, ['run_one_job_now']), (RE.eo, None, ['^Scheduler::sync', '^<Scheduler::sync', '^UnsafeJob', '^<UnsafeJob', '^SchedulerCore::reschedule_queue', '^<SchedulerCore::reschedule_queue', '^JobQueue::run_one_job_now', '^<JobQueue::run_one_job_now', '^sync|']), (RP.tr_base, None, ['^Scheduler::sync', '^<Scheduler::sync', '^SchedulerCore::claim_pending_queue', '^<SchedulerCore::claim_pending_queue', '^SchedulerCore::reschedule_queue', '^<SchedulerCore::reschedule_queue', '^JobQueue::run_one_job_now', '^<JobQueue::run_one_job_now', '^WakeThread', '^<WakeThread'])] + G_CORE)

prop('C05', COMMON +
     'Decided: Desync::drop performs a final sync on its own queue on every path and frees the value inside that job (ORD-C05-drop); freed nowhere else, not duplicable (UA-free); every other use of the pointer is a job '
     'of the same queue (UA-confine); the final job cannot overtake queued work (TR-immediate: direct run only from Idle-and-empty); pipes hold a Weak and upgrade before scheduling (ORD-C05-weak).',
     ['drop queues a final sync job that frees the value (ORD-C05-drop)', 'freed only there; Desync/DataRef not duplicable (UA-free)', 'pointer used only in jobs of the same queue (UA-confine)',
      'final job ordered after queued work: all of C02\'s rules (ORD-C02-append, QD-queue, TR-immediate, TOK-requeue, PA-excl)', 'the final sync waits for its job (UA-wait)', 'pipes cannot schedule on a dead object (ORD-C05-weak)'],
     ['absence of use-after-free on every interleaving as such', '"blocks until" is derived from the C04 rules'],
     [(RO.c05_drop, None), (RU.ua_free, None), (RU.ua_confine, None), (RO.c05_weak, None), (RU.ua_wait, None), (RO.c04_stop, None), (RO.c04_private, None), (RE.eo, None, ['^Desync as core::ops::drop::Drop>', '^<Desync as core::ops::drop::Drop>', '^Scheduler::sync', '^<Scheduler::sync']), (RP.tr_base, None, ['^Scheduler::sync', '^<Scheduler::sync']), (RO.c08, None, ['result-after-scheduler'])] + G_ORDER + G_CORE)

prop('C06', COMMON +
     'Decided: from every parked configuration reachable in the extracted protocol, wakers and claimers alone lead back to a running queue (PA-wake); each waker calls the resume action that matches the parked state it finds, '
     'and a queue parked for a polling task is offered to and accepted by the pool (PARK-wake); the two queue wakers agree on the states both handle (TR-sibling); a job that returned Pending is back on the queue before the queue is parked (TOK-requeue).',
     ['every parked configuration is resumable by waker/claimer transitions (PA-wake)', 'wakers call the matching resume action; pool takes over WaitingForPoll (PARK-wake)', 'poll-side drain order, DrainWaker latch table, DoubleWaker, park re-check loop (ORD-C06-drain)', 'wakers agree on Running and WaitingForWake (TR-sibling)', 'requeue before parking (TOK-requeue)', 'the polling task stores its waker before it parks the queue (LW-owner)'],
     ['"for every position of the wake-up" as executions', 'futures that break the waker contract'],
     [(RP.pa_rules, {'PA-wake', 'PA'}), (RP.park_wake, None), (RO.c06_drain, None), (RP.tr_sibling, None, ['WakeQueue/WakeThread']), (RP.tok_requeue, None), (RW.lw_owner, None), (RP.tr_roles, None), (RO.c07_own, None, ['holds-queue-strongly']), (RO.free_delegates, None, ['FutureId']), (RE.eo, None, ['^SchedulerFuture', '^<SchedulerFuture', '^WakeQueue', '^<WakeQueue', '^WakeThread', '^<WakeThread', '^JobQueue::drain', '^<JobQueue::drain', '^JobQueue::run_one_job_now', '^<JobQueue::run_one_job_now']), (RP.tr_base, None, ['^WakeQueue', '^<WakeQueue', '^WakeThread', '^<WakeThread', '^JobQueue::', '^<JobQueue::', '^SchedulerFuture', '^<SchedulerFuture', '^SchedulerCore::next_to_run', '^<SchedulerCore::next_to_run'])] + G_CORE)

prop('C07', COMMON +
     'Decided: result and waker of a scheduler future live under one mutex with check-and-register / set-and-take atomic (LW1, LW2; the owner\'s unconditional stores are justified by LW-owner); the job signals once, after its operation completed, '
     'as its last action (ORD-C07-signal); the job is owned by the queue, not by the returned future (ORD-C07-own); poll never decides to wait while the queue is Idle or Pending (TR-defer); a queue parked by a poll can be taken over by the pool (PARK-wake); '
     'the polling task drains under the token (TOK-exec, TOK-leak).',
     ['check-and-register / set-and-take atomic (LW1, LW2, LW-owner)', 'signal once, after completion (ORD-C07-signal)', 'job owned by the queue (ORD-C07-own)', '.sync() waits on the queue (ORD-C07-syncwait)', 'poll never defers on Idle/Pending (TR-defer)',
      'abandoned poll-side drain is taken over; the real waker is installed only after the queue is parked (PARK-wake, ORD-C06-drain)', 'poll-side drain holds and releases the token (TOK-exec, TOK-leak)', 'the awaiting task is woken with no internal lock held (BL)'],
     ['equality of the delivered value with what the user closure computed', 'ordering of sibling polls as executions'],
     [(RW.lw, None, ['|waker']), (RW.lw_owner, None), (RW.lw_cancel, None), (RW.lw_register, None, ['SchedulerFuture']), (RO.c07_signal, None), (RO.c07_own, None), (RO.c07_syncwait, None), (RP.tr_defer, None, ['SchedulerFuture::poll']), (RP.park_wake, None), (RO.c06_drain, None, ['drain_queue', 'DW-table', 'DoubleWaker']), (RP.tok_exec, None), (RP.tok_leak, None, ['SchedulerFuture']), (RL.bl, None), (RQ.qd_run, None, ['FutureJob', 'UnsafeJob::run']), (RO.free_delegates, None, ['future_desync|', 'FutureId']), (RU.ua_leak, None), (RE.eo, None, ['^SchedulerFuture', '^<SchedulerFuture', '^Desync::future_desync', '^<Desync::future_desync', '^future_desync', '^<future_desync', '^FutureJob::', '^<FutureJob::']), (RP.tr_base, None, ['^SchedulerFuture', '^<SchedulerFuture', '^SchedulerCore::next_to_run', '^<SchedulerCore::next_to_run'])] + G_POOL + G_CORE)

prop('C08', COMMON +
     'Decided (ORD-C08): the two oneshot channels of future_sync are split so that the slot job holds the queue-ready sender and the task-finished receiver and the SyncFuture the opposite ends; the slot job announces, waits, then signals, also when cancelled; '
     'SyncFuture::poll creates the user future only on the Ready(Ok) edge of queue-ready, polls it only in its own arm, sends task-finished only after it completed (or on cancel), returns Ok only after the slot job finished; '
     'SyncFuture drops the user future before the completion sender and has no Drop impl; the slot is reserved at call time (ORD-C02-append).',
     ['channel pairing, slot job order, SyncFuture state order, field drop order (ORD-C08)', 'slot reserved at call time (ORD-C02-append)', 'signal after completion, once (ORD-C07-signal)', 'the cancel wake-up reaches the queue even when it is being drained by a polling task (ORD-C06-drain, PARK-wake)'],
     ['deadlock-freedom of nested awaits as executions', 'that a mid-operation drop happens "before any later operation begins" follows from drop order + slot job order but is a statement about executions'],
     [(RO.c08, None), (RO.c02_append, None), (RO.c07_signal, None), (RO.c06_drain, None, ['drain_queue', 'DW-table', 'DoubleWaker']), (RP.park_wake, None), (RL.bl, None), (RO.free_delegates, None, ['future_sync|']), (RU.ua_leak, None), (RE.eo, None, ['^SyncFuture', '^<SyncFuture', '^Scheduler::future_sync', '^<Scheduler::future_sync', '^Desync::future_sync', '^<Desync::future_sync', '^future_sync', '^<future_sync'])] + G_EXCL + G_POOL + G_CORE)

prop('C09', COMMON +
     'Decided: a Busy outcome of try_sync has written nothing (every path to Err(Busy) leaves the token untouched: TOK-leak); try_sync never reaches a blocking primitive except the bounded join of finished threads (ORD-C09-noblock); '
     'it runs its closure only from (Idle, queue empty), exactly like sync\'s immediate row (TR-immediate, TR-sibling); after the immediate run the queue goes Idle and is rescheduled (TOK-resched); no running state without a runner is reachable (PA-stuck).',
     ['Busy has written nothing (TOK-leak on try_sync)', 'never blocks (ORD-C09-noblock)', 'immediate only on Idle and empty (TR-immediate, TR-sibling)', 'Idle then reschedule_queue after the run (TOK-resched)', 'no ownerless running state (PA-stuck)', 'a closure that panics in the immediate run leaves the queue Panicked, not Running for ever (TOK-guard); releases go to Idle, never to a parked state or to Panicked (TR-roles, TR-dead)'],
     ['"succeeds once quiescent" as a statement about time'],
     [(RP.tok_leak, None), (RO.c09_noblock, None), (RP.tr_immediate, None), (RP.tr_sibling, None, ['try_sync']), (RP.tok_resched, None), (RP.pa_rules, {'PA-stuck', 'PA'}), (RP.tok_exec, None), (RP.tr_roles, None), (RP.tr_dead, None), (RG.tok_guard, None), (RO.free_delegates, None, ['try_sync|']), (RL.try_rule, None), (RE.eo, None, ['^Scheduler::try_sync', '^<Scheduler::try_sync', '^Scheduler::sync_immediate', '^<Scheduler::sync_immediate', '^try_sync', '^<try_sync']), (RP.tr_base, None, ['^Scheduler::try_sync', '^<Scheduler::try_sync', '^Scheduler::sync_immediate', '^<Scheduler::sync_immediate'])] + G_CORE)

prop('C10', COMMON +
     'Decided: no scheduler-wide lock is held at any job-execution or blocking site (BL); the lock-order graph is acyclic (LO); a ready queue goes to a dormant thread or to a newly spawned one below the maximum, then scheduling is retried (ORD-C10-spawn); '
     'pool threads keep pulling until the schedule is empty (ORD-C10-fetch) and the dormant handshake cannot misread a transient lock hold (ORD-C03-dormant, TRY).',
     ['no scheduler-wide lock held while a job runs or a thread blocks (BL)', 'lock order acyclic (LO)', 'dormant else spawn then retry (ORD-C10-spawn)', 'raising the maximum schedules until nothing more can be scheduled (ORD-C10-raise)', 'fetch loop and dormant handshake (ORD-C10-fetch, ORD-C03-dormant, TRY)', 'dead threads are reaped before the table is searched or counted, so `len < max` counts live threads (ORD-C15-reap)'],
     ['actual parallel progress (liveness); the claim is limited to these structural conditions'],
     [(RL.bl, None), (RL.lo, None), (RO.c10_spawn, None), (RO.c10_fetch, None), (RO.c10_thread, None), (RQ.qd_schedule, None), (RO.c10_raise, None), (RO.c03_dormant, None), (RL.try_rule, None), (RL.lock_classes, None), (RG.c15_reap, None), (RE.eo, None, ['^SchedulerCore::schedule_', '^<SchedulerCore::schedule_', '^SchedulerCore::remove_finished_threads', '^<SchedulerCore::remove_finished_threads', '^SchedulerThread::', '^<SchedulerThread::'])] + G_CORE)

prop('C11', COMMON +
     'Decided (ORD-C11): the pipe\'s poll function only runs inside a future_desync job of the target; in pipe_in each Ready(Some(item)) is handed to the processing function and awaited to completion before the next poll, Pending keeps the pipe with the pipe\'s own waker, '
     'end of stream ends it and releases the poll function; the context holds only a Weak target and no closure captures a strong reference (ORD-C05-weak); no guard across awaits, no foreign code under internal locks (AW, BL).',
     ['processing only inside a job of the target; one item at a time, in order (ORD-C11)', 'weak reference only; release on end/dead target (ORD-C05-weak, ORD-C11)', 'no guard across await; no user code under internal locks (AW, BL)'],
     ['arrival patterns and drop points as executions', 'every wake leads to one poll job is derived from the C03 rules + PipeWaker taking its context once'],
     [(RO.c11, None), (RO.c11_sleep, None), (RO.c11_slot, None), (RO.c05_weak, None), (RO.rs_strength, None, ['PipeWaker']), (RL.aw, None), (RL.bl, None), (RO.c08, None, ['result-after-scheduler'])] + G_EXCL + G_ORDER + G_CORE)

prop('C12', COMMON +
     'Decided: consumer and back-pressure handshakes register/notify atomically (LW1, LW2 on notify and backpressure_release_notify) and a waker found in a slot is a live registration (LW5: notifiers remove the waker they wake, or registrations overwrite); the output buffer is appended by the producer only and taken from the front by the consumer only (QD-pending); '
     'exactly one push per processed item after its future completed, closed only at end of input, end reported only when empty and closed (ORD-C12); wakers are woken outside the lock, no guard lives across an await (BL, AW).',
     ['consumer and back-pressure handshakes (LW1, LW2, LW5)', 'buffer discipline (QD-pending)', 'one output per input, in order, then end (ORD-C12)', 'wakes outside the lock, no guard across await (BL, AW)'],
     ['"for every buffer depth and interleaving" as executions', "depth 0 is outside the property's range"],
     [(RW.lw, None, ['|notify#', '|notify<-', '^notify|registration', 'backpressure_release_notify', 'floor:notify:', 'floor:backpressure']), (RW.lw_register, None, ['PipeStream']), (RQ.qd_pending, None), (RO.c12, None), (RO.c11_sleep, None, ['pipe|']), (RO.c11_slot, None, ['pipe|']), (RO.c11, None, ['PipeWaker']), (RO.rs_strength, None, ['PipeWaker']), (RL.bl, None), (RL.aw, None), (RE.eo, None, ['^PipeStream', '^<PipeStream', '^PipeContext', '^<PipeContext'])] + G_CORE)

prop('C13', COMMON +
     'Decided (ORD-C13): the resumer\'s sender and the future the suspending job waits on are the two ends of one channel, the resumer is handed out inside the job before waiting, the suspension is an ordinary future_desync job (so every token and ordering rule applies to it), '
     'QueueResumer has no Drop impl and resume consumes it. "Later work waits, then continues in order" is derived from the C01/C02/C06 rules for a job that stays Pending (TOK-requeue, QD-queue, PARK-wake).',
     ['suspend job shape (ORD-C13)', 'a Pending job keeps the queue and is resumed by its waker (TOK-requeue, QD-queue, PARK-wake)', 'sync callers that pile up behind a suspension each stay registered for the wake-up (QD-waiters)'],
     ['all dynamic content: this is the thinnest claim; order of held operations after resumption is derived, not separately decided'],
     [(RO.c13, None), (RP.park_wake, None), (RQ.qd_wake_blocked, None), (RU.ua_leak, None), (RE.eo, None, ['^Scheduler::suspend', '^<Scheduler::suspend', '^Scheduler::sync_background', '^<Scheduler::sync_background', '^SchedulerCore::reschedule_queue', '^<SchedulerCore::reschedule_queue']), (RP.tr_base, None, ['^JobQueue::drain', '^<JobQueue::drain', '^WakeQueue', '^<WakeQueue', '^WakeThread', '^<WakeThread', '^SchedulerCore::reschedule_queue', '^<SchedulerCore::reschedule_queue', '^Scheduler::sync', '^<Scheduler::sync'])] + G_ORDER + G_POOL + G_CORE)

prop('C14', COMMON +
     'Decided: the four lifetime-erasure obligations — a sync caller does not return before its lifetime-erased job has been run and dropped (UA-wait), the payload pointer is dereferenced only inside jobs of the object\'s own queue (UA-confine), '
     'the value is freed only in Desync::drop\'s final job and cannot be duplicated (UA-free, ORD-C05-drop), which cannot overtake queued work (TR-immediate); the bounds fencing the unsafe impls and every public signature are present (UA-bounds); '
     'every unsafe operation is of an audited kind (UA-sites). Thorough tier adds compile-fail witnesses with compiling twins (W).',
     ['sync waits for its erased job (UA-wait)', 'pointer confined to jobs of the own queue (UA-confine)', 'the future built from &mut T in future_sync is destroyed before the slot is released (UA-borrow)', 'freed once, in the final job, ordered last (UA-free, ORD-C05-drop, TR-immediate)', 'Send/\'static bounds (UA-bounds, W)', 'unsafe sites enumerated (UA-sites)', 'a queue whose runner unwound may still hold lifetime-erased jobs pointing into the unwound frame: it is marked Panicked (TOK-guard) and never run again (TR-dead, ORD-C15-refuse)'],
     ['memory safety of executions as such', 'soundness of `Desync: Sync` rests on exclusion and on drop being ordered last: the C01/C02 rules are run as part of this check, their undecided clauses remain undecided here'],
     [(RU.ua_wait, None), (RU.ua_confine, None), (RU.ua_borrow, None), (RU.ua_free, None), (RU.ua_leak, None), (RO.c05_drop, None), (RO.c08, None, ['drop-order']), (RU.ua_bounds, None), (RU.ua_sites, None), (RP.tr_dead, None), (RG.c15_refuse, None), (RG.tok_guard, None)] + G_EXCL + G_ORDER + G_CORE)

prop('C15', COMMON +
     'Decided: an ActiveQueue guard is live in some frame of every call path to every execution site, so unwinding marks the queue (TOK-guard); its Drop marks only while panicking (AQ-drop); nothing leaves Panicked (TR-dead); '
     'every scheduling entry point refuses a Panicked queue by panicking, sync_no_panic reports it, Desync::drop uses it while unwinding (ORD-C15-refuse); finished pool threads are reaped before a dormant one is looked for (ORD-C15-reap) and '
     'nothing on the pool-thread path catches the unwind (ORD-C15-unwind); no user code runs under a scheduler mutex, so a panic cannot poison one (BL).',
     ['guard covers every execution site (TOK-guard, AQ-drop)', 'nothing leaves Panicked (TR-dead)', 'entry points refuse a panicked queue (ORD-C15-refuse)', 'dead threads reaped and replaced (ORD-C15-reap, ORD-C15-unwind)', 'no user code under scheduler locks (BL)', 'the guard takes the queue lock unconditionally (TRY: no try_lock on internal locks)'],
     ['"other objects remain fully usable" as executions'],
     [(RG.tok_guard, None), (RG.aq_drop, None), (RP.tr_dead, None), (RG.c15_refuse, None), (RG.c15_reap, None), (RO.c15_unwind, None), (RL.bl, None), (RL.try_rule, None), (RP.tr_base, None, ['^ActiveQueue', '^<ActiveQueue', '^Scheduler::sync_no_panic', '^<Scheduler::sync_no_panic'])] + G_CORE)

prop('C16', COMMON +
     'Decided: the producer registers notify_stream_closed only after re-reading `closed` in the same critical section, and PipeStream::drop sets `closed` and takes+wakes the slot in one critical section (LW1, LW2); '
     'the waker woken under the lock is the pipe\'s own (LW-prov), lock order stays acyclic (LO); the producer stops on closed / dead core, the only strong reference to the Desync sits in on_drop, which runs on the disposal queue (ORD-C16); '
     'a finished pipe releases its poll function (ORD-C11).',
     ['closed re-read before registering; drop sets closed and wakes in one section (LW1, LW2)', 'provenance of the waker woken under the lock (LW-prov, LO)', 'producer stops, references released (ORD-C16, ORD-C11)'],
     ['drop positions as executions'],
     [(RW.lw, None, ['notify_stream_closed']), (RW.lw_prov, None), (RL.lo, None), (RO.c16, None), (RO.c11, None), (RE.eo, None, ['^PipeStream', '^<PipeStream', '^PipeContext', '^<PipeContext'])] + G_CORE)

prop('C17', COMMON +
     'Decided (ORD-C17): every in-crate path that adds a pool thread tests `threads.len() < max` and pushes inside one critical section of the threads lock; the unconditional Scheduler::spawn_thread has no in-crate caller; '
     'OS threads are created in one place, called only from those functions; despawn pops while len > max under the lock and joins outside it (BL).',
     ['spawn only under `len < max` in one critical section (ORD-C17)', 'single creation site; despawn shape (ORD-C17)', 'join outside the lock (BL)'],
     ["maximum changes racing with spawns (excluded by the property's own quantifier)"],
     [(RO.c17, None), (RL.bl, None), (RO.c10_spawn, None), (RM.must, None, ['thread-created-is-registered', 'joins-what-it-removed']), (RE.eo, None, ['^Scheduler::despawn_threads_if_overloaded', '^<Scheduler::despawn_threads_if_overloaded', '^SchedulerCore::remove_finished_threads', '^<SchedulerCore::remove_finished_threads'])])
