"""Thorough tier: self-validation of the checkers on the mutant corpus (+ witnesses for the type-level clauses).

Each mutant is a small realistic edit that compiles.  The property's rules must report it, naming the expected rule.
A mutant whose patch no longer applies to the tree under analysis is *skipped* (the tree may have been edited; that is not a
violation).  A checker that stops firing on its own mutant is CHECKER-BROKEN (exit 2): my bug, not a property violation.
"""
import json
import os

from . import extract, props, scratch
from .ctx import Ctx
from .rule import VIOLATION

VERIF = os.path.dirname(os.path.dirname(os.path.abspath(__file__)))
MUT = os.path.join(VERIF, 'mutants')


def load_index():
    with open(os.path.join(MUT, 'index.json')) as f:
        return json.load(f)


def run_mutant(m, repo, pids, want=('violation',)):
    """-> {'status': 'fired'|'missed'|'skipped'|'build-failed', per property results}"""
    d, tree = scratch.make_copy(repo)
    try:
        okp, msg = scratch.apply_patch(tree, os.path.join(MUT, m['patch']))
        if not okp:
            return {'status': 'skipped', 'why': 'patch does not apply to this tree'}
        try:
            facts, info = extract.extract(tree, 'dev')
        except extract.ExtractError as e:
            return {'status': 'build-failed', 'why': str(e)[:300]}
        ctx = Ctx(facts, info)
        res = {}
        for pid in pids:
            insts = props.evaluate(pid, ctx)
            v = [i for i in insts if i.verdict in want]
            res[pid] = [{'rule': i.rule, 'key': i.key, 'verdict': i.verdict} for i in v]
        return {'status': 'ran', 'violations': res}
    finally:
        scratch.remove(d)


def run(pid, repo, seed):
    idx = load_index()
    lines = []
    code = 0
    fired, skipped, missed = [], [], []
    for m in idx['mutants']:
        exp = m['expect'].get(pid)
        if not exp:
            continue
        r = run_mutant(m, repo, [pid])
        if r['status'] in ('skipped', 'build-failed'):
            skipped.append({'mutant': m['name'], 'why': r['why']})
            continue
        got = r['violations'][pid]
        hit = [g for g in got if g['rule'] in exp['rules'] and (not exp.get('key') or exp['key'] in g['key'])]
        if hit:
            fired.append({'mutant': m['name'], 'reported': hit[:3]})
        else:
            missed.append({'mutant': m['name'], 'expected': exp, 'got': got[:5]})
            lines.append('CHECKER-BROKEN property=%s mutant=%s expected one of %s, got %s' % (pid, m['name'], exp['rules'], got[:3]))
            code = 2
    extra = {'mutants': {'fired': fired, 'skipped': skipped, 'missed': missed, 'total_for_property': len(fired) + len(skipped) + len(missed)}}
    # witnesses
    from . import witness
    w = witness.run(pid, repo)
    if w is not None:
        extra['witnesses'] = w['evidence']
        lines += w['lines']
        code = max(code, w['code']) if code != 1 else 1
        if w['code'] == 1:
            code = 1
    return extra, lines, code
