"""C15 rules: the ActiveQueue guard covers every execution site (TOK-guard), its Drop marks the queue only while
panicking (AQ-drop), entry points refuse a panicked queue (ORD-C15-refuse), finished pool threads are reaped (ORD-C15-reap)."""
from collections import defaultdict

from .facts import render, short, clean_ty
from .locks import Held, lock_sites
from .proto import ACTIVE_QUEUE
from .rule import ok, bad, undecided
from .rules_locks import cg
from .ordq import edom
from .rules_proto import events_of, SYNC, SYNC_NP, TRY_SYNC, POLL

SCHED_JOB_DESYNC = 'desync::Scheduler::schedule_job_desync'
AQ_DROP = '<%s as core::ops::drop::Drop>::drop' % ACTIVE_QUEUE
DESYNC_DROP = '<desync::Desync as core::ops::drop::Drop>::drop'
SCHEDULE_DORMANT = 'desync::SchedulerCore::schedule_dormant'
REMOVE_FINISHED = 'desync::SchedulerCore::remove_finished_threads'


def _aq_locals(fn):
    return {i: 'ActiveQueue' for i, l in enumerate(fn.locals) if clean_ty(l['ty']).startswith(ACTIVE_QUEUE) }


def guarded_here(ctx, fn, bb):
    """Is an ActiveQueue guard certainly live in fn when block bb's terminator executes?"""
    tracked = _aq_locals(fn)
    if not tracked:
        return None
    live = Held(fn, tracked)
    dom = fn.dominators()
    for l in tracked:
        if l not in live.at_term.get(bb, frozenset()):
            continue
        for d in fn.defs().get(l, []):
            dbb = d[1]
            if dbb in dom.get(bb, set()):
                # unwinding from the call must pass the guard's Drop
                t = fn.blocks[bb]['term']
                u = t.get('unwind')
                if isinstance(u, int):
                    seen, st = set(), [u]
                    while st:
                        x = st.pop()
                        if x in seen:
                            continue
                        seen.add(x)
                        tx = fn.blocks[x]['term']
                        if tx and tx['k'] == 'drop' and not tx['pl']['p'] and tx['pl']['l'] == l:
                            return '%s holds a live ActiveQueue (dropped on the unwind path)' % short(fn.name)
                        st.extend(fn.succs(x, unwind=True))
                    return None
                return '%s holds a live ActiveQueue' % short(fn.name)
    return None


def tok_guard(ctx):
    """At every execution site some frame on every call path holds a live ActiveQueue, so a panicking job marks the queue Panicked."""
    P = ctx.proto
    g = cg(ctx)
    F = ctx.F
    out = []
    # callers index: callee -> [(caller fn, site)]
    callers = defaultdict(list)
    for fname, sites in g.sites.items():
        for s in sites:
            if s.kind in ('static', 'param', 'hof'):
                for c in s.targets:
                    callers[c].append((F.fn(fname), s))
    n = 0
    for fn, bb, kind in P.exec_sites:
        n += 1
        key = '%s|%s' % (short(fn.name), kind)
        # search upwards for an unguarded path to a root
        bad_path = None
        good = []
        stack = [(fn, bb, [short(fn.name)])]
        seen = set()
        while stack and bad_path is None:
            f, b, path = stack.pop()
            if (f.name, b) in seen:
                continue
            seen.add((f.name, b))
            r = guarded_here(ctx, f, b)
            if r:
                good.append(r)
                continue
            cs = callers.get(f.name, [])
            if not cs:
                bad_path = path
                break
            for (cf, s) in cs:
                stack.append((cf, s.bb, path + [short(cf.name)]))
        if bad_path:
            out.append(bad('TOK-guard', key, 'jobs run here with no ActiveQueue in any frame of the call path %s: a panicking job leaves the queue marked Running instead of Panicked' % ' <- '.join(bad_path), loc=fn.loc(bb), fn=fn.name))
        else:
            out.append(ok('TOK-guard', key, '; '.join(sorted(set(good))), loc=fn.loc(bb), fn=fn.name))
    if n < 4:
        out.append(undecided('TOK-guard', 'floor', 'found %d execution sites, expected at least 4' % n))
    # guards are only created by a runner that holds the queue
    for fname, _, snaps in events_of(P, 'guard_new'):
        key = 'new:%s' % short(fname)
        if snaps - {'H'}:
            out.append(bad('TOK-guard', key, 'ActiveQueue created without holding the queue (token state %s): its Drop may mark a queue somebody else runs as Panicked' % sorted(snaps), fn=fname))
        else:
            out.append(ok('TOK-guard', key, 'created while holding the queue', fn=fname))
    return out


def aq_drop(ctx):
    """ActiveQueue::drop writes Panicked, and only on the thread::panicking() edge."""
    F = ctx.F
    fn = F.fn(AQ_DROP)
    out = []
    if not fn:
        return [undecided('AQ-drop', 'anchor', 'impl Drop for ActiveQueue not found')]
    P = ctx.proto
    from .rules_proto import _problems
    out = _problems(ctx, 'AQ-drop')
    writes = set()
    for fname, _, snaps in events_of(P, 'write'):
        if fname.startswith(AQ_DROP):
            writes |= set((s, s2) for (s, s2, role) in snaps)
    if not writes or any(s2 != 'Panicked' for (_, s2) in writes):
        out.append(bad('AQ-drop', 'writes', 'ActiveQueue::drop must move the queue to Panicked and nothing else; extracted: %s' % sorted(writes), fn=fn.name))
    else:
        out.append(ok('AQ-drop', 'writes', 'moves %s to Panicked' % sorted(s for s, _ in writes), fn=fn.name))
    # ... from every state the queue can be in while its owner runs a job (a waker may have moved Running to AwokenWhileRunning meanwhile)
    during = set()
    for fname, _, snaps in events_of(P, 'exec_P'):
        for ps in snaps:
            during |= set(ps)
    if not during:
        out.append(undecided('AQ-drop', 'covers-all-owned-states', 'no execution site with a known owner state'))
    else:
        missing = sorted(s for s in during if (s, 'Panicked') not in writes)
        if missing:
            out.append(bad('AQ-drop', 'covers-all-owned-states', 'a job can panic while the queue is %s (a wake-up during the run), and ActiveQueue::drop does not mark such a queue Panicked: '
                           'the queue is left in an owned state with no owner, and later operations on the object are accepted and never run' % ', '.join(missing), fn=fn.name))
        else:
            out.append(ok('AQ-drop', 'covers-all-owned-states', 'marks the queue from each state it can be in while a job runs (%s)' % ', '.join(sorted(during)), fn=fn.name))
    # the marking is dominated by the true edge of thread::panicking()
    from .ordq import result_edges
    from .rules_lw import FieldUse
    from .proto import JQC
    pan_true = None
    for bb, t in fn.calls():
        if (t['func'].get('fn') or '').endswith('::panicking'):
            e = result_edges(fn, bb)
            if e:
                pan_true = e.get('otherwise')
    # where the queue is marked: writes of the state in this function, or calls handing the guard to a closure that writes it
    mark_blocks = [bb for (bb, i, v) in FieldUse(fn, JQC).assigns.get('state', [])]
    for bb, t in fn.calls():
        for a in t['args']:
            if a['k'] in ('move', 'copy') and AQ_DROP + '::{closure' in clean_ty(a['pl']['ty']):
                mark_blocks.append(bb)
    if pan_true is None or not mark_blocks:
        out.append(undecided('AQ-drop', 'panicking-edge', 'shape not recognised (no thread::panicking() test or no marking site)', fn=fn.name))
    elif all(edom(fn, pan_true, b) for b in mark_blocks):
        out.append(ok('AQ-drop', 'panicking-edge', 'the queue is marked only when thread::panicking()', fn=fn.name))
    else:
        out.append(bad('AQ-drop', 'panicking-edge', 'ActiveQueue::drop marks the queue Panicked on a path where the thread is not panicking', fn=fn.name))
    return out


def c15_refuse(ctx):
    """Every scheduling entry point refuses a Panicked queue by panicking; sync_no_panic reports it; Desync::drop uses sync_no_panic while unwinding."""
    P = ctx.proto
    F = ctx.F
    out = []
    exits = defaultdict(set)
    for fname, _, snaps in events_of(P, 'exit_pan'):
        exits[fname] |= snaps
    panics = defaultdict(set)
    for fname, _, snaps in events_of(P, 'panic'):
        panics[fname] |= snaps
    for fname, nice in ((SCHED_JOB_DESYNC, 'schedule_job_desync'), (SYNC, 'sync'), (TRY_SYNC, 'try_sync'), (POLL, 'SchedulerFuture::poll')):
        if not F.fn(fname):
            out.append(undecided('ORD-C15-refuse', nice, 'anchor not found'))
            continue
        returned = [r for (pan, r) in exits.get(fname, set()) if pan]
        if returned:
            out.append(bad('ORD-C15-refuse', nice, 'a path that saw the queue Panicked returns normally (result %s) instead of panicking' % sorted(map(repr, returned)), fn=fname))
        elif 1 not in panics.get(fname, set()):
            out.append(bad('ORD-C15-refuse', nice, 'no path that saw the queue Panicked reaches a panic', fn=fname))
        else:
            out.append(ok('ORD-C15-refuse', nice, 'every path that saw Panicked ends in a panic', fn=fname))
    # sync_no_panic: returns (true) without panicking
    if not F.fn(SYNC_NP):
        out.append(undecided('ORD-C15-refuse', 'sync_no_panic', 'anchor not found'))
    else:
        rets = set(r for (pan, r) in exits.get(SYNC_NP, set()) if pan)
        other = set(r for (pan, r) in exits.get(SYNC_NP, set()) if not pan)
        if 1 in panics.get(SYNC_NP, set()):
            out.append(bad('ORD-C15-refuse', 'sync_no_panic', 'sync_no_panic panics on a panicked queue (it exists to avoid a double panic during unwinding)', fn=SYNC_NP))
        elif not rets or (rets & other):
            out.append(bad('ORD-C15-refuse', 'sync_no_panic', 'result on a panicked queue (%s) is not distinguishable from the normal result (%s)' % (sorted(map(repr, rets)), sorted(map(repr, other))), fn=SYNC_NP))
        else:
            out.append(ok('ORD-C15-refuse', 'sync_no_panic', 'reports a panicked queue as %s without panicking' % sorted(map(repr, rets)), fn=SYNC_NP))
    # Desync::drop
    fn = F.fn(DESYNC_DROP)
    if not fn:
        out.append(undecided('ORD-C15-refuse', 'Desync::drop', 'anchor not found'))
    else:
        dom = fn.dominators()
        pan_true = pan_false = None
        for bb, t in fn.calls():
            if (t['func'].get('fn') or '').endswith('::panicking'):
                sw = fn.blocks[t['target']]['term'] if t['target'] is not None else None
                if sw and sw['k'] == 'switch':
                    pan_true = sw['otherwise']
                    pan_false = [b for v, b in sw['targets'] if v == '0'][0] if [b for v, b in sw['targets'] if v == '0'] else None
        np_calls = [bb for bb, t in fn.calls() if (t['func'].get('fn') or '').endswith('Scheduler::sync_no_panic')]
        sync_calls = [bb for bb, t in fn.calls() if (t['func'].get('fn') or '') in ('desync::sync', SYNC)]
        if pan_true is None or not np_calls or not sync_calls:
            out.append(bad('ORD-C15-refuse', 'Desync::drop', 'Desync::drop no longer chooses between sync and sync_no_panic on thread::panicking()', fn=fn.name))
        elif all(edom(fn, pan_true, b) for b in np_calls) and all(edom(fn, pan_false, b) for b in sync_calls):
            out.append(ok('ORD-C15-refuse', 'Desync::drop', 'sync_no_panic on the panicking edge, sync otherwise', fn=fn.name))
        else:
            out.append(bad('ORD-C15-refuse', 'Desync::drop', 'the panicking edge of Desync::drop can reach the panicking variant of sync (double panic aborts the process)', fn=fn.name))
    return out


def c15_reap(ctx):
    """Finished (panicked) pool threads are removed before a dormant thread is looked for: removal under the threads lock, join outside it."""
    F = ctx.F
    out = []
    sd = F.fn(SCHEDULE_DORMANT)
    rf = F.fn(REMOVE_FINISHED)
    if not sd or not rf:
        return [undecided('ORD-C15-reap', 'anchor', 'schedule_dormant / remove_finished_threads not found')]
    # Dead threads leave the table before the table is measured against the maximum: on the paths of one scheduling request (schedule_thread
    # with schedule_dormant and spawn_thread_if_less_than_maximum inlined, dsa/poolview.py) every way to the room test passes the reaping.
    # Where in that request the reaping sits - first thing, or only once no dormant thread was found - does not matter: a finished thread
    # died with its busy flag set and is never mistaken for a dormant one.
    from .poolview import pool_view
    pv = pool_view(ctx)
    key = 'schedule_dormant|reap-first'
    if not pv.ok:
        out.append(undecided('ORD-C15-reap', key, pv.why))
    elif not pv.reaps:
        out.append(bad('ORD-C15-reap', key, 'a scheduling request no longer calls remove_finished_threads: a panicked pool thread keeps its slot for ever', fn=sd.name))
    elif not pv.counts:
        out.append(undecided('ORD-C15-reap', key, 'the comparison of the thread table with the maximum was not found on the paths of a scheduling request'))
    elif all(pv.always_between(0, {c}, pv.reaps) for c in pv.counts):
        out.append(ok('ORD-C15-reap', key, 'every path of a scheduling request to the room test passes remove_finished_threads (%s)' % pv.where(), fn=sd.name))
    else:
        out.append(bad('ORD-C15-reap', key, 'a scheduling request can compare the thread table with the maximum before the finished threads were taken out of it: '
                       'a pool whose threads were killed by panicking jobs looks full, nothing is spawned and the request is dropped', fn=sd.name))
    # what "finished" means: the OS thread has exited, however it exited.  A flag the thread body sets after its loop is never set by a
    # thread that a panicking job killed - exactly the threads this function exists for
    isf = F.fn('desync::SchedulerThread::is_finished')
    keyf = 'SchedulerThread::is_finished|reports-thread-exit'
    if not isf:
        out.append(undecided('ORD-C15-reap', keyf, 'SchedulerThread::is_finished not found'))
    else:
        jh = [bb for bb, t in isf.calls() if (t['func'].get('fn') or '').endswith('JoinHandle::is_finished')]
        ret = render(isf.expr_of_local(0))
        if jh and 'is_finished(' in ret:
            out.append(ok('ORD-C15-reap', keyf, 'is_finished() is JoinHandle::is_finished() of the pool thread', fn=isf.name))
        else:
            # a hand-made flag is acceptable only if it is set by a destructor (which also runs while unwinding)
            in_drop = any(f_.name.startswith('<') and ' as core::ops::drop::Drop>::drop' in f_.name and any((t['func'].get('fn') or '').endswith(('AtomicBool::store', 'AtomicBool::swap')) for _, t in f_.calls()) for f_ in F.crate_fns())
            if in_drop:
                out.append(undecided('ORD-C15-reap', keyf, 'is_finished() reads a hand-made flag that a destructor sets: not decided whether that destructor runs on the pool thread\'s unwinding path'))
            else:
                out.append(bad('ORD-C15-reap', keyf, 'is_finished() no longer reports the exit of the OS thread (JoinHandle::is_finished) but a flag set on the normal exit path (%s): a thread killed by a panicking job is never seen as finished, never reaped and never replaced' % ret[:80], fn=isf.name))
    # in remove_finished_threads: finished handles are taken out of the table under the threads lock; they are joined outside the lock
    from .rules_locks import bounded_join
    REMOVAL = ('::Vec::remove', '::Vec::swap_remove', '::Vec::drain', '::Vec::retain', '::Vec::retain_mut', '::Vec::extract_if', '::Vec::pop', '::Vec::split_off')
    from .rules_locks import cg
    reach = cg(ctx).reachable(rf.name)
    body = [rf] + [c for c in F.crate_fns() if c is not rf and (c.name in reach or (c.is_closure and c.root == rf.name))]
    removes = [(f, bb) for f in body for bb, t in f.calls() if (t['func'].get('fn') or '').endswith(REMOVAL)]
    joins = [(f, bb) for f in body for bb, t in f.calls() if (t['func'].get('fn') or '').endswith('JoinHandle::join')]
    fin = [(f, bb) for f in body for bb, t in f.calls() if (t['func'].get('fn') or '').endswith('::is_finished')]
    key = 'remove_finished_threads|shape'
    if not joins or not fin:
        out.append(bad('ORD-C15-reap', key, 'remove_finished_threads no longer tests is_finished / joins (found %d/%d)' % (len(fin), len(joins)), fn=rf.name))
    elif not removes:
        # the dead thread's handle is swapped out of its slot while the slot itself - and its busy flag - stays in the table
        swaps = [(f, bb, clean_ty(t['args'][0]['pl']['ty'])) for f in body for bb, t in f.calls()
                 if (t['func'].get('fn') or '') in ('core::mem::replace', 'core::mem::swap', 'core::mem::take') and t['args'] and t['args'][0]['k'] != 'const']
        slot_only = [x for x in swaps if x[2].replace('&mut ', '') == 'desync::SchedulerThread']
        if slot_only:
            out.append(bad('ORD-C15-reap', key + '|slot-leaves-with-its-flag', 'a finished thread is swapped out of its slot but the slot keeps its busy flag: a thread killed by a panicking job dies with the flag '
                           'set (only its own work loop clears it), so the replacement sitting behind that flag is never chosen by schedule_dormant and still counts towards the maximum - every panic costs the pool a thread for good',
                           loc=slot_only[0][0].loc(slot_only[0][1]), fn=rf.name))
        else:
            out.append(undecided('ORD-C15-reap', key, 'finished threads are tested and joined, but how they leave the thread table is not a recognised Vec operation'))
    elif any(f is not rf for f, bb in removes + joins):
        out.append(undecided('ORD-C15-reap', key, 'removal or join happens inside a closure: lock context not decided'))
    else:
        H = ctx.held(rf)
        # an indexed removal is preceded, in the same loop turn, by `index < len()` on the table: indices collected earlier go stale with
        # the first removal (and Vec::remove panics under the scheduler-wide threads lock)
        idx_removes = [b for f, b in removes if (rf.blocks[b]['term']['func'].get('fn') or '').endswith(('::Vec::remove', '::Vec::swap_remove'))]
        cmps = []
        for b2, blk in enumerate(rf.blocks):
            tt = blk['term']
            if tt and tt['k'] == 'switch' and not blk['cleanup']:
                for s_ in blk['stmts']:
                    if s_['k'] == 'assign' and s_['rv']['k'] == 'binop' and s_['rv']['op'] in ('Lt', 'Gt', 'Le', 'Ge') and 'len(' in (render(rf.expr_of_operand(s_['rv']['a'])) + render(rf.expr_of_operand(s_['rv']['b']))):
                        cmps.append(b2)
        stale = [b for b in idx_removes if rf.blocks[b]['term']['target'] is not None and not rf.must_pass(rf.blocks[b]['term']['target'], set(idx_removes), set(cmps))]
        # an index produced by a search of the table in the same turn (`position`) is as fresh as one guarded by `index < len()`
        searches = [b2 for b2, t2 in rf.calls() if (t2['func'].get('fn') or '').endswith(('::position', '::rposition')) and not rf.blocks[b2]['cleanup']]
        if idx_removes and not cmps and searches:
            stale = [b for b in idx_removes if rf.blocks[b]['term']['target'] is not None and not rf.must_pass(rf.blocks[b]['term']['target'], set(idx_removes), set(searches))]
            cmps = searches
        # the thread that was tested is the thread that is removed: no release of the table's lock between is_finished() and remove(index)
        from .rules_locks import _reach_avoiding
        relocked = False
        for b in idx_removes:
            for site in H.holds_at_term(b, 'SchedulerCore.threads'):
                if site[0] not in ('c', 'a'):
                    continue
                for fb, ft in rf.calls():
                    if (ft['func'].get('fn') or '').endswith('::is_finished') and site[1] != fb and _reach_avoiding(rf, fb, site[1], b) and _reach_avoiding(rf, site[1], b, fb):
                        relocked = True
        if relocked:
            out.append(bad('ORD-C15-reap', key + '|index-same-hold', 'the thread table is unlocked between the is_finished() test and remove(index): the index designates whatever thread sits there after the table was changed by somebody else (a live thread is removed and joined, or the removal panics under the scheduler-wide lock)', fn=rf.name))
        if idx_removes and (not cmps or stale):
            out.append(bad('ORD-C15-reap', key + '|index-fresh', 'a thread is removed from the table by an index that was computed before an earlier removal: with two finished threads in one pass the index is stale (wrong thread removed, or a panic while the threads lock is held, which poisons scheduling for every object)', fn=rf.name))
        # the "despawned while busy" sanity panic may only fire for a thread that exited cleanly: a thread killed by a panicking job dies
        # with its busy flag set, and a panic here unwinds through whatever healthy operation happened to trigger the reaping
        from .ordq import result_edges, edge_for, edom
        panics = [bb for bb, t in rf.calls() if (t['func'].get('fn') or '') in ('std::panicking::begin_panic', 'core::panicking::panic', 'core::panicking::panic_fmt')
                  and not rf.blocks[bb]['cleanup'] and 'assert' not in (t['sp'].get('mac') or '')]
        ok_edges = []
        for f_, jb in joins:
            if f_ is rf:
                e_ = result_edges(rf, jb)
                oe = edge_for(e_, 'core::result::Result', 'Ok') if e_ else None
                if oe is not None:
                    ok_edges.append(oe)
        loose = [b for b in panics if not any(edom(rf, oe, b) for oe in ok_edges)]
        # panics of `.expect()/.unwrap()` on lock results are calls into core, not sites of this function: only explicit panic! sites count
        if loose:
            out.append(bad('ORD-C15-reap', key + '|panic-only-after-clean-exit', 'remove_finished_threads can panic for a thread that did not exit cleanly (the panic is not confined to the Ok edge of join()): '
                           'after a job has killed a pool thread, the next scheduling call of any healthy object panics', fn=rf.name))
        okk = all('SchedulerCore.threads' in H.held_at_term(b) for f, b in removes) and all('SchedulerCore.threads' not in H.held_at_term(b) for f, b in joins)
        bj = all(bounded_join(ctx, rf, b) for f, b in joins)
        if okk and bj:
            out.append(ok('ORD-C15-reap', key, 'removes exactly the finished handles under the threads lock and joins them outside it', fn=rf.name))
        elif okk:
            # a join whose handle is not visibly guarded by is_finished: with removal driven by an iterator predicate the guard is in a closure
            if any(f is not rf for f, bb in fin):
                out.append(undecided('ORD-C15-reap', key, 'the is_finished test sits in a closure: that only finished handles are joined is not decided'))
            else:
                out.append(bad('ORD-C15-reap', key, 'a handle that is not finished can be joined', fn=rf.name))
        else:
            out.append(bad('ORD-C15-reap', key, 'removal not under the threads lock, or join under it', fn=rf.name))
    return out


def drop_base(ctx):
    """The destructors of the protocol's own types are the reviewed ones.  Handles of these types are embedded and cloned all over the
    crate (every SchedulerFuture carries a `Scheduler`, every waker an `Arc<JobQueue>`, every pipe poll a `PipeContext`), so a destructor
    added to one of them runs at every one of those places - on pool threads, under locks, inside jobs, during unwinding.  A new destructor
    that only touches its own data is harmless; one that takes the scheduler's locks, blocks, joins, or calls back into the protocol is
    reported with the call path that makes it so."""
    import os
    from .rules_locks import cg
    from .callgraph import BLOCKING
    from .locks import lock_sites
    from .flatten import known_fns
    from .newtypes import known_adts
    F = ctx.F
    out = []
    R = 'DROP-base'
    p = os.path.join(os.path.dirname(os.path.abspath(__file__)), 'known_drops.txt')
    if not os.path.exists(p):
        return [undecided(R, 'baseline', 'dsa/known_drops.txt is missing')]
    base = set(l.strip() for l in open(p) if l.strip())
    kadts = known_adts() or set()
    kfns = known_fns() or set()
    g = cg(ctx)
    n = 0
    for i in F.impls:
        if not (i.get('trait') or '').endswith('ops::drop::Drop'):
            continue
        head = i.get('self_head')
        n += 1
        key = '%s|destructor' % str(head).split('::')[-1]
        if head in base:
            out.append(ok(R, key, 'reviewed destructor'))
            continue
        if head not in kadts:
            continue        # a new type with its own destructor: the rules that meet the type speak about it
        dfn = F.fn('<%s as core::ops::drop::Drop>::drop' % head) or F.fn('%s::drop' % head)
        if not dfn:
            out.append(undecided(R, key, 'a destructor was added to %s but its body was not found' % head))
            continue
        why = None
        for fname in sorted(g.reachable(dfn.name)):
            f2 = F.fn(fname)
            if not f2:
                continue
            if fname != dfn.name and fname in kfns and not f2.is_closure:
                why = 'it calls %s' % short(fname)
                break
            if any(True for _ in lock_sites(f2)):
                why = 'it takes a lock (in %s)' % short(fname)
                break
            for bb, t in f2.calls():
                if (t['func'].get('fn') or '') in BLOCKING and not f2.blocks[bb]['cleanup']:
                    why = 'it can block (%s in %s)' % (BLOCKING[t['func']['fn']], short(fname))
                    break
            if why:
                break
        if why:
            out.append(bad(R, key, '%s gained a destructor and %s: values of this type are dropped wherever a handle goes out of scope - inside jobs, on pool threads, under the caller\'s locks, '
                           'while unwinding - so the scheduler\'s protocol now also runs at all of those points (a pool thread joining itself, a detach() that blocks, a lock taken out of order)' % (str(head).split('::')[-1], why), fn=dfn.name))
        else:
            out.append(ok(R, key, 'a new destructor that touches only its own data'))
    if n < len(base):
        out.append(undecided(R, 'floor', 'only %d destructors found, the reviewed set has %d' % (n, len(base))))
    return out
