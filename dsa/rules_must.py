"""MUST: actions that have to happen on *every* path, not only "in the right place".

Most ordering rules say where an action may occur (it is dominated by the edge that licenses it).  A change that keeps the action in its
place but makes it conditional (`if cond { action }`, `cond && action()`) satisfies all of those.  The rows below are the actions whose
omission on any path breaks a property; each is a must-pass-through obligation from the entry of the body (or from a named edge) to every
normal exit.  Rows were collected by making every single-line call statement of the crate conditional on an opaque test
(tools/mutscan.py --ops guard) and reading the ones no rule reported; each row was confirmed by reading the code.

A path is only counted if it is feasible under constant propagation (a helper that wraps the action in an always-true test stays silent).
"""
from .facts import short, clean_ty, render
from .ordq import calls, result_edges, edge_for, feasible_reach
from .rule import ok, bad, undecided
from .rules_locks import cg

R = 'MUST'
OPTION = 'core::option::Option'


def _children(ctx, root_name):
    return [f for f in ctx.F.crate_fns() if (f.root or f.name) == root_name and f.name != root_name]


def _always(fn, blocks, src=0):
    """every feasible normal path from src to a return passes one of `blocks`"""
    blocks = set(blocks)
    exits = set(fn.exits())
    if fn.must_pass(src, exits, blocks):
        return True
    return not feasible_reach(fn, src, exits, blocks)


def _site_rows(ctx):
    """(key, [functions], site predicate(fn) -> [blocks], floor, why)"""
    F = ctx.F
    g = cg(ctx)
    rows = []

    def fam(root):
        f = F.fn(root)
        return ([f] if f else []) + _children(ctx, root)

    def callsites(suffix, argty=None):
        def pred(fn):
            out = []
            suffixes = ('core::mem::swap', 'core::mem::replace', 'core::mem::take') if suffix == 'core::mem::swap' else (suffix,)
            for bb, t in [x for sf in suffixes for x in calls(fn, sf)]:
                if argty is None or (t['args'] and t['args'][0]['k'] != 'const' and argty in clean_ty(t['args'][0]['pl']['ty'])):
                    out.append(bb)
            return out
        return pred

    # the user's closure: once an operation has been accepted, the body that was queued for it calls the closure on every path
    def user_calls(fn):
        own = fn.name in ('desync::Job::run',) or fn.name.startswith('desync::wrap_fnonce')
        return [s.bb for s in g.sites.get(fn.name, []) if s.kind == 'param' and (s.foreign or own) and ('closure parameter' in s.what or 'closure value' in s.what)]
    for root, why in (
            ('desync::Desync::desync', 'desync() accepts the operation and the queued job never touches the data'),
            ('desync::Desync::sync', 'sync() returns without having run its closure'),
            ('desync::Desync::try_sync', 'try_sync() reports success without having run its closure'),
            ('desync::Desync::future_desync', 'the queued job never creates the operation\'s future'),
            ('desync::Desync::future_sync', 'the slot job never creates the operation\'s future'),
            ('desync::Desync::after', 'the operation queued behind the future never runs its closure'),
            ('desync::Scheduler::after', 'the job queued behind the future never runs its closure'),
            ('desync::Scheduler::future_desync', 'the queued job never creates the operation\'s future'),
            ('desync::Scheduler::future_sync', 'the slot job never creates the operation\'s future'),
            ('desync::Scheduler::sync_background', 'the job queued for a waiting sync() completes without having run the closure (the caller then panics on an empty result slot, or worse returns)'),
            ('desync::Scheduler::sync_drain', 'the job queued for sync() completes without having run the closure'),
            ('desync::Scheduler::sync_immediate', 'sync()/try_sync() on an idle queue returns without having run the closure'),
            ('desync::Job::run', 'a job is consumed without running what it wraps'),
            ('desync::wrap_fnonce', 'a pool thread is handed a job and the wrapper does not run it')):
        rows.append(('%s|runs-the-closure' % short(root), fam(root), user_calls, 1, why))
    # Desync::drop: each of its two jobs frees the value
    rows.append(('Desync::drop|frees-the-value', fam('<desync::Desync as core::ops::drop::Drop>::drop'), callsites('alloc::boxed::Box::from_raw'), 1,
                 'the job that Desync::drop queues can finish without freeing the value: it is leaked (destroyed zero times)'))
    # the pipes start themselves
    for root in ('desync::pipe_in', 'desync::pipe'):
        rows.append(('%s|first-poll' % short(root), [F.fn(root)] if F.fn(root) else [], callsites('PipeContext::poll'), 1,
                     'the pipe is created but its input is never polled for the first time: no waker is ever registered and no item is ever read'))
    # a job that returned Pending goes back to the front of the list
    rows.append(('JobQueue::requeue|puts-the-job-back', [F.fn('desync::JobQueue::requeue')] if F.fn('desync::JobQueue::requeue') else [], callsites('VecDeque::push_front'), 1,
                 'requeue() can return without putting the suspended job back: the operation (and the result future waiting for it) is lost'))
    # taking the result of a scheduler future moves it out
    tk = F.fn('desync::FutureResultState::take')
    rows.append(('FutureResultState::take|moves-the-value-out', [tk] if tk else [], callsites('core::mem::swap'), 0,
                 'take() can leave the stored result in place and report "nothing yet": the awaiting task never sees its value'))
    jt = F.fn('desync::JobState::take')
    rows.append(('JobState::take|moves-the-state-out', [jt] if jt else [], callsites('core::mem::swap'), 0,
                 'a future job can be polled without its state being moved out: it reports "nothing to run" and the operation is silently skipped'))
    sp = F.fn('<desync::SyncFuture as core::future::future::Future>::poll')
    rows.append(('SyncFuture::poll|takes-its-state', [sp] if sp else [], callsites('core::mem::swap'), 0,
                 'SyncFuture::poll can run on the placeholder state instead of its real one: the future resolves without the operation having run'))
    # suspend(): the job hands the resumer over
    rows.append(('Scheduler::suspend|hands-over-the-resumer', fam('desync::Scheduler::suspend'), callsites('SchedulerFutureSignaller::signal'), 1,
                 'the suspending job can start waiting without handing the QueueResumer to the caller: nothing can ever resume the queue'))
    # the drain waker: both entry points exchange the state and fire what they took out
    for root in ('desync::DrainWaker::wake_with', '<desync::DrainWaker as futures_task::arc_wake::ArcWake>::wake_by_ref'):
        f = F.fn(root)
        rows.append(('%s|exchanges-state' % short(root), [f] if f else [], callsites('core::mem::swap'), 0,
                     'the drain waker can be used without recording it: a wake-up that arrives before the waker is armed (or the arming itself) is lost'))
    return rows


def must(ctx):
    F = ctx.F
    out = []
    n_ok = 0
    for key, fns, pred, floor, why in _site_rows(ctx):
        found = 0
        for fn in fns:
            if fn is None:
                continue
            blocks = [b for b in pred(fn) if not fn.blocks[b]['cleanup']]
            if not blocks:
                continue
            found += 1
            k = key if len([f for f in fns if f is not None and pred(f)]) == 1 else '%s|%s' % (key, short(fn.name).split('::')[-1] if fn.is_closure else 'body')
            if _always(fn, blocks):
                out.append(ok(R, k, 'happens on every path of %s' % short(fn.name), fn=fn.name))
                n_ok += 1
            else:
                out.append(bad(R, k, '%s (a path through %s skips it)' % (why, short(fn.name)), loc=fn.loc(blocks[0]), fn=fn.name))
        if found < floor:
            out.append(undecided(R, key, 'expected at least %d site(s), found %d' % (floor, found)))
    out += _edge_rows(ctx)
    out += _pipe_rows(ctx)
    out += must_decide(ctx)
    out += _pool_rows(ctx)
    out += _future_rows(ctx)
    out += _pipe_rows2(ctx)
    out += _third_batch(ctx)
    return out


def _reach_exit_avoiding(fn, through, cut_edges, src=0):
    """Is a normal exit reachable from src without entering a block of `through` and without taking an edge of `cut_edges`?"""
    exits = set(fn.exits())
    seen, st = set(), [src]
    while st:
        b = st.pop()
        if b in seen or b in through:
            continue
        seen.add(b)
        if b in exits:
            return True
        for n in fn.succs(b, False):
            if (b, n) not in cut_edges:
                st.append(n)
    return False


def _option_none_edges(fn, tyfrag):
    """Edges (switch block, target) taken when an Option whose type mentions `tyfrag` is None (discriminant 0, or is_some()==false / is_none()==true)."""
    out = set()
    for bb, b in enumerate(fn.blocks):
        t = b['term']
        if not t or t['k'] != 'switch' or b['cleanup'] or t['discr']['k'] == 'const' or t['discr']['pl']['p']:
            continue
        for s_ in b['stmts']:
            if s_['k'] == 'assign' and not s_['pl']['p'] and s_['pl']['l'] == t['discr']['pl']['l'] and s_['rv']['k'] == 'discr':
                ty = clean_ty(fn.local_ty(s_['rv']['pl']['l'])) if not s_['rv']['pl']['p'] else clean_ty(s_['rv']['pl']['ty'])
                if 'Option<' in ty and tyfrag in ty and not ty.startswith('core::ops::control_flow::ControlFlow<'):
                    tg = dict((str(v), tb) for v, tb in t['targets'])
                    none_t = tg.get('0', t['otherwise'])
                    out.add((bb, none_t))
                elif ty.startswith('core::ops::control_flow::ControlFlow<') and not s_['rv']['pl']['p']:
                    # `opt?`: the ControlFlow comes from Try::branch(opt); its Break edge is opt's None edge
                    for d_ in fn.defs().get(s_['rv']['pl']['l'], []):
                        if d_[0] == 'call' and (d_[2]['func'].get('fn') or '') == 'core::ops::try_trait::Try::branch' and d_[2]['args'] and d_[2]['args'][0]['k'] != 'const':
                            oty = clean_ty(d_[2]['args'][0]['pl']['ty'])
                            if 'Option<' in oty and tyfrag in oty:
                                tg = dict((str(v), tb) for v, tb in t['targets'])
                                brk = tg.get('1', t['otherwise'] if '0' in tg else None)
                                if brk is not None:
                                    out.add((bb, brk))
    return out


def _poisoned_lock_edges(fn):
    """Edges taken when a Mutex::lock() result is Err (a poisoned lock that the code chooses to leave alone)."""
    out = set()
    for bb, b in enumerate(fn.blocks):
        t = b['term']
        if not t or t['k'] != 'switch' or b['cleanup'] or t['discr']['k'] == 'const' or t['discr']['pl']['p']:
            continue
        for s_ in b['stmts']:
            if s_['k'] == 'assign' and not s_['pl']['p'] and s_['pl']['l'] == t['discr']['pl']['l'] and s_['rv']['k'] == 'discr':
                ty = clean_ty(fn.local_ty(s_['rv']['pl']['l'])) if not s_['rv']['pl']['p'] else clean_ty(s_['rv']['pl']['ty'])
                if ty.startswith('core::result::Result<') and 'MutexGuard' in ty and 'PoisonError' in ty:
                    tg = dict((str(v), tb) for v, tb in t['targets'])
                    err_t = tg.get('1', t['otherwise'] if '0' in tg else None)
                    if err_t is not None:
                        out.add((bb, err_t))
    return out


def _wakes_what_it_took(ctx, fn, key, why, out):
    """On every path that took a waker out of a slot, the waker is woken: the only ways past the wake are the None edges of the tests of
    that Option<Waker>."""
    g = cg(ctx)
    F = ctx.F
    sites = set(s.bb for s in g.sites.get(fn.name, []) if s.kind == 'wake' and not fn.blocks[s.bb]['cleanup'])
    for s in g.sites.get(fn.name, []):
        if s.kind == 'hof' and any(F.fn(c) is not None and any(x.kind == 'wake' for x in g.sites.get(c, [])) for c in s.targets):
            # Option::map(|w| w.wake()): the closure must wake on every path of its own
            for c in s.targets:
                cf = F.fn(c)
                wk = [x.bb for x in g.sites.get(c, []) if x.kind == 'wake']
                if cf is not None and wk and not _always(cf, wk):
                    out.append(bad(R, key, why + ' (the closure passed to `%s` can return without waking)' % s.what.split('::')[-1], loc=cf.loc(wk[0]), fn=fn.name))
                    return
            sites.add(s.bb)
    if not sites:
        out.append(undecided(R, key, 'no wake found'))
        return
    cuts = _option_none_edges(fn, 'Waker')
    if _reach_exit_avoiding(fn, sites, cuts) and feasible_reach(fn, 0, set(fn.exits()), sites) and not cuts:
        out.append(bad(R, key, why, loc=fn.loc(sorted(sites)[0]), fn=fn.name))
    elif _reach_exit_avoiding(fn, sites, cuts):
        out.append(bad(R, key, why + ' (a path on which a waker was taken reaches the end without waking it)', loc=fn.loc(sorted(sites)[0]), fn=fn.name))
    else:
        out.append(ok(R, key, 'the only ways past the wake are the None edges of the taken Option<Waker>', fn=fn.name))


def _edge_rows(ctx):
    """Obligations that start at an edge rather than at the entry of a body."""
    F = ctx.F
    g = cg(ctx)
    out = []
    for root in ('desync::DrainWaker::wake_with', '<desync::DrainWaker as futures_task::arc_wake::ArcWake>::wake_by_ref'):
        f = F.fn(root)
        if f:
            _wakes_what_it_took(ctx, f, '%s|fires-what-it-took' % short(root), 'the drain waker can take the stored waker out of its state and not wake it', out)
        else:
            out.append(undecided(R, '%s|fires-what-it-took' % short(root), 'anchor not found'))
    # reschedule_queue: every waiter that is still there is notified
    key = 'reschedule_queue|notifies-each-live-waiter'
    ks = [k for k in _children(ctx, 'desync::SchedulerCore::reschedule_queue') if calls(k, 'Weak<T, A>::upgrade') or calls(k, 'Weak::upgrade') or any('upgrade' in (t['func'].get('fn') or '') for _, t in k.calls())]
    rq = F.fn('desync::SchedulerCore::reschedule_queue')
    cands = ks + ([rq] if rq else [])
    done = False
    for k in cands:
        ups = [(bb, t) for bb, t in k.calls() if (t['func'].get('fn') or '').endswith('::upgrade') and not k.blocks[bb]['cleanup']]
        nots = [bb for bb, t in k.calls() if (t['func'].get('fn') or '').endswith(('Condvar::notify_one', 'Condvar::notify_all')) and not k.blocks[bb]['cleanup']]
        if not ups or not nots:
            continue
        e = result_edges(k, ups[0][0])
        some = edge_for(e, OPTION, 'Some') if e else None
        done = True
        if some is None:
            out.append(undecided(R, key, 'test of upgrade() not recognised'))
        elif k.must_pass(some, set(k.exits()) | {ups[0][0]}, set(nots)):
            out.append(ok(R, key, 'a waiter whose condition variable is still alive is always notified', fn=k.name))
        else:
            out.append(bad(R, key, 'a blocked sync() caller that is still waiting can be passed over when the queue is rescheduled: with no pool thread free it is the only one who can run the queue', loc=k.loc(nots[0]), fn=k.name))
    if not done:
        out.append(undecided(R, key, 'upgrade + notify of wake_blocked not found'))
    # DoubleWaker: both wakers
    dw = F.fn('<desync::DoubleWaker as futures_task::arc_wake::ArcWake>::wake_by_ref')
    key = 'DoubleWaker|wakes-both'
    if not dw:
        out.append(undecided(R, key, 'anchor not found'))
    else:
        wakes = [s.bb for s in g.sites.get(dw.name, []) if s.kind == 'wake' and not dw.blocks[s.bb]['cleanup']]
        takes = calls(dw, 'core::option::Option::take') or [(bb, t) for bb, t in calls(dw, 'core::clone::Clone::clone') if 'Option<' in clean_ty(dw.local_ty(t['dest']['l']))]
        e = result_edges(dw, takes[0][0]) if takes else None
        some = edge_for(e, OPTION, 'Some') if e else None
        if len(wakes) < 2 or some is None:
            out.append(undecided(R, key, 'expected a take() and two wakes (found %d wakes)' % len(wakes)))
        elif all(dw.must_pass(some, set(dw.exits()), {w}) for w in wakes) and not any(_reach_exit_avoiding(dw, {w}, _option_none_edges(dw, 'Waker'), src=dw.blocks[takes[0][0]]['term']['target']) for w in wakes):
            out.append(ok(R, key, 'the pair that was taken is woken completely on every path', fn=dw.name))
        else:
            out.append(bad(R, key, 'DoubleWaker can wake only one of its two wakers: either the queue or the awaiting task misses the wake-up', loc=dw.loc(wakes[0]), fn=dw.name))
    # the signaller's destructor: no result stored -> Canceled is stored and the waiting task is woken
    dr = F.fn('<desync::SchedulerFutureSignaller as core::ops::drop::Drop>::drop')
    key = 'SchedulerFutureSignaller::drop|cancels-when-unsignalled'
    if not dr:
        out.append(undecided(R, key, 'anchor not found'))
    else:
        from .rules_lw import FieldUse
        u = FieldUse(dr, 'desync::SchedulerFutureResult')
        stores = [bb for (bb, i, v) in u.assigns.get('result', []) if 'Canceled' in render(v)]
        tests = [(bb, t) for bb, t in dr.calls() if (t['func'].get('fn') or '').endswith(('FutureResultState::is_none', 'FutureResultState::is_some')) and not dr.blocks[bb]['cleanup']]
        if not stores or len(tests) != 1:
            out.append(undecided(R, key, 'expected one test of the result slot and a store of Err(Canceled) (found %d/%d)' % (len(tests), len(stores))))
        else:
            e = result_edges(dr, tests[0][0])
            isn = (tests[0][1]['func'].get('fn') or '').endswith('is_none')
            edge = None
            if e:
                edge = e.get('otherwise') if isn else e.get('0')
            if edge is None:
                out.append(undecided(R, key, 'test of the result slot not recognised'))
            elif dr.must_pass(edge, set(dr.exits()), set(stores)):
                out.append(ok(R, key, 'a signaller dropped without a result always stores Err(Canceled)', fn=dr.name))
            else:
                out.append(bad(R, key, 'a signaller dropped without a result (its job was dropped or panicked) can leave the slot empty: the future never resolves', loc=dr.loc(stores[0]), fn=dr.name))
    # every OS thread that is created for the pool is entered in the thread table
    key0 = 'thread-created-is-registered'
    n = 0
    for fn in F.crate_fns():
        news = [(bb, t) for bb, t in calls(fn, 'SchedulerThread::new') if not fn.blocks[bb]['cleanup']]
        if not news or fn.name.endswith('SchedulerThread::new'):
            continue
        pushes = [bb for bb, t in calls(fn, 'alloc::vec::Vec::push') if t['args'] and t['args'][0]['k'] != 'const' and 'SchedulerThread' in clean_ty(t['args'][0]['pl']['ty']) and not fn.blocks[bb]['cleanup']]
        key = '%s|%s' % (short(fn.name), key0)
        n += 1
        if not pushes:
            out.append(undecided(R, key, 'a pool thread is created here but not pushed on a thread table in this function'))
            continue
        bad_ = [bb for bb, t in news if t['target'] is not None and not fn.must_pass(t['target'], set(fn.exits()), set(pushes))]
        # the new thread enters the table as idle: its busy flag is a fresh `false`
        flags = []
        for pb in pushes:
            pe = fn.expr_of_operand(fn.blocks[pb]['term']['args'][1]) if len(fn.blocks[pb]['term']['args']) > 1 else None
            if pe is not None and pe[0] == 'agg' and pe[3]:
                flags.append(render(pe[3][0]))
        wrong = [f_ for f_ in flags if not f_.replace(' ', '').endswith('new(new(0))')]
        if wrong and not bad_:
            out.append(bad(R, key + '|idle', 'a new pool thread is entered in the table with a busy flag that is not a fresh `false` (%s): it is never offered work' % wrong[0][:50], loc=fn.loc(pushes[0]), fn=fn.name))
        if bad_:
            out.append(bad(R, key, 'a pool thread can be created and not entered in the thread table: it is never given work, never counted against the maximum and never despawned', loc=fn.loc(bad_[0]), fn=fn.name))
        else:
            out.append(ok(R, key, 'every created thread is pushed on the table', fn=fn.name))
    if n < 2:
        out.append(undecided(R, key0, 'expected two functions that create pool threads, found %d' % n))
    return out


def _pipe_rows(ctx):
    """Obligations of the pipe plumbing."""
    from .rules_ord import pipe_result_blocks
    from .ordq import await_sites
    from .facts import ty_head
    from .rules_lw import FieldUse
    F = ctx.F
    out = []
    # PipeContext::poll: an answer "finished" always releases the poll function (input stream + closure)
    key = 'PipeContext::poll|finished-always-releases'
    pp = F.fn('desync::PipeContext::poll')
    decided = False
    for c in [x for x in _children(ctx, 'desync::PipeContext::poll') if x.is_coroutine] if pp else []:
        H = ctx.held(c)
        nones = []
        for bb, b in enumerate(c.blocks):
            if b['cleanup']:
                continue
            for s_ in b['stmts']:
                if s_['k'] == 'assign' and s_['pl']['p']:
                    ev = c.expr_of_rvalue(s_['rv'])
                    if ev[0] == 'agg' and ev[2].endswith('Option::None') and 'PipeContext.poll_fn' in (H.held_before(bb, 0) | H.held_at_term(bb)):
                        nones.append(bb)
        for a in await_sites(c):
            if a['ready'] is None or not nones:
                continue
            pd = c.blocks[a['poll_bb']]['term']['dest']['l']
            X = None
            for b in c.blocks:
                for s_ in b['stmts']:
                    if s_['k'] == 'assign' and not s_['pl']['p'] and s_['rv']['k'] == 'use' and s_['rv']['op']['k'] in ('copy', 'move'):
                        pl = s_['rv']['op']['pl']
                        if pl['l'] == pd and [p['k'] for p in pl['p']] == ['downcast', 'field']:
                            X = s_['pl']['l']
            if X is None:
                continue
            xty = clean_ty(c.local_ty(X))
            if xty == 'bool':
                cands = [('bool', 0), ('bool', 1)]
            elif F.adts.get(ty_head(xty), {}).get('kind') == 'Enum':
                cands = [('enum', v['name']) for v in F.adts[ty_head(xty)]['variants']]
            else:
                continue
            stop = [val for val in cands if feasible_reach(c, a['ready'], set(nones), set(), overrides={X: val})]
            if stop and len(stop) == len(cands):
                decided = True
                out.append(bad(R, 'PipeContext::poll|released-only-when-finished', 'the poll function can be released whatever it answered (also when it said "keep polling"): a follow-up poll that is already queued finds it gone, '
                               'and the item that triggered it and every later one are never processed', loc=c.loc(nones[0]), fn=c.name))
                continue
            if not stop:
                continue
            decided = True
            exits = set(c.exits())
            leak = [val for val in stop if feasible_reach(c, a['ready'], exits, set(nones), overrides={X: val})]
            if leak:
                out.append(bad(R, key, 'the poll function has answered "finished" and PipeContext::poll can return without dropping it: the input stream and the processing closure of a finished pipe are kept for ever', loc=c.loc(nones[0]), fn=c.name))
            else:
                out.append(ok(R, key, 'on the "finished" answer every path sets poll_fn = None', fn=c.name))
    if not decided:
        out.append(undecided(R, key, 'await of the poll function and the release of poll_fn not recognised'))
    # pipe(): the closure handed to PipeStream::new releases the pipe's own Arc<Desync> on every path
    key = 'pipe|on_drop-releases-the-target'
    found = False
    for k in _children(ctx, 'desync::pipe'):
        if not k.is_closure or k.is_coroutine:
            continue
        takes = [bb for bb, t in calls(k, 'core::option::Option::take') if t['args'] and t['args'][0]['k'] != 'const' and 'Desync<' in clean_ty(t['args'][0]['pl']['ty']) and not k.blocks[bb]['cleanup']]
        if not takes:
            continue
        found = True
        if _always(k, takes):
            out.append(ok(R, key, 'on_drop empties the slot that holds the pipe\'s Arc<Desync> on every path', fn=k.name))
        else:
            out.append(bad(R, key, 'on_drop can return without releasing the pipe\'s own Arc<Desync>: after the output stream is gone the target object is kept alive for ever', loc=k.loc(takes[0]), fn=k.name))
    if not found:
        out.append(undecided(R, key, 'the closure that releases the pipe\'s Arc<Desync> was not found'))
    # pipe(): when the producer goes to sleep on a Pending input, the close notifier is in place
    key = 'pipe|sleeps-with-close-notifier'
    ks = [k for k in _children(ctx, 'desync::pipe') if k.is_coroutine]
    g = cg(ctx)
    if len(ks) != 1:
        out.append(undecided(R, key, 'poll coroutine not found'))
    else:
        k = ks[0]
        polls = [x for x in g.sites.get(k.name, []) if x.kind == 'poll' and 'poll_next' in (x.t['func'].get('fn') or '')]
        prb = pipe_result_blocks(ctx, k)
        u = FieldUse(k, 'desync::PipeStreamCore')
        regs = [bb for (bb, i, v) in u.assigns.get('notify_stream_closed', []) if v[0] == 'agg' and v[2].endswith('Option::Some')]
        e = result_edges(k, polls[0].bb) if len(polls) == 1 else None
        pending = edge_for(e, 'core::task::poll::Poll', 'Pending') if e else None
        if prb is None or pending is None or not regs:
            out.append(undecided(R, key, 'shape not recognised'))
        else:
            keep_b, stop_b = prb
            keeps = [b for b in keep_b if b in k.reachable_blocks(pending)]
            # the registration made earlier in the same call still stands (nothing cleared the slot since): as good as registering now
            clears0 = set(bb for (bb, i, v) in u.assigns.get('notify_stream_closed', []) if not (v[0] == 'agg' and v[2].endswith('Option::Some')))
            standing = bool(regs) and all(k.must_pass(0, {pending}, set(regs)) for _ in (0,)) and \
                not any(cb in k.reachable_blocks(rb) and pending in k.reachable_blocks(cb) for rb in regs for cb in clears0 if cb not in regs)
            # every way from the Pending edge to a "keep polling" answer passes the registration
            if keeps and k.must_pass(pending, set(keeps), set(regs)):
                out.append(ok(R, key, 'every path from a Pending input to "keep polling" registers notify_stream_closed', fn=k.name))
            elif keeps and not feasible_reach(k, pending, set(keeps), set(regs)):
                out.append(ok(R, key, 'every feasible path from a Pending input to "keep polling" registers notify_stream_closed', fn=k.name))
            elif keeps and standing:
                out.append(ok(R, key, 'the close notifier registered at the start of the poll is still in place when the input turns out Pending (nothing clears it in between)', fn=k.name))
            else:
                out.append(bad(R, key, 'the producer can go to sleep on a Pending input without leaving its waker in notify_stream_closed: dropping the output stream then wakes nobody and the pipe (input stream, closure, target) stays alive', loc=k.loc(regs[0]), fn=k.name))
            # ... and the same for *every* answer of the input, not only Pending: once the input has been polled with this call's waker the
            # input may keep that waker (FuturesUnordered registers it on every poll, whatever it answers), which closes the cycle
            # waker -> context -> poll function -> input -> waker; only the close notifier lets PipeStream::drop break it.  So "keep
            # polling" is answered after an input poll only with the notifier in place: the last write of the slot on the way is a Some(..).
            key2 = 'pipe|keeps-after-an-input-poll-only-with-close-notifier'
            start = k.blocks[polls[0].bb]['term'].get('target')
            clears = set(bb for (bb, i, v) in u.assigns.get('notify_stream_closed', []) if not (v[0] == 'agg' and v[2].endswith('Option::Some')))
            clears |= set(bb for (bb, m, t) in u.calls.get('notify_stream_closed', []) if m in ('take', 'replace', 'insert', 'get_or_insert', 'get_or_insert_with', 'take_if'))
            clears -= set(regs)
            if start is None:
                out.append(undecided(R, key2, 'return of the input poll not found'))
            else:
                # forward data flow over the poll coroutine: (what this call last did to the slot: nothing yet / registered / cleared,
                # has the input been polled in this call).  A "keep polling" answer with the input polled and the slot not registered
                # by this call is the violation.
                poll_bb = polls[0].bb
                regs_s, clears_s = set(regs), set(clears)
                states = {0: {('E', False)}}
                work = [0]
                while work:
                    bb_ = work.pop()
                    outs = set()
                    for (slot_, polled_) in states.get(bb_, ()):
                        if bb_ in regs_s:
                            slot_ = 'R'
                        elif bb_ in clears_s:
                            slot_ = 'C'
                        if bb_ == poll_bb:
                            polled_ = True
                        outs.add((slot_, polled_))
                    for nx in k.succs(bb_):
                        if k.blocks[nx]['cleanup']:
                            continue
                        cur = states.setdefault(nx, set())
                        if not outs <= cur:
                            cur |= outs
                            work.append(nx)
                reach = k.reachable_blocks(start)
                keeps2 = [b for b in keep_b if b in reach]
                badk = []
                for kb in keeps2:
                    for (slot_, polled_) in states.get(kb, ()):
                        if kb in regs_s:
                            slot_ = 'R'
                        if polled_ and slot_ != 'R':
                            # CFG-reachable: confirm that a feasible path (constant propagation through inlined helpers' answers) really gets
                            # here without a registration after the poll, or after a clear that follows the poll
                            if feasible_reach(k, start, {kb}, regs_s) or \
                                    any(cb_ in reach and cb_ not in regs_s and any(nx_ == kb or feasible_reach(k, nx_, {kb}, regs_s) for nx_ in k.succs(cb_)) for cb_ in clears_s):
                                badk.append((kb, slot_))
                if not keeps2:
                    out.append(undecided(R, key2, 'no "keep polling" answer is reachable from the input poll'))
                elif badk:
                    out.append(bad(R, key2, 'after the input has been polled with this call\'s waker the producer can answer "keep polling" with notify_stream_closed %s: an input that keeps the waker it was polled with '
                                   '(FuturesUnordered, buffered, select_all do, whatever they answer) then holds the only live waker of the pipe, PipeStream::drop wakes nobody, and input stream and closure are never dropped'
                                   % ('cleared by this very call' if badk[0][1] == 'C' else 'not registered by this call'), loc=k.loc(badk[0][0]), fn=k.name))
                else:
                    out.append(ok(R, key2, 'whenever the producer answers "keep polling" after polling its input, the last thing this call did to notify_stream_closed was to register its waker', fn=k.name))
    # despawn: every popped thread is joined
    key = 'despawn_threads_if_overloaded|joins-what-it-removed'
    dp = F.fn('desync::Scheduler::despawn_threads_if_overloaded')
    if not dp:
        out.append(undecided(R, key, 'anchor not found'))
    else:
        fam = [dp] + _children(ctx, dp.name)
        joins = [(f, bb) for f in fam for bb, t in calls(f, 'JoinHandle::join') if not f.blocks[bb]['cleanup']]
        if not joins:
            out.append(undecided(R, key, 'no join found'))
        else:
            okk = True
            for f, bb in joins:
                if f is not dp and not _always(f, [bb]):
                    okk = False
            # the statement that consumes the collected handles is reached on every path
            outer = [bb for f, bb in joins if f is dp]
            # a `for handle in handles { handle.join() }` loop joins per element: the walk starts where the collection is turned into an iterator
            for bb, t in dp.calls():
                nm = t['func'].get('fn') or ''
                if nm.endswith(('IntoIterator::into_iter', 'Vec::drain', 'Vec::into_iter')) and not dp.blocks[bb]['cleanup'] and t['args'] and t['args'][0]['k'] != 'const' \
                        and 'JoinHandle' in clean_ty(t['args'][0]['pl']['ty']) and t['target'] is not None and any(j in dp.reachable_blocks(t['target']) for j in outer):
                    outer.append(bb)
            for s_ in g.sites.get(dp.name, []):
                if s_.kind == 'hof' and any(F.fn(c) is not None and any(f.name == c for f, _ in joins) for c in s_.targets):
                    outer.append(s_.bb)
            if not outer or not _always(dp, outer):
                okk = False
            # inside a `for handle in handles` loop every turn joins its handle (not only the ones that happen to have finished)
            own_joins = set(bb for f, bb in joins if f is dp)
            for bb, t in dp.calls():
                nm = t['func'].get('fn') or ''
                if nm.endswith('Iterator::next') and not dp.blocks[bb]['cleanup'] and t['args'] and t['args'][0]['k'] != 'const' and 'JoinHandle' in clean_ty(t['args'][0]['pl']['ty']) and own_joins:
                    e_ = result_edges(dp, bb)
                    some_ = edge_for(e_, OPTION, 'Some') if e_ else None
                    if some_ is not None and not dp.must_pass(some_, set(dp.exits()) | {bb}, own_joins):
                        okk = False
            if okk:
                out.append(ok(R, key, 'the handles taken out of the table are joined on every path', fn=dp.name))
            else:
                out.append(bad(R, key, 'threads removed from the table are not always joined: the call returns while they still run (and nothing refers to them any more)', loc=dp.loc(outer[0]) if outer else '', fn=dp.name))
    return out


# ---------------------------------------------------------------------------------------------
# functions that decide on the queue's state: no way out before the state has been looked at (an early exit of a waker is a lost wake-up,
# of reschedule_queue a stranded queue, of dequeue a job list taken for empty, of a claim a hand-over nobody accepts)
DECIDERS = ('desync::Scheduler::schedule_job_desync', 'desync::Scheduler::sync', 'desync::Scheduler::try_sync', 'desync::Scheduler::sync_no_panic',
            'desync::SchedulerCore::claim_pending_queue', 'desync::SchedulerCore::reschedule_queue', 'desync::JobQueue::dequeue',
            '<desync::WakeQueue as futures_task::arc_wake::ArcWake>::wake_by_ref', '<desync::WakeThread as futures_task::arc_wake::ArcWake>::wake_by_ref')


def _state_switches(fn):
    out = []
    for bb, b in enumerate(fn.blocks):
        t = b['term']
        if not t or t['k'] != 'switch' or b['cleanup'] or 'assert' in (t['sp'].get('mac') or ''):
            continue
        for s_ in b['stmts']:
            if s_['k'] == 'assign' and s_['rv']['k'] == 'discr' and clean_ty(s_['rv']['pl']['ty']) == 'desync::QueueState':
                out.append(bb)
    return out


def _decision_blocks(ctx, fn, depth=2):
    F = ctx.F
    g = cg(ctx)
    out = set(_state_switches(fn))
    if depth > 0:
        for s_ in g.sites.get(fn.name, []):
            if s_.kind in ('static', 'hof') and not fn.blocks[s_.bb]['cleanup']:
                for c in s_.targets:
                    cf = F.fn(c)
                    if cf is not None and cf.name != fn.name and _decision_blocks(ctx, cf, depth - 1):
                        out.add(s_.bb)
    # `state == X` / `state != X` comparisons go through PartialEq::eq
    for bb, t in fn.calls():
        nm = t.get('resolved') or t['func'].get('fn') or ''
        if not fn.blocks[bb]['cleanup'] and 'QueueState' in nm and nm.endswith(('::eq', '::ne')):
            out.add(bb)
    return out


def must_decide(ctx):
    F = ctx.F
    out = []
    n = 0
    for name in DECIDERS:
        fn = F.fn(name)
        key = '%s|looks-at-the-state' % short(name)
        if not fn:
            continue
        dec = _decision_blocks(ctx, fn)
        if not dec:
            out.append(undecided(R, key, 'no test of the queue state found in this function or the helpers it calls'))
            continue
        n += 1
        if _always(fn, dec):
            out.append(ok(R, key, 'every path through the function passes a test of the queue state', fn=fn.name))
        else:
            out.append(bad(R, key, '%s can return without having looked at the state of the queue: whatever it was called to hand over (a wake-up, a queue to schedule or to claim, a job to take) is dropped on that path' % short(name), fn=fn.name))
    if n < 7:
        out.append(undecided(R, 'looks-at-the-state|floor', 'only %d of the %d state-deciding functions were found' % (n, len(DECIDERS))))
    return out


def _ret_blocks(fn, val):
    """blocks that set the (bool) return value to the literal `val`"""
    out = []
    for bb, b in enumerate(fn.blocks):
        if b['cleanup']:
            continue
        for s_ in b['stmts']:
            if s_['k'] == 'assign' and not s_['pl']['p'] and s_['pl']['l'] == 0 and s_['rv']['k'] == 'use' and s_['rv']['op']['k'] == 'const' and str(s_['rv']['op'].get('val')) == str(val):
                out.append(bb)
    return out


def _pool_rows(ctx):
    from .ordq import dominates, edom
    from .rules_lw import FieldUse
    F = ctx.F
    g = cg(ctx)
    out = []
    # schedule_thread always asks for a dormant thread
    st = F.fn('desync::SchedulerCore::schedule_thread')
    key = 'schedule_thread|asks-for-a-thread'
    if st:
        d = [bb for bb, t in calls(st, 'SchedulerCore::schedule_dormant')]
        if not d:
            out.append(undecided(R, key, 'schedule_dormant call not found'))
        elif _always(st, d):
            out.append(ok(R, key, 'every call looks for a dormant thread', fn=st.name))
        else:
            out.append(bad(R, key, 'schedule_thread can return without having looked for a thread: the queue that was just put on the schedule is served by nobody', fn=st.name))
    # schedule_dormant: "a thread was woken" is only reported after work was handed to a thread; dead threads are reaped on every call
    sd = F.fn('desync::SchedulerCore::schedule_dormant')
    key = 'schedule_dormant|true-means-handed-over'
    if sd:
        runs = [bb for bb, t in calls(sd, 'SchedulerThread::run')]
        trues = _ret_blocks(sd, 1)
        if not runs or not trues:
            out.append(undecided(R, key, 'hand-over (SchedulerThread::run) or literal `true` result not found'))
        elif all(any(dominates(sd, r, b) for r in runs) for b in trues):
            out.append(ok(R, key, 'every `true` result is dominated by the hand-over of work to a thread', fn=sd.name))
        else:
            out.append(bad(R, key, 'schedule_dormant can report that a thread was woken without having handed work to one: the caller stops trying and the queue waits in the schedule', fn=sd.name))
        key = 'schedule_dormant|false-means-every-thread-was-looked-at'
        falses = _ret_blocks(sd, 0)
        nxt = [(bb, t) for bb, t in sd.calls() if (t['func'].get('fn') or '').endswith('Iterator::next') and not sd.blocks[bb]['cleanup']]
        if len(nxt) == 1 and falses:
            e = result_edges(sd, nxt[0][0])
            none = edge_for(e, OPTION, 'None') if e else None
            walk = render(sd.expr_of_operand(nxt[0][1]['args'][0])) if nxt[0][1]['args'] else ''
            partial = [a_ for a_ in ('skip(', 'take(', 'step_by(', 'skip_while(', 'take_while(', 'filter(', 'filter_map(', 'map_while(', 'nth(') if a_ in walk]
            if none is not None and partial and 'chain(' not in walk and 'cycle(' not in walk:
                out.append(bad(R, key, 'the walk that schedule_dormant exhausts before answering "no dormant thread" covers only part of the thread table (`%s`): a dormant thread outside that part is '
                               'never offered the work, and at the maximum pool size nobody else is' % partial[0].rstrip('('), fn=sd.name))
            elif none is not None:
                if all(edom(sd, none, b) for b in falses):
                    out.append(ok(R, key, '`false` is only reported after the walk over the thread table is exhausted', fn=sd.name))
                else:
                    out.append(bad(R, key, 'schedule_dormant can report "no dormant thread" without having looked at every thread: the pool spawns (or, at its maximum, gives up) while an idle thread exists', fn=sd.name))
        # the thread that is handed the work is one that was found idle, and a thread found idle is always handed the work
        key = 'schedule_dormant|idle-thread-gets-the-work'
        btests = []
        for bb, b in enumerate(sd.blocks):
            t = b['term']
            if t and t['k'] == 'switch' and not b['cleanup'] and t['discr']['k'] != 'const':
                e_ = sd.expr_of_operand(t['discr'])
                neg = False
                while e_[0] == 'unop' and e_[1] == 'Not':
                    neg = not neg
                    e_ = e_[2]
                txt = render(e_)
                if 'lock(' in txt and txt.endswith(' as Ok).0') and 'next(' in txt and len(t['targets']) == 1 and e_[0] != 'discr':
                    tg = dict((str(v), tb) for v, tb in t['targets'])
                    zero, other = tg.get('0'), t['otherwise']
                    idle = other if neg else zero          # the edge on which `*busy` is false
                    btests.append((bb, idle))
        if len(btests) == 1 and runs and nxt:
            bt, idle = btests[0]
            probs = []
            if not all(edom(sd, idle, r_) for r_ in runs):
                probs.append('work can be handed to a thread whose busy flag was set (it is queued behind whatever that thread is doing - possibly a job that blocks - although other threads are free)')
            if not sd.must_pass(idle, set(sd.exits()) | {nxt[0][0]}, set(runs)):
                probs.append('a thread that was found idle can be passed over: at the maximum pool size the queue then gets no thread although one is dormant')
            if probs:
                out.append(bad(R, key, '; '.join(probs), fn=sd.name))
            else:
                out.append(ok(R, key, 'the hand-over lies on the busy==false edge, and that edge always leads to it', fn=sd.name))
        key = 'schedule_dormant|reaps-first'
        from .poolview import pool_view
        pv = pool_view(ctx)
        if pv.ok and pv.reaps and pv.counts:
            # (restated on the request's inlined graph: see ORD-C15-reap)
            if all(pv.always_between(0, {c}, pv.reaps) for c in pv.counts):
                out.append(ok(R, key, 'dead threads are reaped before the table is measured against the maximum', fn=sd.name))
            else:
                out.append(bad(R, key, 'a scheduling request can reach the room test without having reaped the finished threads', fn=sd.name))
    # spawn_thread_if_less_than_maximum: true only after the push, false only when there is no room
    sp = F.fn('desync::SchedulerCore::spawn_thread_if_less_than_maximum')
    key = 'spawn_thread_if_less_than_maximum|answers'
    if sp:
        pushes = [bb for bb, t in calls(sp, 'alloc::vec::Vec::push') if t['args'] and t['args'][0]['k'] != 'const' and 'SchedulerThread' in clean_ty(t['args'][0]['pl']['ty'])]
        trues, falses = _ret_blocks(sp, 1), _ret_blocks(sp, 0)
        cmps = []
        for bb, b in enumerate(sp.blocks):
            t = b['term']
            if t and t['k'] == 'switch' and not b['cleanup']:
                for s_ in b['stmts']:
                    if s_['k'] == 'assign' and s_['rv']['k'] == 'binop' and s_['rv']['op'] in ('Lt', 'Gt', 'Le', 'Ge', 'Eq', 'Ne'):
                        txt = render(sp.expr_of_operand(s_['rv']['a'])) + render(sp.expr_of_operand(s_['rv']['b']))
                        if 'len(' in txt:
                            cmps.append(bb)
        if not pushes or not trues or not falses or not cmps:
            out.append(undecided(R, key, 'shape not recognised (push %d, true %d, false %d, bound test %d)' % (len(pushes), len(trues), len(falses), len(cmps))))
        else:
            probs = []
            if not all(any(dominates(sp, p_, b) for p_ in pushes) for b in trues):
                probs.append('it can report that a thread was added without having added one (the caller retries for ever or believes the queue is served)')
            if not all(any(dominates(sp, c_, b) for c_ in cmps) for b in falses):
                probs.append('it can refuse without having compared the table with the maximum: a ready queue gets no thread although the pool has room')
            else:
                # the refusal lies on the no-room side of the bound test: the side that does not lead to the push
                for c_ in cmps:
                    t_ = sp.blocks[c_]['term']
                    succ = [tb for _, tb in t_['targets']] + [t_['otherwise']]
                    room = [e_ for e_ in succ if any(edom(sp, e_, p_) for p_ in pushes)]
                    if len(room) == 1 and any(edom(sp, room[0], b) for b in falses):
                        probs.append('it can refuse on the side of the bound test where the pool has room: a ready queue gets no thread although one could be spawned')
            if probs:
                out.append(bad(R, key, '; '.join(probs), fn=sp.name))
            else:
                out.append(ok(R, key, '`true` only after the push, `false` only after the bound test', fn=sp.name))
    # remove_finished_threads always walks the table and always joins what it took out
    rf = F.fn('desync::SchedulerCore::remove_finished_threads')
    key = 'remove_finished_threads|always-walks-the-table'
    if rf:
        from .locks import lock_sites
        locks = [bb for bb, t, kind, cls in lock_sites(rf) if cls == 'SchedulerCore.threads']
        if locks and _always(rf, locks):
            out.append(ok(R, key, 'every call takes the threads lock and looks at the table', fn=rf.name))
            # a thread that reports finished leaves the table (in this function or a closure it runs over the table)
            key2 = 'remove_finished_threads|finished-means-removed'
            fam = [rf] + [c for c in F.crate_fns() if c.is_closure and c.root == rf.name]
            REM = ('::Vec::remove', '::Vec::swap_remove')
            for f_ in fam:
                fins = [bb for bb, t in f_.calls() if (t['func'].get('fn') or '').endswith('::is_finished') and not f_.blocks[bb]['cleanup']]
                rems = [bb for bb, t in f_.calls() if (t['func'].get('fn') or '').endswith(REM) and not f_.blocks[bb]['cleanup']]
                if f_ is rf and fins and rems:
                    e = result_edges(rf, fins[0])
                    yes = e.get('otherwise') if e else None
                    if yes is None:
                        out.append(undecided(R, key2, 'test of is_finished() not recognised'))
                    elif not feasible_reach(rf, 0, set(fins), set()):
                        out.append(bad(R, key2, 'the walk over the thread table can never reach the is_finished() test: dead threads are never reaped', fn=rf.name))
                    elif rf.must_pass(yes, set(rf.exits()) | set(fins), set(rems)) or not feasible_reach(rf, yes, set(rf.exits()) | set(fins), set(rems)):
                        out.append(ok(R, key2, 'a thread that reports finished is always taken out of the table', fn=rf.name))
                    else:
                        out.append(bad(R, key2, 'a thread that reports finished can stay in the table: it keeps its slot (and its busy flag) for ever', fn=rf.name))
        elif locks:
            out.append(bad(R, key, 'remove_finished_threads can return without looking at the thread table: a pool thread killed by a panicking job keeps its slot', fn=rf.name))
    return out


def _future_rows(ctx):
    from .ordq import dominates, edom, await_sites
    from .rules_lw import FieldUse
    F = ctx.F
    g = cg(ctx)
    out = []
    # FutureJob::run answers Pending only when the future it polled said so
    fj = F.fn('<desync::FutureJob<TFn> as desync::ScheduledJob>::run') or F.fn('desync::FutureJob::run')
    key = 'FutureJob::run|pending-only-from-the-future'
    if fj:
        polls = [s_ for s_ in g.sites.get(fj.name, []) if s_.kind == 'poll']
        pend = []
        for bb, b in enumerate(fj.blocks):
            if b['cleanup']:
                continue
            for s_ in b['stmts']:
                if s_['k'] == 'assign' and not s_['pl']['p'] and s_['pl']['l'] == 0 and s_['rv']['k'] == 'agg' and s_['rv'].get('variant') == 'Pending':
                    pend.append(bb)
        if len(polls) == 1 and pend:
            e = result_edges(fj, polls[0].bb)
            pe = edge_for(e, 'core::task::poll::Poll', 'Pending') if e else None
            if pe is None:
                out.append(undecided(R, key, 'test of the inner poll not recognised'))
            elif all(edom(fj, pe, b) for b in pend):
                out.append(ok(R, key, 'Pending is answered only on the Pending edge of the job\'s future (which then holds the waker)', fn=fj.name))
            else:
                out.append(bad(R, key, 'a future job can answer Pending without its future having been polled to Pending: nobody holds a waker for it, the queue parks and is never resumed', fn=fj.name))
    # DoubleWaker always looks into its slot
    dw = F.fn('<desync::DoubleWaker as futures_task::arc_wake::ArcWake>::wake_by_ref')
    key = 'DoubleWaker|looks-into-its-slot'
    if dw:
        takes = [bb for bb, t in calls(dw, 'core::option::Option::take')] + [bb for bb, t in calls(dw, 'core::clone::Clone::clone') if 'Option<' in clean_ty(dw.local_ty(t['dest']['l']))]
        if takes and _always(dw, takes):
            out.append(ok(R, key, 'every wake-up takes the pair of wakers', fn=dw.name))
        elif takes:
            out.append(bad(R, key, 'a wake-up of the DoubleWaker can return before it has taken its two wakers: neither the queue nor the awaiting task is woken', fn=dw.name))
    # the value swapped out of a state cell is always examined (an early exit after the swap loses it)
    for name, ety, why in (('desync::FutureResultState::take', 'desync::FutureResultState', 'the result of a scheduler future can be moved out of its slot and dropped'),
                           ('desync::JobState::take', 'desync::JobState', 'the future of a job can be moved out of the job and dropped')):
        fn = F.fn(name)
        key = '%s|examines-what-it-took' % short(name)
        if not fn:
            continue
        sw = [bb for bb, t in fn.calls() if (t['func'].get('fn') or '') in ('core::mem::swap', 'core::mem::replace', 'core::mem::take') and not fn.blocks[bb]['cleanup']]
        tests = []
        for bb, b in enumerate(fn.blocks):
            t = b['term']
            if t and t['k'] == 'switch' and not b['cleanup']:
                for s_ in b['stmts']:
                    if s_['k'] == 'assign' and s_['rv']['k'] == 'discr' and clean_ty(s_['rv']['pl']['ty']).startswith(ety):
                        tests.append(bb)
        if len(sw) == 1 and tests:
            tgt = fn.blocks[sw[0]]['term']['target']
            if tgt is not None and fn.must_pass(tgt, set(fn.exits()), set(tests)):
                out.append(ok(R, key, 'the value moved out is matched on before the function returns', fn=fn.name))
            elif tgt is not None:
                out.append(bad(R, key, why + ': the function can return between moving the value out and looking at it', fn=fn.name))
    # the signaller's destructor always looks at the result slot
    dr = F.fn('<desync::SchedulerFutureSignaller as core::ops::drop::Drop>::drop')
    key = 'SchedulerFutureSignaller::drop|looks-at-the-slot'
    if dr:
        tests = [bb for bb, t in dr.calls() if (t['func'].get('fn') or '').endswith(('FutureResultState::is_none', 'FutureResultState::is_some')) and not dr.blocks[bb]['cleanup']]
        if tests and _always(dr, tests):
            out.append(ok(R, key, 'the destructor always tests whether a result was delivered', fn=dr.name))
        elif tests:
            out.append(bad(R, key, 'the signaller can be dropped without the destructor looking at the result slot: a job that was dropped or panicked leaves its future pending for ever', fn=dr.name))
    # SyncFuture::poll puts its state back
    sp = F.fn('<desync::SyncFuture as core::future::future::Future>::poll')
    key = 'SyncFuture::poll|puts-its-state-back'
    if sp:
        sw = [bb for bb, t in sp.calls() if (t['func'].get('fn') or '') in ('core::mem::swap', 'core::mem::replace', 'core::mem::take') and not sp.blocks[bb]['cleanup']]
        u = FieldUse(sp, None)
        backs = [bb for (bb, i, v) in u.assigns.get('state', [])]
        if len(sw) == 1 and backs:
            tgt = sp.blocks[sw[0]]['term']['target']
            if tgt is not None and sp.must_pass(tgt, set(sp.exits()), set(backs)):
                out.append(ok(R, key, 'after taking its state out, every path stores the new state before returning', fn=sp.name))
            elif tgt is not None:
                out.append(bad(R, key, 'SyncFuture::poll can return while its state is still the placeholder it swapped in: the next poll finds "completed" and the operation is never run or never finished', fn=sp.name))
    # SyncFuture::poll: while it waits for its slot (and while it waits for the slot job to finish) every poll polls the scheduler future -
    # that poll is what lets the awaiting task run the queue itself when no pool thread does
    key = 'SyncFuture::poll|waits-by-polling-the-queue'
    if sp:
        sfp = [bb for bb, t in calls(sp, 'FutureExt::poll_unpin') if t['args'] and 'SchedulerFuture' in clean_ty(t['args'][0]['pl']['ty']) and not sp.blocks[bb]['cleanup']]
        arms = None
        sw_bb = None
        for bb, b in enumerate(sp.blocks):
            t = b['term']
            if t and t['k'] == 'switch' and not b['cleanup']:
                for s_ in b['stmts']:
                    if s_['k'] == 'assign' and s_['rv']['k'] == 'discr' and 'SyncFutureState' in clean_ty(s_['rv']['pl']['ty']) and len(t['targets']) >= 3:
                        arms = dict((str(v), tb) for v, tb in t['targets'])
                        sw_bb = bb
        adt = F.adts.get('desync::SyncFutureState')
        if arms and adt and sfp:
            probs = []
            for vn in ('WaitingForQueue', 'WaitingForScheduler'):
                dv = [str(v['discr']) for v in adt['variants'] if v['name'] == vn]
                tgt = arms.get(dv[0]) if dv else None
                if tgt is None:
                    continue
                if not sp.must_pass(tgt, set(sp.exits()) | {sw_bb}, set(sfp)):
                    probs.append(vn)
            if probs:
                out.append(bad(R, key, 'in state %s a poll of the SyncFuture can finish without polling its scheduler future: with no pool thread free the queue is only ever run by that poll, so the operation ahead of the slot '
                               'is never resumed and the future never resolves' % '/'.join(probs), fn=sp.name))
            else:
                out.append(ok(R, key, 'WaitingForQueue and WaitingForScheduler always poll the scheduler future', fn=sp.name))
    # UnsafeJob's destructor always looks for its notification
    uj = F.fn('<desync::UnsafeJob as core::ops::drop::Drop>::drop')
    key = 'UnsafeJob::drop|looks-for-its-notification'
    if not uj and 'desync::UnsafeJob' in F.adts:
        out.append(bad(R, key, 'UnsafeJob has no destructor any more: the waiting sync() caller is told "done" by the destructor precisely because it also runs when the job is dropped unrun (a panicked queue) or '
                       'unwinds out of a panicking closure; signalling only at the end of run() leaves that caller blocked for ever'))
    if uj:
        takes = [bb for bb, t in calls(uj, 'core::option::Option::take')]
        if takes and _always(uj, takes):
            out.append(ok(R, key, 'the destructor always takes the completion notification', fn=uj.name))
        elif takes:
            out.append(bad(R, key, 'an UnsafeJob can be dropped without signalling completion: the sync() caller that waits for exactly this never returns', fn=uj.name))
    # ActiveQueue's destructor always asks whether the thread is unwinding
    aq = F.fn('<desync::ActiveQueue as core::ops::drop::Drop>::drop')
    key = 'ActiveQueue::drop|asks-whether-unwinding'
    if aq:
        pk = [bb for bb, t in aq.calls() if (t['func'].get('fn') or '').endswith('thread::panicking') or (t['func'].get('fn') or '').endswith('std::thread::functions::panicking')]
        if pk and _always(aq, pk):
            out.append(ok(R, key, 'the guard always tests thread::panicking()', fn=aq.name))
            # and when the answer is yes, the queue is marked
            u = FieldUse(aq, None)
            marks = [bb for (bb, i, v) in u.assigns.get('state', []) if 'Panicked' in render(v)]
            for s_ in g.sites.get(aq.name, []):
                if s_.kind == 'hof':
                    for c in s_.targets:
                        cf = F.fn(c)
                        if cf is None:
                            continue
                        cm = [bb for (bb, i, v) in FieldUse(cf, None).assigns.get('state', []) if 'Panicked' in render(v)]
                        if cm and _always(cf, cm):
                            marks.append(s_.bb)
            e = result_edges(aq, pk[0])
            yes = e.get('otherwise') if e else None
            key2 = 'ActiveQueue::drop|unwinding-marks-the-queue'
            if not marks or yes is None:
                out.append(undecided(R, key2, 'write of Panicked or the test of panicking() not recognised'))
            elif aq.must_pass(yes, set(aq.exits()), set(marks)) or not _reach_exit_avoiding(aq, set(marks), _poisoned_lock_edges(aq), src=yes):
                out.append(ok(R, key2, 'on the unwinding edge every path marks the queue Panicked', fn=aq.name))
            else:
                out.append(bad(R, key2, 'a job is unwinding through the guard and the guard can finish without marking the queue Panicked: later operations run on the half-updated data', fn=aq.name))
        elif pk:
            out.append(bad(R, key, 'the ActiveQueue guard can be dropped without testing whether a job is unwinding through it: a panicking operation leaves its queue usable', fn=aq.name))
    return out


def _pipe_rows2(ctx):
    from .ordq import await_sites
    from .rules_lw import FieldUse
    F = ctx.F
    g = cg(ctx)
    out = []
    # PipeWaker: a context that was still there is always polled
    pw = F.fn('<desync::PipeWaker as futures_task::arc_wake::ArcWake>::wake_by_ref')
    key = 'PipeWaker|polls-what-it-took'
    if pw:
        polls = set(bb for bb, t in calls(pw, 'PipeContext::poll'))
        cuts = _option_none_edges(pw, 'PipeContext')
        if polls:
            if _reach_exit_avoiding(pw, polls, cuts):
                out.append(bad(R, key, 'a wake-up of the pipe can take the context and return without polling: the input has signalled new data and nobody reads it', fn=pw.name))
            else:
                out.append(ok(R, key, 'the only way past the poll is the None edge of the context slot', fn=pw.name))
    # PipeStream::drop always hands on_drop to the disposal queue
    dr = F.fn('<desync::PipeStream as core::ops::drop::Drop>::drop')
    key = 'PipeStream::drop|runs-on_drop'
    if dr:
        u = FieldUse(dr, None)
        takes = [bb for (bb, m, t) in u.calls.get('on_drop', []) if m in ('take', 'as_mut', 'as_ref')]
        if takes and _always(dr, takes):
            out.append(ok(R, key, 'every drop of the output stream takes on_drop (which releases the pipe\'s Arc<Desync>)', fn=dr.name))
        elif takes:
            out.append(bad(R, key, 'the output stream can be dropped without on_drop being taken and run: the pipe keeps its own Arc<Desync> and the target lives for ever', fn=dr.name))
    # PipeContext::poll: target alive -> a poll job is queued; target gone -> the poll function is released
    pp = F.fn('desync::PipeContext::poll')
    key = 'PipeContext::poll|queues-a-job-or-releases'
    if pp:
        ups = [(bb, t) for bb, t in pp.calls() if (t['func'].get('fn') or '').endswith('::upgrade') and not pp.blocks[bb]['cleanup']]
        fds = set(bb for bb, t in calls(pp, 'Desync::future_desync'))
        u = FieldUse(pp, None)
        rel = set(bb for (bb, m, t) in u.calls.get('poll_fn', []) if m == 'take') | set(bb for (bb, i, v) in u.assigns.get('poll_fn', []))
        # take() through the lock guard is a call on the guard, not on the field: accept Option::take of an Option<PollFn>
        rel |= set(bb for bb, t in calls(pp, 'core::option::Option::take') if not pp.blocks[bb]['cleanup'])
        if len(ups) == 1 and fds:
            e = result_edges(pp, ups[0][0])
            some = edge_for(e, OPTION, 'Some') if e else None
            none = edge_for(e, OPTION, 'None') if e else None
            if some is None or none is None or not _always(pp, [ups[0][0]]):
                out.append(bad(R, key, 'PipeContext::poll can return without asking whether the target is still alive', fn=pp.name) if some is not None else undecided(R, key, 'test of upgrade() not recognised'))
            elif not pp.must_pass(some, set(pp.exits()), fds):
                out.append(bad(R, key, 'the target is alive and PipeContext::poll can return without queuing a poll job on it: the wake-up that asked for the poll is lost and the pipe stalls', fn=pp.name))
            elif rel and not pp.must_pass(none, set(pp.exits()), rel):
                out.append(bad(R, key, 'the target is gone and PipeContext::poll can return without releasing the poll function (input stream and closure)', fn=pp.name))
            else:
                out.append(ok(R, key, 'alive -> a poll job is always queued; gone -> the poll function is always released', fn=pp.name))
        # inside the job: the poll function is called when it is there, and its future is awaited
        for c in [x for x in _children(ctx, pp.name) if x.is_coroutine]:
            key2 = 'PipeContext::poll|job-polls'
            hofs = [s_.bb for s_ in g.sites.get(c.name, []) if s_.kind == 'hof' and any(F.fn(t_) is not None and any(x.kind == 'param' for x in g.sites.get(t_, [])) for t_ in s_.targets)]
            direct = [s_.bb for s_ in g.sites.get(c.name, []) if s_.kind == 'param']
            aw = await_sites(c)
            sites = set(hofs) | set(direct)
            if not sites or not aw:
                continue
            cuts = _option_none_edges(c, 'PollFn') | _option_none_edges(c, 'BoxFuture') | _option_none_edges(c, 'Pin<')
            awb = set(a['poll_bb'] for a in aw)
            if not _always(c, sites) and _reach_exit_avoiding(c, sites, _option_none_edges(c, 'PollFn') | _option_none_edges(c, 'FnMut')):
                out.append(bad(R, key2, 'the poll job can finish without calling the poll function: the wake-up it was queued for is lost', fn=c.name))
            elif _reach_exit_avoiding(c, awb, cuts):
                out.append(bad(R, key2, 'the poll job can finish without awaiting the future the poll function returned: the items it would have read stay unread', fn=c.name))
            else:
                out.append(ok(R, key2, 'the job calls the poll function and awaits what it returns (unless the function is already gone)', fn=c.name))
    return out


def _third_batch(ctx):
    """Rows found with the `ifopaque` probe: a condition that keeps its test but is weakened (`|| x`) or strengthened (`&& !x`)."""
    from .ordq import dominates, edom, await_sites, inner_switch, switch_of_local
    from .rules_lw import FieldUse
    from .rules_ord import pipe_result_blocks
    F = ctx.F
    g = cg(ctx)
    out = []
    # ---- WakeQueue: whatever state it finds (bar the stale-DoubleWaker case WaitingForUnpark) the wake ends in reschedule_queue; that call is
    # also what repairs a queue another waker left Idle with its suspended job still queued
    wq = F.fn('<desync::WakeQueue as futures_task::arc_wake::ArcWake>::wake_by_ref')
    key = 'WakeQueue|every-wake-reschedules'
    if wq:
        # decided on the protocol interpreter's per-path summary (pre-state of the queue, did the path call reschedule_queue), which follows
        # decision enums, flags and tuples returned by helpers
        P = ctx.proto
        snaps = set()
        for (k_, fname, _x), v in P.events.items():
            if k_ == 'exit_act' and fname == wq.name:
                snaps |= set(v)
        if not snaps:
            out.append(undecided(R, key, 'the protocol interpreter recorded no path through WakeQueue::wake_by_ref'))
        else:
            skipped = set()
            for pre, act in snaps:
                pre = pre if pre is not None else frozenset(['?'])
                if not (act & 1) and not (pre <= frozenset(['WaitingForUnpark'])):
                    skipped |= set(pre) - {'WaitingForUnpark'}
            if skipped:
                out.append(bad(R, key, 'a wake-up that finds the queue %s returns without calling reschedule_queue: when another (stale) waker has already moved the parked queue to Idle, the real wake-up is the only thing that '
                               'would put it back on the schedule, and it is now dropped' % '/'.join(sorted(skipped)), fn=wq.name))
            else:
                out.append(ok(R, key, 'every path but the WaitingForUnpark one ends in reschedule_queue (%d path summaries)' % len(snaps), fn=wq.name))
    # ---- SchedulerFuture::poll: without a result in the slot, every poll looks at the queue (and runs it itself when nobody else does)
    pf = F.fn('<desync::SchedulerFuture as core::future::future::Future>::poll')
    key = 'SchedulerFuture::poll|no-result-means-look-at-the-queue'
    if pf:
        takes = [(bb, t) for bb, t in calls(pf, 'FutureResultState::take')]
        dec = _decision_blocks(ctx, pf)
        if len(takes) == 1 and dec:
            e = result_edges(pf, takes[0][0])
            none = edge_for(e, OPTION, 'None') if e else None
            if none is None:
                out.append(undecided(R, key, 'test of the taken result not recognised'))
            elif pf.must_pass(none, set(pf.exits()), dec) or not feasible_reach(pf, none, set(pf.exits()), dec):
                out.append(ok(R, key, 'when the slot is empty every path tests the queue state', fn=pf.name))
            else:
                out.append(bad(R, key, 'a poll that finds no result can return Pending without looking at the queue: if whoever was running the queue has stopped and no pool thread is free, the awaiting task is the only one who '
                               'could run it, and it never does', fn=pf.name))
    # ---- the destructors the protocol leans on exist (a row above that reads one of them is silent when it is gone)
    for dn, why in (('<desync::ActiveQueue as core::ops::drop::Drop>::drop', 'a job that panics unwinds through this guard, which is what marks the queue Panicked'),
                    ('<desync::SchedulerFutureSignaller as core::ops::drop::Drop>::drop', 'a job dropped without a result cancels its future here'),
                    ('<desync::UnsafeJob as core::ops::drop::Drop>::drop', 'the waiting sync() caller is told "done" here, also when the job never ran'),
                    ('<desync::PipeStream as core::ops::drop::Drop>::drop', 'dropping the output stream closes the pipe and releases its target here'),
                    ('<desync::Desync as core::ops::drop::Drop>::drop', 'the value is destroyed here, after the queued work')):
        tyname = dn.split(' as ')[0][1:]
        if tyname in F.adts:
            k_ = '%s|destructor-exists' % short(tyname)
            if F.fn(dn):
                out.append(ok(R, k_, 'has its destructor', fn=dn))
            else:
                out.append(bad(R, k_, '%s no longer has a destructor: %s' % (short(tyname), why)))
    # ---- PipeStream::poll_next: every poll looks into the buffer
    pn0 = F.fn('<desync::PipeStream as futures_core::stream::Stream>::poll_next')
    if pn0:
        from .rules_lw import FieldUse as _FU
        u0 = _FU(pn0, 'desync::PipeStreamCore')
        looks = [bb for (bb, m, t) in u0.calls.get('pending', []) if m in ('pop_front', 'front', 'len', 'is_empty', 'front_mut')]
        k_ = 'PipeStream::poll_next|looks-into-the-buffer'
        if looks and _always(pn0, looks):
            out.append(ok(R, k_, 'every poll of the output stream looks at `pending`', fn=pn0.name))
        elif looks:
            out.append(bad(R, k_, 'a poll of the output stream can answer without looking at the buffer: outputs that are already there are not delivered', fn=pn0.name))
    # ---- the "what next?" closure that schedule_thread gives its pool threads always asks the schedule
    st0 = F.fn('desync::SchedulerCore::schedule_thread')
    if st0:
        fetchers = [k_ for k_ in _children(ctx, st0.name) if k_.is_closure and 'Option<' in clean_ty(k_.local_ty(0)) and 'JobQueue' in clean_ty(k_.local_ty(0))]
        k_ = 'schedule_thread|pool-threads-always-ask-the-schedule'
        if len(fetchers) == 1:
            nt = [bb for bb, t in calls(fetchers[0], 'SchedulerCore::next_to_run')]
            if nt and _always(fetchers[0], nt):
                out.append(ok(R, k_, 'the fetch closure calls next_to_run on every path', fn=fetchers[0].name))
            else:
                out.append(bad(R, k_, 'a pool thread can be told "nothing to run" without the schedule having been looked at: it goes dormant while queues wait, and nothing wakes it for them', fn=fetchers[0].name))
    # ---- pool thread body (the closure handed to SchedulerThread::run): it stops only when it found nothing to run, and then it is idle
    sd = F.fn('desync::SchedulerCore::schedule_dormant')
    body = None
    for k in (_children(ctx, sd.name) if sd else []):
        ps = [s_ for s_ in g.sites.get(k.name, []) if s_.kind == 'param']
        if len(ps) >= 2:
            body = k
    if body is not None:
        ps = [s_ for s_ in g.sites.get(body.name, []) if s_.kind == 'param']
        fetch = [s_ for s_ in ps if 'Option' in clean_ty(s_.t['dest']['ty'])]
        if len(fetch) == 1:
            fetch = fetch[0]
            e = result_edges(body, fetch.bb)
            none_edge = edge_for(e, OPTION, 'None') if e else None
            # `if x.is_none()` form
            if none_edge is None:
                for bb, t in calls(body, 'core::option::Option::is_none'):
                    sw = switch_of_local(body, t['dest']['l'], t['target']) if t['target'] is not None else None
                    if sw:
                        none_edge = sw[2]
            writes = []
            for bb, b in enumerate(body.blocks):
                if b['cleanup']:
                    continue
                for i, s_ in enumerate(b['stmts']):
                    if s_['k'] == 'assign' and s_['pl']['p'] and s_['rv']['k'] == 'use' and s_['rv']['op']['k'] == 'const' and str(s_['rv']['op'].get('val')) == '0' and clean_ty(s_['rv']['op'].get('ty', '')) == 'bool':
                        writes.append(bb)
            key = 'pool-thread|goes-dormant-only-after-finding-nothing'
            if none_edge is not None:
                # every test of the fetched value has a nothing-to-run edge (is_none(), or a match on it after it was moved)
                none_edges = {none_edge}
                aliases = {fetch.t['dest']['l']}
                for _ in range(4):
                    for b2 in body.blocks:
                        for s2 in b2['stmts']:
                            if s2['k'] == 'assign' and not s2['pl']['p'] and s2['rv']['k'] == 'use' and s2['rv']['op']['k'] in ('move', 'copy') \
                                    and not s2['rv']['op']['pl']['p'] and s2['rv']['op']['pl']['l'] in aliases:
                                aliases.add(s2['pl']['l'])
                for bb2, b2 in enumerate(body.blocks):
                    t2 = b2['term']
                    if t2 and t2['k'] == 'switch' and not b2['cleanup']:
                        for s2 in b2['stmts']:
                            if s2['k'] == 'assign' and s2['rv']['k'] == 'discr' and not s2['rv']['pl']['p'] and s2['rv']['pl']['l'] in aliases:
                                tg2 = dict((str(v), tb) for v, tb in t2['targets'])
                                none_edges.add(tg2.get('0', t2['otherwise']))
                if _always(body, sorted(none_edges)):
                    out.append(ok(R, key, 'the work loop of a pool thread is left only through the nothing-to-run edge', fn=body.name))
                else:
                    out.append(bad(R, key, 'a pool thread can leave its work loop without having found the schedule empty: it stops with its busy flag set (nobody will ever hand it work again) and whatever was on the schedule waits', fn=body.name))
                key = 'pool-thread|nothing-to-run-clears-busy'
                if writes and body.must_pass(none_edge, set(body.exits()) | {fetch.bb}, set(writes)):
                    out.append(ok(R, key, 'on the nothing-to-run edge the busy flag is always cleared', fn=body.name))
                elif writes:
                    out.append(bad(R, key, 'a pool thread that found nothing to run can go dormant with its busy flag still set: schedule_dormant never picks it again and it counts against the maximum for ever', fn=body.name))
    # ---- spawn: room means push
    sp = F.fn('desync::SchedulerCore::spawn_thread_if_less_than_maximum')
    key = 'spawn_thread_if_less_than_maximum|room-means-spawn'
    if sp:
        pushes = [bb for bb, t in calls(sp, 'alloc::vec::Vec::push') if t['args'] and t['args'][0]['k'] != 'const' and 'SchedulerThread' in clean_ty(t['args'][0]['pl']['ty'])]
        for bb, b in enumerate(sp.blocks):
            t = b['term']
            if t and t['k'] == 'switch' and not b['cleanup'] and pushes:
                for s_ in b['stmts']:
                    if s_['k'] == 'assign' and s_['rv']['k'] == 'binop' and s_['rv']['op'] in ('Lt', 'Gt', 'Le', 'Ge') and 'len(' in (render(sp.expr_of_operand(s_['rv']['a'])) + render(sp.expr_of_operand(s_['rv']['b']))):
                        succ = [tb for _, tb in t['targets']] + [t['otherwise']]
                        room = [e_ for e_ in succ if any(e_ == p_ or p_ in sp.reachable_blocks(e_) for p_ in pushes)]
                        if len(room) == 1:
                            if sp.must_pass(room[0], set(sp.exits()), set(pushes)):
                                out.append(ok(R, key, 'on the side of the bound test that has room a thread is always added', fn=sp.name))
                            else:
                                out.append(bad(R, key, 'the pool has room and spawn_thread_if_less_than_maximum can still refuse: a ready queue gets no thread although one could be spawned', fn=sp.name))
    # ---- sync_background waits only while its job is not done
    sb = F.fn('desync::Scheduler::sync_background')
    key = 'sync_background|waits-only-while-not-ready'
    if sb:
        waits = [bb for bb, t in calls(sb, 'Condvar::wait')]
        tests = []
        for bb, b in enumerate(sb.blocks):
            t = b['term']
            if t and t['k'] == 'switch' and not b['cleanup'] and t['discr']['k'] != 'const':
                e_ = sb.expr_of_operand(t['discr'])
                neg = False
                while e_[0] == 'unop' and e_[1] == 'Not':
                    neg = not neg
                    e_ = e_[2]
                txt = render(e_)
                is_flag = False
                if e_[0] == 'var' and isinstance(e_[1], int) and 'MutexGuard' in clean_ty(sb.local_ty(e_[1])) and 'bool' in clean_ty(sb.local_ty(e_[1])):
                    is_flag = True          # `*ready` through the named guard
                if 'lock(' in txt and txt.endswith(' as Ok).0') and 'Arc::new' not in txt and 'Mutex::new(0)' in txt.replace('new(new(0))', 'Mutex::new(0)'):
                    is_flag = True
                if is_flag and len(t['targets']) == 1:
                    tg = dict((str(v), tb) for v, tb in t['targets'])
                    not_ready = t['otherwise'] if neg else tg.get('0')
                    tests.append((bb, not_ready))
        if waits and tests:
            if all(any(edom(sb, nr, w) for _, nr in tests) for w in waits):
                out.append(ok(R, key, 'the wait lies on the ready==false edge of a test of the flag', fn=sb.name))
            else:
                out.append(bad(R, key, 'sync_background can wait on its condition variable although its ready flag is already set: the notification has been delivered and no other will come', fn=sb.name))
    # ---- drain_queue: a result that was taken out of the slot is returned
    dq = F.fn('desync::SchedulerFuture::drain_queue')
    key = 'drain_queue|taken-result-is-returned'
    if dq:
        takes = [(bb, t) for bb, t in calls(dq, 'FutureResultState::take')]
        readies = []
        for bb, b in enumerate(dq.blocks):
            if b['cleanup']:
                continue
            for s_ in b['stmts']:
                if s_['k'] == 'assign' and s_['rv']['k'] == 'agg' and s_['rv'].get('adt') == 'core::task::poll::Poll' and s_['rv'].get('variant') == 'Ready':
                    readies.append(bb)
        probs = 0
        n = 0
        # `result = slot.take(); if result.is_some() { .. }`: the test of the named variable the take was stored in
        named = {}
        for bb, t in takes:
            d_ = t['dest']['l']
            holders = {d_}
            for _ in range(3):
                for b2 in dq.blocks:
                    for s2 in b2['stmts']:
                        if s2['k'] == 'assign' and not s2['pl']['p'] and s2['rv']['k'] == 'use' and s2['rv']['op']['k'] in ('move', 'copy') and not s2['rv']['op']['pl']['p'] and s2['rv']['op']['pl']['l'] in holders:
                            holders.add(s2['pl']['l'])
            named[bb] = holders
        pred_tests = []
        for bb2, t2 in dq.calls():
            nm2 = t2['func'].get('fn') or ''
            if nm2 in ('core::option::Option::is_some', 'core::option::Option::is_none') and not dq.blocks[bb2]['cleanup'] and t2['args'] and t2['args'][0]['k'] != 'const':
                root = dq.expr_of_operand(t2['args'][0])
                if root[0] == 'var' and any(root[1] in h for h in named.values()) and t2['target'] is not None:
                    sw = switch_of_local(dq, t2['dest']['l'], t2['target'])
                    if sw:
                        tg2 = sw[1]
                        true_e, false_e = sw[2], tg2.get('0')
                        pred_tests.append(true_e if nm2.endswith('is_some') else false_e)
        for bb, t in takes:
            e = result_edges(dq, bb)
            some = edge_for(e, OPTION, 'Some') if e else None
            if some is None:
                continue
            n += 1
            if not dq.must_pass(some, set(dq.exits()), set(readies)) and feasible_reach(dq, some, set(dq.exits()), set(readies)):
                probs += 1
        for some in pred_tests:
            if some is None:
                continue
            n += 1
            if not dq.must_pass(some, set(dq.exits()), set(readies)) and feasible_reach(dq, some, set(dq.exits()), set(readies)):
                probs += 1
        if n:
            if probs:
                out.append(bad(R, key, 'drain_queue can take the result out of the slot and then return Pending: the value is dropped with the local and the future never resolves', fn=dq.name))
            else:
                out.append(ok(R, key, 'every path on which the result was taken returns Poll::Ready with it (%d take sites)' % n, fn=dq.name))
    # ---- SyncFuture::poll: the future it has just created is polled before poll returns
    sp2 = F.fn('<desync::SyncFuture as core::future::future::Future>::poll')
    key = 'SyncFuture::poll|new-future-is-polled-at-once'
    if sp2:
        creates = [s_.bb for s_ in g.sites.get(sp2.name, []) if s_.kind == 'param']
        upolls = [s_.bb for s_ in g.sites.get(sp2.name, []) if s_.kind == 'poll' and s_.foreign]
        if creates and upolls:
            tg = sp2.blocks[creates[0]]['term']['target']
            # the poll happens in the next turn of the state loop: what has to hold is that the function cannot return between creating the
            # future and dispatching on the state again (the `retry` flag is a constant on that path)
            disp = set(upolls)
            for bb_, b_ in enumerate(sp2.blocks):
                t_ = b_['term']
                if t_ and t_['k'] == 'switch' and not b_['cleanup']:
                    for s_ in b_['stmts']:
                        if s_['k'] == 'assign' and s_['rv']['k'] == 'discr' and 'SyncFutureState' in clean_ty(s_['rv']['pl']['ty']) and len(t_['targets']) >= 3:
                            disp.add(bb_)
            if tg is not None and (sp2.must_pass(tg, set(sp2.exits()), disp) or not feasible_reach(sp2, tg, set(sp2.exits()), disp)):
                out.append(ok(R, key, 'after creating the operation\'s future every path polls it before returning', fn=sp2.name))
            elif tg is not None:
                out.append(bad(R, key, 'SyncFuture::poll can return Pending right after creating the operation\'s future, without polling it: nothing holds a waker for the task any more (the slot signal is spent) and the future never completes', fn=sp2.name))
    # ---- pipe(): the producer answers "finished" only when the output is closed / gone or the input has ended
    ks = [k for k in _children(ctx, 'desync::pipe') if k.is_coroutine]
    key = 'pipe|finished-only-when-closed-or-ended'
    if len(ks) == 1:
        k = ks[0]
        prb = pipe_result_blocks(ctx, k)
        polls = [x for x in g.sites.get(k.name, []) if x.kind == 'poll' and 'poll_next' in (x.t['func'].get('fn') or '')]
        if prb and len(polls) == 1:
            keep_b, stop_b = prb
            licensed = set()
            e = result_edges(k, polls[0].bb)
            ready = edge_for(e, 'core::task::poll::Poll', 'Ready') if e else None
            inner = inner_switch(k, polls[0].t['dest']['l'], 'Ready', ready) if ready is not None else None
            none = edge_for(inner, OPTION, 'None') if inner else None
            if none is not None:
                licensed.add(none)
            from .ordq import field_test_edges
            for _, te_ in field_test_edges(k, 'closed', 'lock('):
                licensed.add(te_)
            for bb, b in enumerate(k.blocks):
                t = b['term']
                if t and t['k'] == 'switch' and not b['cleanup'] and t['discr']['k'] != 'const':
                    e_ = k.expr_of_operand(t['discr'])
                    txt = render(e_)
                    dty = ''
                    for s2_ in b['stmts']:
                        if s2_['k'] == 'assign' and s2_['rv']['k'] == 'discr':
                            dty = clean_ty(s2_['rv']['pl'].get('ty') or '')
                    if e_[0] == 'discr' and ('upgrade(' in txt or ('Option<' in dty and 'PipeStreamCore' in dty)):
                        tgd = dict((str(v), tb) for v, tb in t['targets'])
                        licensed.add(tgd.get('0', t['otherwise']))
            bad_stop = [b for b in stop_b if not any(edom(k, l_, b) or l_ == b for l_ in licensed)]
            if licensed and not bad_stop:
                out.append(ok(R, key, 'every "finished" answer lies on a closed==true edge, the end-of-input edge, or the output-core-is-gone edge', fn=k.name))
            elif licensed:
                out.append(bad(R, key, 'the producer can answer "finished" while the output stream is open and the input has not ended: the pipe is torn down and the remaining inputs never produce outputs', loc=k.loc(bad_stop[0]), fn=k.name))
    # ---- PipeStream::poll_next: a closed, empty stream ends
    pn = F.fn('<desync::PipeStream as futures_core::stream::Stream>::poll_next')
    key = 'PipeStream::poll_next|closed-and-empty-ends'
    if pn:
        pend = []
        for bb, b in enumerate(pn.blocks):
            if b['cleanup']:
                continue
            for s_ in b['stmts']:
                if s_['k'] == 'assign' and s_['rv']['k'] == 'agg' and s_['rv'].get('adt') == 'core::task::poll::Poll' and s_['rv'].get('variant') == 'Pending':
                    pend.append(bb)
        closed_true = []
        for bb, b in enumerate(pn.blocks):
            t = b['term']
            if t and t['k'] == 'switch' and not b['cleanup'] and t['discr']['k'] != 'const':
                txt = render(pn.expr_of_operand(t['discr']))
                if txt.endswith('.closed'):
                    closed_true.append(t['otherwise'])
        if pend and closed_true:
            if any(p_ == c_ or p_ in pn.reachable_blocks(c_) for c_ in closed_true for p_ in pend):
                out.append(bad(R, key, 'poll_next can answer Pending for a stream that is closed and empty: the consumer waits for an item that will never come instead of seeing the end', fn=pn.name))
            else:
                out.append(ok(R, key, 'once closed and empty the stream never answers Pending', fn=pn.name))
    return out
