"""Call graph over the crate's bodies, with the closed-world treatment of higher-order and dynamic calls.

Call-site kinds:
  static     resolved in-crate callee
  param      call of a type-parameter closure: bound in-crate closures (+ 'foreign' if a crate user can instantiate it)
  hof        external higher-order function that invokes its closure argument before returning (Option::map, retain, for_each..)
  stored     external function that stores / transfers its closure argument (Box::new, thread spawn, channel send, boxed())
  dyn_run    dynamic call of ScheduledJob::run  (candidates: the crate's impls; they run user code)
  wake       Waker::wake / wake_by_ref          (candidates: the crate's ArcWake impls + caller-supplied wakers)
  poll       Future::poll / Stream::poll_next on a value whose type is not an in-crate future (user code)
  external   any other out-of-crate function
"""
from collections import defaultdict

from .facts import clean_ty, ty_head
from .proto import Bindings, SCHEDULED_JOB

HOF_SYNC = {
    'core::option::Option::map', 'core::result::Result::map', 'core::iter::traits::iterator::Iterator::for_each',
    'core::iter::traits::iterator::Iterator::map', 'alloc::vec::Vec::retain', 'alloc::collections::vec_deque::VecDeque::retain',
    'core::option::Option::map_or', 'core::option::Option::and_then', 'core::option::Option::unwrap_or_else', 'core::result::Result::map_err',
    'core::result::Result::and_then', 'core::result::Result::unwrap_or_else', 'core::option::Option::filter', 'core::iter::traits::iterator::Iterator::filter',
    'core::iter::traits::iterator::Iterator::any', 'core::iter::traits::iterator::Iterator::all', 'core::iter::traits::iterator::Iterator::find',
    'core::iter::traits::iterator::Iterator::position', 'core::option::Option::get_or_insert_with', 'core::option::Option::ok_or_else',
    # iterator adaptors and consumers: lazy adaptors run their closure while the chain is consumed, which the crate does in the same function
    'core::iter::sources::from_fn::from_fn', 'core::iter::traits::iterator::Iterator::partition', 'core::iter::traits::iterator::Iterator::filter_map',
    'core::iter::traits::iterator::Iterator::find_map', 'core::iter::traits::iterator::Iterator::take_while', 'core::iter::traits::iterator::Iterator::skip_while',
    'core::iter::traits::iterator::Iterator::map_while', 'core::iter::traits::iterator::Iterator::fold', 'core::iter::traits::iterator::Iterator::try_for_each',
    'core::iter::traits::iterator::Iterator::try_fold', 'core::iter::traits::iterator::Iterator::inspect', 'core::iter::traits::iterator::Iterator::flat_map',
    'core::iter::traits::iterator::Iterator::rposition', 'core::iter::traits::iterator::Iterator::max_by_key', 'core::iter::traits::iterator::Iterator::min_by_key',
    'core::iter::traits::iterator::Iterator::count', 'core::iter::sources::repeat_with::repeat_with', 'core::iter::sources::successors::successors',
    'core::option::Option::map_or_else', 'core::option::Option::or_else', 'core::option::Option::is_some_and', 'core::option::Option::is_none_or',
    'core::result::Result::map_or', 'core::result::Result::map_or_else', 'core::result::Result::or_else', 'core::result::Result::is_ok_and', 'core::result::Result::is_err_and',
    'core::option::Option::inspect', 'core::result::Result::inspect', 'core::result::Result::inspect_err', 'core::option::Option::take_if',
    'alloc::vec::Vec::retain_mut', 'alloc::collections::vec_deque::VecDeque::retain_mut', 'core::slice::<impl [T]>::sort_by_key', 'core::slice::<impl [T]>::sort_by',
    'alloc::vec::Vec::extract_if', 'core::bool::<impl bool>::then', 'alloc::vec::Vec::dedup_by_key',
    # thread-local access runs its closure before returning (the lazy initialiser too)
    'std::thread::local::LocalKey::with', 'std::thread::local::LocalKey::try_with', 'std::sys::thread_local::native::lazy::Storage::get_or_init',
    'std::sync::once::Once::call_once', 'std::sync::once_lock::OnceLock::get_or_init',
    'std::panic::catch_unwind', 'std::panicking::try', 'core::iter::traits::iterator::Iterator::reduce', 'core::iter::traits::iterator::Iterator::scan',
    'core::iter::traits::iterator::Iterator::min_by', 'core::iter::traits::iterator::Iterator::max_by', 'core::iter::traits::iterator::Iterator::is_sorted_by',
    'core::iter::traits::iterator::Iterator::partition_in_place', 'core::iter::traits::iterator::Iterator::try_find', 'core::iter::traits::iterator::Iterator::sum',
    'core::iter::traits::double_ended::DoubleEndedIterator::rfind', 'core::iter::traits::double_ended::DoubleEndedIterator::rfold', 'core::iter::traits::double_ended::DoubleEndedIterator::try_rfold',
    'core::slice::<impl [T]>::sort_unstable_by', 'core::slice::<impl [T]>::sort_unstable_by_key', 'core::slice::<impl [T]>::binary_search_by', 'core::slice::<impl [T]>::binary_search_by_key',
    'core::slice::<impl [T]>::iter', 'alloc::vec::Vec::dedup_by', 'alloc::vec::Vec::resize_with', 'alloc::collections::vec_deque::VecDeque::resize_with',
    'core::option::Option::get_or_insert_with', 'core::option::Option::is_some_and', 'core::option::Option::zip_with', 'core::option::Option::unwrap_or_default',
    'core::result::Result::unwrap_or_default', 'core::cell::Cell::update', 'std::collections::hash::map::Entry::or_insert_with', 'std::collections::hash::map::HashMap::retain',
    'std::collections::hash::set::HashSet::retain', 'alloc::collections::btree::map::BTreeMap::retain', 'alloc::collections::btree::map::entry::Entry::or_insert_with',
    'std::thread::scoped::scope', 'core::iter::adapters::peekable::Peekable::next_if', 'core::array::from_fn', 'core::hint::black_box',
}
HOF_STORE = {
    'alloc::boxed::Box::new', 'alloc::sync::Arc::new', 'std::sync::poison::mutex::Mutex::new',
    'futures_util::future::future::FutureExt::boxed', 'std::thread::builder::Builder::spawn', 'std::thread::functions::spawn',
    'std::sync::mpsc::Sender::send', 'futures_task::future_obj::FutureObj::new', 'core::pin::Pin::new_unchecked', 'core::pin::Pin::new',
    'core::future::into_future::IntoFuture::into_future', 'core::option::Option::Some', 'core::mem::drop', 'core::mem::swap', 'core::mem::replace',
}

BLOCKING = {
    'std::sync::poison::condvar::Condvar::wait': 'Condvar::wait',
    'std::sync::poison::condvar::Condvar::wait_while': 'Condvar::wait',
    'std::sync::poison::condvar::Condvar::wait_timeout': 'Condvar::wait',
    'std::sync::poison::condvar::Condvar::wait_timeout_while': 'Condvar::wait',
    'std::thread::functions::park': 'thread::park',
    'std::thread::functions::park_timeout': 'thread::park',
    'std::thread::functions::sleep': 'thread::sleep',
    'std::thread::join_handle::JoinHandle::join': 'JoinHandle::join',
    'std::sync::mpsc::Receiver::recv': 'Receiver::recv',
    'std::sync::mpsc::Receiver::recv_timeout': 'Receiver::recv',
    'std::sync::mpsc::Receiver::recv_iter': 'Receiver::recv',
    'std::sync::barrier::Barrier::wait': 'Barrier::wait',
}

WAKE_FNS = {'core::task::wake::Waker::wake', 'core::task::wake::Waker::wake_by_ref'}
POLL_FNS = {
    'core::future::future::Future::poll', 'futures_util::future::future::FutureExt::poll_unpin',
    'futures_core::stream::Stream::poll_next', 'futures_util::stream::stream::StreamExt::poll_next_unpin',
}
ONESHOT_SEND = 'futures_channel::oneshot::Sender::send'


class Site:
    __slots__ = ('fn', 'bb', 't', 'kind', 'targets', 'foreign', 'what')

    def __init__(self, fn, bb, t, kind, targets=(), foreign=False, what=''):
        self.fn, self.bb, self.t, self.kind = fn, bb, t, kind
        self.targets = set(targets)
        self.foreign = foreign
        self.what = what

    @property
    def loc(self):
        return self.fn.loc(self.bb)


def _closure_args(t):
    out = []
    for a in t['args']:
        if a['k'] in ('move', 'copy'):
            ty = clean_ty(a['pl']['ty']).lstrip('&').replace('mut ', '', 1) if a['pl']['ty'].startswith('&') else clean_ty(a['pl']['ty'])
            if ty.startswith('{closure:') or ty.startswith('{coroutine:'):
                out.append(ty[ty.index(':') + 1:-1])
        elif a['k'] == 'const' and a.get('fn'):
            out.append(a['fn'])      # a function item passed by name (`.for_each(helper)`)
    return out


class CallGraph:
    def __init__(self, facts, bindings=None):
        self.F = facts
        self.bind = bindings or Bindings(facts)
        self.sites = defaultdict(list)
        self.problems = []
        self.job_run_impls = [n for n in facts.trait_impl_methods(SCHEDULED_JOB, 'run') if facts.fn(n)]
        self.wake_impls = [f.name for f in facts.all_fns if f.name.endswith('as futures_task::arc_wake::ArcWake>::wake_by_ref')]
        self.future_impls = {}
        for i in facts.impls:
            if i.get('trait') in ('core::future::future::Future', 'futures_core::stream::Stream'):
                for it in i['items']:
                    if it.endswith('::poll') or it.endswith('::poll_next'):
                        self.future_impls[i['self_head']] = it
        for fn in facts.crate_fns():
            for bb, t in fn.calls():
                self.sites[fn.name].append(self._classify(fn, bb, t))

    def _classify(self, fn, bb, t):
        F = self.F
        name = t['func'].get('fn')
        if name is None:
            return Site(fn, bb, t, 'external', foreign=True, what='indirect call')
        if t.get('trait') == SCHEDULED_JOB and t.get('method') == 'run' and t.get('rk') == 'virtual':
            return Site(fn, bb, t, 'dyn_run', self.job_run_impls, foreign=True, what='ScheduledJob::run')
        if t.get('resolved_local') and t.get('rk') in ('item', 'closure_once_shim') and F.fn(t['resolved']):
            return Site(fn, bb, t, 'static', [t['resolved']])
        if F.fn(name) and t.get('rk') != 'virtual':
            return Site(fn, bb, t, 'static', [name])
        if (t.get('trait') or '').startswith('core::ops::function::Fn'):
            st = clean_ty(t.get('self_ty', ''))
            if t.get('rk') == 'unresolved':
                defs, ext = self.bind.resolve(fn, st)
                return Site(fn, bb, t, 'param', [d for d in defs if F.fn(d)], foreign=ext, what='call of closure parameter %s' % st)
            if t.get('rk') == 'virtual' or 'dyn(' in st or st.startswith('alloc::boxed::Box<dyn'):
                return Site(fn, bb, t, 'param', [], foreign=True, what='call of boxed closure')
            return Site(fn, bb, t, 'param', [], foreign=True, what='call of closure value')
        if name in WAKE_FNS:
            return Site(fn, bb, t, 'wake', self.wake_impls, foreign=True, what=name.split('::')[-1])
        if name in POLL_FNS:
            # in-crate future?
            st = clean_ty(t.get('self_ty') or (t['args'][0]['pl']['ty'] if t['args'] and t['args'][0]['k'] != 'const' else ''))
            st = st.replace('&mut ', '').replace('&', '')
            if st.startswith('core::pin::Pin<'):
                st = st[len('core::pin::Pin<'):-1].replace('&mut ', '').replace('&', '')
            head = ty_head(st)
            if head in self.future_impls and F.fn(self.future_impls[head]):
                return Site(fn, bb, t, 'static', [self.future_impls[head]])
            lib = head.startswith('futures_channel::')
            return Site(fn, bb, t, 'poll', [], foreign=not lib, what='poll of %s' % (st or '?'))
        cl = _closure_args(t)
        if cl:
            if name in HOF_SYNC:
                return Site(fn, bb, t, 'hof', [c for c in cl if F.fn(c)], what=name)
            if name in HOF_STORE:
                return Site(fn, bb, t, 'stored', [c for c in cl if F.fn(c)], what=name)
            self.problems.append('external higher-order function %s receives a closure in %s: not classified' % (name, fn.name))
            return Site(fn, bb, t, 'hof', [c for c in cl if F.fn(c)], what=name)
        if name == ONESHOT_SEND:
            return Site(fn, bb, t, 'wake', [], foreign=True, what='oneshot::Sender::send (wakes the receiving task)')
        return Site(fn, bb, t, 'external', what=name)

    def sync_edges(self, fname):
        """[(site, callee name)] calls that run the callee on this thread before the call returns."""
        out = []
        for s in self.sites.get(fname, []):
            if s.kind in ('static', 'param', 'hof', 'dyn_run'):
                for c in s.targets:
                    out.append((s, c))
        return out

    def reachable(self, fname, skip=lambda site: False):
        seen, st = set(), [fname]
        while st:
            f = st.pop()
            if f in seen:
                continue
            seen.add(f)
            for s, c in self.sync_edges(f):
                if not skip(s):
                    st.append(c)
        return seen
