"""Rules over the extracted protocol: token typestate (TOK-*), transition relation (TR-*), protocol abstraction (PA-*)."""
from collections import defaultdict, deque

from .facts import short
from .proto import OWNED, UNOWNED, PARKED, ACTIVE_QUEUE
from .rule import ok, bad, undecided

SYNC = 'desync::Scheduler::sync'
SYNC_NP = 'desync::Scheduler::sync_no_panic'
TRY_SYNC = 'desync::Scheduler::try_sync'
POLL = '<desync::SchedulerFuture as core::future::future::Future>::poll'
RESCHED = 'desync::SchedulerCore::reschedule_queue'
WAKE_QUEUE = '<desync::WakeQueue as futures_task::arc_wake::ArcWake>::wake_by_ref'
WAKE_THREAD = '<desync::WakeThread as futures_task::arc_wake::ArcWake>::wake_by_ref'
AQ_DROP = '<%s as core::ops::drop::Drop>::drop' % ACTIVE_QUEUE


def _problems(ctx, rule):
    return [undecided(rule, 'analysis:' + p, p) for p in ctx.proto.problems]


def _is_root(ctx, fn, called):
    """Entry points of the crate: public API, trait-impl methods, and closures nobody in the crate calls synchronously."""
    if fn.reachable:
        return True
    if fn.name.startswith('<') and not fn.is_closure:
        return True
    if fn.name not in called:
        return True
    return False


def _called_set(P):
    called = set()
    for (kind, fname, key) in P.events:
        if kind == 'call':
            called.add(key)
    return called


def events_of(P, kind):
    for (k, fname, key), snaps in P.events.items():
        if k == kind:
            yield fname, key, snaps


# ---------------------------------------------------------------------------------------------
def tok_exec(ctx):
    """Jobs run only under the token: every execution site is reached with the token held on every path."""
    P = ctx.proto
    out = _problems(ctx, 'TOK-exec')
    F = ctx.F
    n = 0
    for fname, kind, snaps in events_of(P, 'exec'):
        n += 1
        fn = F.fn(fname)
        key = '%s|%s' % (short(fname), kind)
        bad_T = sorted(t for t in snaps if t != 'H')
        if bad_T:
            out.append(bad('TOK-exec', key, 'execution site reached with token state %s (N = never acquired, R = already released)' % bad_T, fn=fname))
        else:
            out.append(ok('TOK-exec', key, 'token held on every path', fn=fname))
    for fname, callee, snaps in events_of(P, 'call'):
        if callee not in P.requires_held or callee.startswith(AQ_DROP):
            continue
        key = '%s -> %s' % (short(fname), short(callee))
        if fname in P.requires_held:
            # propagated requirement: checked at this function's own callers
            bad_T = sorted(t for (t, crh) in snaps if t == 'R')
        else:
            bad_T = sorted(t for (t, crh) in snaps if t != 'H')
        if bad_T:
            out.append(bad('TOK-exec', key, '%s runs jobs and needs the token, but is called with token state %s' % (short(callee), bad_T), fn=fname))
        else:
            out.append(ok('TOK-exec', key, 'callee needs the token; held at the call', fn=fname))
    called = _called_set(P)
    for fname in sorted(P.requires_held):
        if fname.startswith(AQ_DROP):
            continue
        fn = F.fn(fname)
        if fn.reachable or (fname.startswith('<') and not fn.is_closure) or fname not in called:
            out.append(bad('TOK-exec', 'root:' + short(fname), 'entry point runs jobs without acquiring the queue (nobody hands it the token)', fn=fname))
    # ... and only while the queue is marked as running: a job polled while the state still says "parked" makes its runner misread the
    # state afterwards (it panics, or never sees the queue as runnable again)
    for fname, kind, snaps in events_of(P, 'exec_P'):
        states = set()
        for ps in snaps:
            states |= set(ps)
        key = '%s|%s|state' % (short(fname), kind)
        odd = sorted(states - {'Running', 'AwokenWhileRunning'})
        if odd:
            out.append(bad('TOK-exec', key, 'a job can be run while the queue state is %s (the runner resumed without the state having been put back to Running)' % ', '.join(odd), fn=fname))
        else:
            out.append(ok('TOK-exec', key, 'jobs run only in state Running (AwokenWhileRunning if a waker fires meanwhile)', fn=fname))
    if n < 4:
        out.append(undecided('TOK-exec', 'floor', 'found %d execution sites, expected at least 4' % n))
    return out


def tok_leak(ctx):
    """An acquired token is released, handed to a callee that releases it, or reported to the caller in the result."""
    P = ctx.proto
    out = _problems(ctx, 'TOK-leak')
    called = _called_set(P)
    acquirers = set()
    for fname, _, snaps in events_of(P, 'write'):
        if any(role == 'acquire' for (_, _, role) in snaps):
            acquirers.add(fname)
    exits = {fname: snaps for fname, _, snaps in events_of(P, 'exit')}
    for fn in P.fns:
        ex = exits.get(fn.name, set())
        holds = [e for e in ex if e[0] == 'H']
        if fn.name in P.requires_held:
            continue
        if fn.name not in acquirers and not holds:
            continue
        key = short(fn.name)
        if _is_root(ctx, fn, called):
            if holds:
                rets = sorted(set(repr(e[1]) for e in holds))
                out.append(bad('TOK-leak', key, 'entry point can return with the queue marked as running by it and nobody running it (return value on that path: %s)' % ', '.join(rets), fn=fn.name))
            else:
                out.append(ok('TOK-leak', key, 'every exit has released or never acquired', fn=fn.name))
        else:
            # claim-returning helper: the result must tell the caller
            h = set(e[1] for e in ex if e[0] == 'H')
            n = set(e[1] for e in ex if e[0] != 'H')
            if holds and (None in h or (h & n)):
                out.append(bad('TOK-leak', key, 'helper returns holding the queue on some paths but its result does not distinguish them (held: %s, not held: %s)' % (sorted(map(repr, h)), sorted(map(repr, n))), fn=fn.name))
            else:
                out.append(ok('TOK-leak', key, 'claim reported in the result: held iff %s' % sorted(map(repr, h)), fn=fn.name))
    if len(acquirers) < 6:
        out.append(undecided('TOK-leak', 'floor', 'found %d acquiring functions, expected at least 6' % len(acquirers)))
    return out


def _viol_rule(ctx, rule, site_filter, floor, what):
    P = ctx.proto
    out = _problems(ctx, rule)
    sites = defaultdict(set)
    for fname, key, snaps in events_of(P, 'writesite'):
        for (s, s2, role, own, len0) in snaps:
            if site_filter(s, s2, role):
                sites[fname].add((s, s2, len0))
    viol = defaultdict(list)
    for (r, fname, msg, loc) in P.viol:
        if r == rule:
            viol[fname].append((msg, loc))
    nsites = 0
    for fname in sorted(set(sites) | set(viol)):
        nsites += 1
        key = short(fname)
        if viol.get(fname):
            msg, loc = viol[fname][0]
            out.append(bad(rule, key, msg, loc=loc, fn=fname, extra={'paths': len(viol[fname])}))
        else:
            out.append(ok(rule, key, '%s: obligation met on every path (%s)' % (what, sorted(sites[fname])), fn=fname))
    return out, nsites


def tok_resched(ctx):
    """After an owner puts the queue back to Idle, reschedule_queue follows on every path unless the queue was seen empty in the same critical section."""
    P = ctx.proto
    out, _ = _viol_rule(ctx, 'TOK-resched', lambda s, s2, role: role == 'owner' and s2 == 'Idle' and s != s2, 6, 'owner release to Idle')
    # count sites
    nsites = 0
    for fname, key, snaps in events_of(P, 'writesite'):
        if any(role == 'owner' and s2 == 'Idle' and s != s2 for (s, s2, role, own, len0) in snaps):
            # a release written in a helper shared by the runners counts once per runner that calls it
            mult = 1
            if fname in getattr(P, 'owner_helpers', ()):
                mult = max(1, sum(1 for (k_, f2, callee), v in P.events.items() if k_ == 'call' and callee == fname))
            nsites += mult
    if nsites < 6:
        out.append(undecided('TOK-resched', 'floor', 'found %d owner Idle-release sites, expected at least 6' % nsites))
    # an owner never hands the queue straight to Pending: it releases to Idle and reschedule_queue (which also tells the sync callers blocked
    # in wake_blocked that the queue can be claimed) decides what happens next
    direct = sorted(set(fname for fname, _, snaps in events_of(P, 'write') if any(role == 'owner' and s2 == 'Pending' and s != s2 for (s, s2, role) in snaps)))
    for fname in direct:
        out.append(bad('TOK-resched', '%s|owner->Pending' % short(fname), 'the runner marks the queue Pending itself instead of releasing it to Idle and calling reschedule_queue: '
                       'sync callers blocked on this queue (wake_blocked) are not told that it can be claimed and wait for a pool thread that may never come', fn=fname))
    if not direct:
        out.append(ok('TOK-resched', 'owner->Pending', 'no runner writes Pending directly; only reschedule_queue and schedule_job_desync mark a queue Pending'))
    # callee side: the Idle row of reschedule_queue may skip scheduling only when the queue is empty
    rex = [snaps for fname, _, snaps in events_of(P, 'region_exit') if fname == RESCHED]
    if not rex:
        out.append(undecided('TOK-resched-body', 'anchor', 'SchedulerCore::reschedule_queue not found or has no critical section'))
    else:
        found_idle = False
        found_pending = False
        for snaps in rex:
            for (S, T, enums, len0, own, S0) in snaps:
                if S == frozenset(['Idle']):
                    found_idle = True
                    if len0 != 'Y':
                        out.append(bad('TOK-resched-body', 'reschedule_queue|Idle row', 'leaves an Idle queue unscheduled on a path that has not established that the queue is empty (len0=%s)' % len0, fn=RESCHED))
                if S == frozenset(['Pending']):
                    found_pending = True
        trans = set()
        for fname, _, snaps in events_of(P, 'write'):
            if fname == RESCHED:
                trans |= set((s, s2) for (s, s2, role) in snaps)
        if ('Idle', 'Pending') not in trans:
            out.append(bad('TOK-resched-body', 'reschedule_queue|Idle->Pending', 'reschedule_queue no longer moves an Idle queue with jobs to Pending', fn=RESCHED))
        elif not any(i.rule == 'TOK-resched-body' for i in out):
            out.append(ok('TOK-resched-body', 'reschedule_queue|Idle row', 'Idle stays Idle only on the queue-empty edge; otherwise Idle->Pending', fn=RESCHED))
    return out


def tok_pending(ctx):
    """Every non-owner write of Pending is followed by schedule.push_back(queue) and then schedule_thread."""
    out, n = _viol_rule(ctx, 'TOK-pending', lambda s, s2, role: role == 'nonowner' and s2 == 'Pending' and s != s2, 2, 'Idle->Pending')
    if n < 2:
        out.append(undecided('TOK-pending', 'floor', 'found %d Pending-marking functions, expected at least 2' % n))
    return out


def tok_requeue(ctx):
    """Between a job returning Poll::Pending and any release of the queue, the job is put back (requeue) or run again."""
    P = ctx.proto
    out = _problems(ctx, 'TOK-requeue')
    viol = defaultdict(list)
    for (r, fname, msg, loc) in P.viol:
        if r == 'TOK-requeue':
            viol[fname].append((msg, loc))
    n = 0
    for fname, kind, snaps in events_of(P, 'exec'):
        if kind != 'job.run':
            continue
        n += 1
        key = short(fname)
        if viol.get(fname):
            msg, loc = viol[fname][0]
            out.append(bad('TOK-requeue', key, msg, loc=loc, fn=fname))
        else:
            out.append(ok('TOK-requeue', key, 'a job that returned Pending is requeued or re-run before any release/return', fn=fname))
    if n < 3:
        out.append(undecided('TOK-requeue', 'floor', 'found %d job-running functions, expected at least 3' % n))
    return out


# ---------------------------------------------------------------------------------------------
def transitions(ctx):
    """[(fn, s, s2, role)] element-wise transition relation extracted from the code."""
    P = ctx.proto
    out = []
    for fname, _, snaps in events_of(P, 'write'):
        for (s, s2, role) in sorted(snaps):
            out.append((fname, s, s2, role))
    out.sort()
    return out


def tr_dead(ctx):
    """Nothing leaves Panicked."""
    out = _problems(ctx, 'TR-dead')
    n = 0
    for (fname, s, s2, role) in transitions(ctx):
        if s == 'Panicked':
            n += 1
            key = '%s|Panicked->%s' % (short(fname), s2)
            if s2 != 'Panicked':
                out.append(bad('TR-dead', key, 'a panicked queue is moved to %s (%s write)' % (s2, role), fn=fname))
            else:
                out.append(ok('TR-dead', key, 'identity', fn=fname))
    # some function must *enter* Panicked
    if not any(s2 == 'Panicked' and s != s2 for (_, s, s2, _) in transitions(ctx)):
        out.append(bad('TR-dead', 'enter', 'no transition into Panicked exists any more'))
    if n < 1:
        out.append(undecided('TR-dead', 'floor', 'no site observes Panicked at all'))
    # ... and only the unwinding guard enters it: any other write of Panicked kills a healthy queue
    enters = sorted(set(fname for (fname, s, s2, role) in transitions(ctx) if s2 == 'Panicked' and s != s2 and not fname.startswith(AQ_DROP)))
    for fname in enters:
        out.append(bad('TR-dead', '%s|enters-Panicked' % short(fname), 'the queue is marked Panicked outside ActiveQueue::drop: no operation panicked, yet every later operation on the object is refused', fn=fname))
    if not enters:
        out.append(ok('TR-dead', 'enters-Panicked', 'only ActiveQueue::drop marks a queue Panicked'))
    return out


def tr_roles(ctx):
    """Who may write what: the parked states are written only by the runner that parks (an owner write); a thread that does not own
    the queue never parks it."""
    from .proto import PARKED
    out = _problems(ctx, 'TR-roles')
    n = 0
    for (fname, s, s2, role) in sorted(transitions(ctx)):
        if s2 in PARKED and s != s2:
            n += 1
            key = '%s|%s->%s' % (short(fname), s, s2)
            if role == 'owner':
                out.append(ok('TR-roles', key, 'parked by its runner', fn=fname))
            else:
                out.append(bad('TR-roles', key, 'a thread that does not own the queue moves it to %s: nothing is suspended, so no waker will ever resume the queue and everything queued on it is stranded' % s2, fn=fname))
    if n < 3:
        out.append(undecided('TR-roles', 'floor', 'found %d parking transitions, expected at least 3' % n))
    # ... and a runner parks the queue only because a job has just answered Pending (there is a suspended job whose waker will resume it)
    for fname, _, snaps in events_of(ctx.proto, 'park_write'):
        for (s, s2, susp) in sorted(snaps):
            key = '%s|%s->%s|after-Pending' % (short(fname), s, s2)
            if susp:
                out.append(ok('TR-roles', key, 'parked after a job returned Poll::Pending', fn=fname))
            else:
                out.append(bad('TR-roles', key, 'the runner parks the queue in %s on a path where no job has answered Pending: no waker exists that would resume it, everything queued on it is stranded' % s2, fn=fname))
    return out


def tr_defer(ctx):
    """A caller that decides to wait (instead of running the queue itself) does so only in states where somebody owns or will wake the queue."""
    P = ctx.proto
    out = _problems(ctx, 'TR-defer')
    table = {SYNC: 'sync', SYNC_NP: 'sync_no_panic', POLL: 'SchedulerFuture::poll'}
    rex = defaultdict(set)
    for fname, _, snaps in events_of(P, 'region_exit'):
        rex[fname] |= snaps
    for fname, nice in table.items():
        if fname not in rex:
            out.append(undecided('TR-defer', nice, 'anchor %s not found or has no JobQueue.core critical section' % fname))
            continue
        rows = 0
        for (S, T, enums, len0, own, S0) in sorted(rex[fname], key=repr):
            if T != 'N':
                continue
            rows += 1
            stranded = sorted(S & frozenset(['Idle', 'Pending']))
            key = '%s|%s->%s' % (nice, '/'.join(sorted(S)), '/'.join(enums) or '-')
            if S == frozenset(['WaitingForPoll']) and own == 'Y':
                out.append(bad('TR-defer', key + '|own', 'a future that finds the queue parked for itself (WaitingForPoll with its own id) decides to wait: it is the only one who can continue the queue without a pool thread', fn=fname))
            elif stranded:
                out.append(bad('TR-defer', key, 'decides not to run the queue while it is %s: nobody is obliged to run it, the caller would wait for ever' % '/'.join(stranded), fn=fname))
            else:
                out.append(ok('TR-defer', key, 'defers only while the queue is owned or parked', fn=fname))
        if rows < 1:
            out.append(undecided('TR-defer', nice + '|floor', 'no deferring row found: a caller cannot run a queue that somebody else is running, so it defers at least then'))
    return out


def decision_table(ctx, fname, need_enums=True):
    """pre-state -> set of (token after, decision enums, queue-empty flag) at the exit of the function's JobQueue.core region."""
    P = ctx.proto
    tab = defaultdict(set)
    for f, _, snaps in events_of(P, 'region_exit'):
        if f != fname:
            continue
        for (S, T, enums, len0, own, S0) in snaps:
            if not enums and need_enums:
                continue
            for s in S0:
                tab[s].add((T, enums, len0 if T == 'H' else '-'))
    return tab


def tr_sibling(ctx):
    """Duplicated decision code agrees: sync vs sync_no_panic (except on Panicked), try_sync's immediate row vs sync's, the two queue wakers on the states both handle."""
    P = ctx.proto
    out = _problems(ctx, 'TR-sibling')
    a, b = decision_table(ctx, SYNC), decision_table(ctx, SYNC_NP)
    if not a or not b:
        out.append(undecided('TR-sibling', 'sync/sync_no_panic', 'decision tables not found'))
    else:
        diffs = []
        for s in sorted(set(a) | set(b)):
            if s == 'Panicked':
                continue
            if a.get(s) != b.get(s):
                diffs.append('row %s: sync %s vs sync_no_panic %s' % (s, sorted(a.get(s, []), key=repr), sorted(b.get(s, []), key=repr)))
        if diffs:
            out.append(bad('TR-sibling', 'sync/sync_no_panic', 'decision tables differ outside the Panicked row: ' + '; '.join(diffs), fn=SYNC_NP))
        else:
            out.append(ok('TR-sibling', 'sync/sync_no_panic', 'same decisions from the same states (Panicked row excepted)', fn=SYNC_NP))
        # the Panicked rows: sync refuses, sync_no_panic reports
        pa = set(e for (_, e, _) in a.get('Panicked', set()))
        pb = set(e for (_, e, _) in b.get('Panicked', set()))
        if pa != pb or not pa:
            out.append(bad('TR-sibling', 'sync/sync_no_panic|Panicked', 'Panicked rows decide differently: %s vs %s' % (sorted(pa), sorted(pb))))
        else:
            out.append(ok('TR-sibling', 'sync/sync_no_panic|Panicked', 'both single out Panicked (%s)' % sorted(pa)))
    # try_sync immediate row == sync immediate row
    t = decision_table(ctx, TRY_SYNC, need_enums=False)
    if not t:
        out.append(undecided('TR-sibling', 'try_sync/sync|Immediate', 'try_sync decision table not found'))
    else:
        def claiming(tab):
            return sorted((s, e, l) for s, rows in tab.items() for (T, e, l) in rows if T == 'H')
        imm_s = [(s, l) for (s, e, l) in claiming(a) if 'Immediate' in e]
        # try_sync either runs its closure at once or reports Busy: every row in which it claims the queue is an immediate run, however the
        # decision is spelled (an enum, a bool, a Result)
        cl_t = claiming(t)
        imm_t = sorted(set((s, l) for (s, e, l) in cl_t))
        other_t = []
        imm_s = sorted(set(imm_s))
        if imm_t != imm_s or other_t or not imm_t:
            out.append(bad('TR-sibling', 'try_sync/sync|Immediate', 'try_sync runs immediately from %s (sync: %s) and claims the queue without running from %s (must be nothing)' % (imm_t, imm_s, other_t), fn=TRY_SYNC))
        else:
            out.append(ok('TR-sibling', 'try_sync/sync|Immediate', "try_sync claims only (Idle, queue empty), exactly sync's immediate row", fn=TRY_SYNC))
    # wakers
    wq = {(s, s2) for (f, s, s2, role) in transitions(ctx) if f == WAKE_QUEUE}
    wt = {(s, s2) for (f, s, s2, role) in transitions(ctx) if f == WAKE_THREAD}
    if not wq or not wt:
        out.append(undecided('TR-sibling', 'WakeQueue/WakeThread', 'waker transition tables not found'))
    else:
        for s in ('Running', 'WaitingForWake'):
            ra = sorted(s2 for (x, s2) in wq if x == s)
            rb = sorted(s2 for (x, s2) in wt if x == s)
            key = 'WakeQueue/WakeThread|%s' % s
            if ra != rb and s == 'WaitingForWake' and ra and rb and set(ra) | set(rb) <= {'Idle', 'Pending'}:
                out.append(ok('TR-sibling', key, 'both hand a queue parked in %s back to be claimed (WakeQueue -> %s, WakeThread -> %s)' % (s, ra, rb)))
            elif ra != rb:
                out.append(bad('TR-sibling', key, 'the two wakers disagree on %s: WakeQueue -> %s, WakeThread -> %s' % (s, ra, rb)))
            else:
                out.append(ok('TR-sibling', key, 'both map %s -> %s' % (s, ra)))
    return out


# ---------------------------------------------------------------------------------------------
class PA:
    """Counting abstraction over the extracted relation: configurations (state, holders in {0,1,2+})."""

    def __init__(self, ctx):
        self.ctx = ctx
        P = ctx.proto
        self.trans = transitions(ctx)
        self.init = [(s, 0) for s in sorted(P.init_states)] or [('Idle', 0)]
        self.edges = defaultdict(list)   # cfg -> [(cfg2, label)]
        self.reach = {}
        self._explore()

    def step(self, cfg):
        s, h = cfg
        for (fname, a, b, role) in self.trans:
            if a != s:
                continue
            if role == 'acquire':
                yield (b, min(h + 1, 2)), (fname, a, b, role)
            elif role == 'owner':
                if h >= 1:
                    h2 = h - 1 if b in UNOWNED else h
                    yield (b, h2), (fname, a, b, role)
            else:
                yield (b, h), (fname, a, b, role)

    def _explore(self):
        q = deque()
        for c in self.init:
            self.reach[c] = None
            q.append(c)
        while q:
            c = q.popleft()
            for c2, lab in self.step(c):
                self.edges[c].append((c2, lab))
                if c2 not in self.reach:
                    self.reach[c2] = (c, lab)
                    q.append(c2)

    def trace(self, cfg):
        path = []
        cur = cfg
        while self.reach.get(cur) is not None:
            prev, lab = self.reach[cur]
            path.append('%s --[%s: %s->%s, %s]--> %s' % (prev, short(lab[0]), lab[1], lab[2], lab[3], cur))
            cur = prev
        path.reverse()
        return path


def pa_rules(ctx):
    """PA-excl: never two holders.  PA-stuck: never a running state without a holder.  PA-wake: every parked configuration can be resumed."""
    out = _problems(ctx, 'PA')
    pa = PA(ctx)
    ctx._pa = pa
    if len(pa.trans) < 30:
        out.append(undecided('PA', 'floor', 'only %d transitions extracted, expected at least 30' % len(pa.trans)))
    two = [c for c in pa.reach if c[1] >= 2]
    if two:
        c = sorted(two)[0]
        out.append(bad('PA-excl', 'two-holders', 'two runners can hold the same queue: ' + ' ; '.join(pa.trace(c)), extra={'trace': pa.trace(c)}))
    else:
        out.append(ok('PA-excl', 'two-holders', 'no configuration with two holders among %d reachable' % len(pa.reach)))
    stuck = [c for c in pa.reach if c[0] in OWNED and c[1] == 0]
    if stuck:
        for c in sorted(stuck):
            out.append(bad('PA-stuck', 'ownerless:%s' % c[0], 'queue can be left in %s with nobody running it: ' % c[0] + ' ; '.join(pa.trace(c)), extra={'trace': pa.trace(c)}))
    else:
        out.append(ok('PA-stuck', 'ownerless', 'no reachable configuration has a running state without a holder'))
    orphan = [c for c in pa.reach if c[0] in UNOWNED and c[1] >= 1]
    if orphan:
        for c in sorted(orphan):
            out.append(bad('PA-stuck', 'phantom:%s' % c[0], 'a runner still believes it owns the queue while the state says %s (another runner may claim it): ' % c[0] + ' ; '.join(pa.trace(c)), extra={'trace': pa.trace(c)}))
    else:
        out.append(ok('PA-stuck', 'phantom', 'no reachable configuration has a holder in a state that says the queue is free'))
    # PA-wake: from each reachable parked configuration, wakers/claimers alone can get the queue running again
    parked = [c for c in pa.reach if c[0] in PARKED]
    for c in sorted(parked):
        seen = {c}
        q = deque([c])
        good = False
        while q and not good:
            x = q.popleft()
            for c2, lab in pa.step(x):
                if lab[3] == 'owner':
                    continue
                if c2[0] == 'Running' and c2[1] >= 1:
                    good = True
                    break
                if c2 not in seen:
                    seen.add(c2)
                    q.append(c2)
        key = 'resume:%s/%d' % c
        if good:
            out.append(ok('PA-wake', key, 'wakers and claimers alone lead back to Running with a holder'))
        else:
            out.append(bad('PA-wake', key, 'no sequence of waker / claimer transitions gets a queue parked in %s running again' % c[0]))
    for st in ('WaitingForWake', 'WaitingForUnpark', 'WaitingForPoll'):
        if not any(c[0] == st for c in parked):
            out.append(undecided('PA-wake', 'reach:' + st, 'parked state %s is not reachable in the extracted protocol' % st))
    return out


SYNC_IMMEDIATE = 'desync::Scheduler::sync_immediate'


def tr_immediate(ctx):
    """A caller's closure is run directly (out of the queue) only when the queue was claimed from Idle *and* seen empty in that critical section."""
    P = ctx.proto
    out = _problems(ctx, 'TR-immediate')
    # functions that run the caller's closure directly
    direct = set(fn.name for fn, bb, kind in P.exec_sites if kind == 'closure()')
    n = 0
    for fname, callee, snaps in events_of(P, 'call_acq'):
        if callee not in direct:
            continue
        n += 1
        key = '%s -> %s' % (short(fname), short(callee))
        badrows = []
        for acq in snaps:
            if acq is None:
                badrows.append('token not acquired in this function')
            else:
                pre, len0 = acq
                if set(pre) != {'Idle'} or len0 != 'Y':
                    badrows.append('claimed from %s with queue-empty=%s' % ('/'.join(pre), len0))
        if badrows:
            out.append(bad('TR-immediate', key, 'the closure is run ahead of the queue: %s. Work already queued (including the final job of Desync::drop) would be overtaken' % '; '.join(sorted(set(badrows))), fn=fname))
        else:
            out.append(ok('TR-immediate', key, 'only from (Idle, queue empty)', fn=fname))
    if n < 3:
        out.append(undecided('TR-immediate', 'floor', 'found %d direct-run call sites, expected at least 3' % n))
    return out


def park_wake(ctx):
    """Each waker resumes what it finds parked: the queue waker reschedules a queue parked in WaitingForWake or WaitingForPoll (so a pool
    thread takes over a queue whose polling task went away); the thread waker unparks a queue parked in WaitingForUnpark."""
    P = ctx.proto
    out = _problems(ctx, 'PARK-wake')
    acts = defaultdict(set)
    for fname, _, snaps in events_of(P, 'exit_act'):
        acts[fname] |= snaps
    need = {WAKE_QUEUE: (('WaitingForWake', 'WaitingForPoll'), 1, 'reschedule_queue'),
            # the thread waker must also unpark when it finds the queue Running: a stale waker of an earlier runner may have moved
            # WaitingForUnpark -> Running while the current runner is still parked
            WAKE_THREAD: (('WaitingForUnpark', 'Running'), 2, 'Thread::unpark')}
    for fname, (states, bit, what) in need.items():
        if fname not in acts:
            out.append(undecided('PARK-wake', short(fname), 'waker not found'))
            continue
        for st in states:
            rows = [(pre, act) for (pre, act) in acts[fname] if pre is not None and st in pre]
            key = '%s|%s' % (short(fname).split(' as ')[0].strip('<'), st)
            if not rows:
                out.append(bad('PARK-wake', key, 'no path of the waker handles a queue parked in %s' % st, fn=fname))
            elif all(act & bit for (pre, act) in rows):
                out.append(ok('PARK-wake', key, 'calls %s on every path that found the queue in %s' % (what, st), fn=fname))
            else:
                out.append(bad('PARK-wake', key, 'a path that finds the queue parked in %s returns without calling %s: the wake-up is dropped and nobody resumes the queue' % (st, what), fn=fname))
    # latch: a wake that arrives while the job is still being polled (state Running) is remembered ...
    for fname, nice in ((WAKE_QUEUE, 'WakeQueue'), (WAKE_THREAD, 'WakeThread')):
        tr = {(s, s2) for (f, s, s2, role) in transitions(ctx) if f == fname}
        key = '%s|latch-while-running' % nice
        if not tr:
            continue
        if ('Running', 'AwokenWhileRunning') in tr:
            out.append(ok('PARK-wake', key, 'a wake during the poll is recorded as AwokenWhileRunning', fn=fname))
        else:
            out.append(bad('PARK-wake', key, 'a wake that arrives while the job is being polled (queue Running) leaves no trace: the runner then parks the queue and nothing wakes it again', fn=fname))
    # ... and every runner that parks on Poll::Pending consumes the latch instead of parking
    parkers = {'desync::JobQueue::drain': 'WaitingForWake', 'desync::JobQueue::run_one_job_now': 'WaitingForUnpark'}
    for fname, parked in parkers.items():
        tr = {(s, s2) for (f, s, s2, role) in transitions(ctx) if f == fname}
        key = '%s|consumes-latch' % short(fname)
        if not tr:
            out.append(undecided('PARK-wake', key, 'runner not found'))
        elif ('AwokenWhileRunning', parked) in tr:
            out.append(bad('PARK-wake', key, 'the runner parks the queue (%s) although a wake was recorded while it was polling: that wake-up is lost' % parked, fn=fname))
        elif ('AwokenWhileRunning', 'Running') in tr and ('Running', parked) in tr:
            out.append(ok('PARK-wake', key, 'AwokenWhileRunning -> Running (poll again), Running -> %s (park)' % parked, fn=fname))
        else:
            out.append(bad('PARK-wake', key, 'the runner no longer parks on Running / re-polls on AwokenWhileRunning (transitions: %s)' % sorted(tr), fn=fname))
    # a runner goes to sleep (thread::park) only when the state it last saw says "parked": a second wake-up that arrived meanwhile has
    # turned Running into AwokenWhileRunning and left no unpark token, so parking on "anything but Running" sleeps for ever
    nparks = 0
    for fname, _, snaps in events_of(P, 'park'):
        nparks += 1
        key = '%s|parks-only-when-parked' % short(fname)
        seen = set()
        unknown = False
        for (T, Pset) in snaps:
            if Pset is None:
                unknown = True
            else:
                seen |= set(Pset)
        odd = sorted(seen - {'WaitingForUnpark'})
        if odd:
            out.append(bad('PARK-wake', key, 'the runner can call thread::park() after having seen the queue in %s: a wake-up that already happened is not honoured and no further unpark will come' % ', '.join(odd), fn=fname))
        elif unknown:
            out.append(undecided('PARK-wake', key, 'thread::park() is reached on a path where the state last seen by the runner is not known'))
        else:
            out.append(ok('PARK-wake', key, 'thread::park() only after the queue was seen in WaitingForUnpark', fn=fname))
    if nparks < 1:
        out.append(undecided('PARK-wake', 'floor:park', 'no thread::park() site found in the protocol functions'))
    # the protocol code never panics while it runs a queue: its `other => panic!(..)` arms must be infeasible for every state a waker can
    # legitimately produce in the meantime
    for fname, _, snaps in events_of(P, 'panic_T'):
        owning = [(T, Pset) for (T, Pset, dbg) in snaps if T == 'H' and not dbg]
        if owning:
            states = sorted(set(s for (T, Pset) in owning for s in (Pset or ())))
            out.append(bad('PARK-wake', '%s|no-panic-while-owning' % short(fname), 'a panic! in the protocol code is reachable while this function owns the queue, with the queue in %s: '
                           'a state that the wakers legitimately produce is treated as impossible' % (', '.join(states) or 'an unknown state'), fn=fname))
    # reschedule_queue offers a WaitingForPoll queue to the pool, and the pool accepts it
    if any(r == 'TOK-pending' and f.endswith('reschedule_queue') for (r, f, m, l) in P.viol):
        out.append(bad('PARK-wake', 'reschedule_queue|WaitingForPoll', 'a queue parked for a polling task is not put on the schedule when it is woken', fn=RESCHED))
    else:
        out.append(ok('PARK-wake', 'reschedule_queue|WaitingForPoll', 'a woken WaitingForPoll queue is pushed on the schedule and a thread is asked', fn=RESCHED))
    # the claimers claim what they exist for: the pool takes Pending queues (and parked-for-poll ones, below); a blocked sync caller takes
    # a queue that became Pending or Idle while it waited
    acq = defaultdict(set)
    for (fname, s_, s2_, role_) in transitions(ctx):
        if role_ == 'acquire':
            acq[fname].add(s_)
    for fname, wanted, why in (('desync::SchedulerCore::next_to_run', {'Pending'}, 'a scheduled queue is never picked up by a pool thread'),
                               ('desync::SchedulerCore::claim_pending_queue', {'Pending'}, 'a sync caller woken because its queue can be claimed does not claim it: with no free pool thread it waits for ever')):
        got = set()
        for f2, ss in acq.items():
            fo = ctx.F.fn(f2)
            if f2 == fname or (fo is not None and fo.root == fname):
                got |= ss
        key = '%s|claims-%s' % (short(fname), '+'.join(sorted(wanted)))
        if not ctx.F.fn(fname):
            out.append(undecided('PARK-wake', key, 'anchor not found'))
        elif wanted <= got:
            out.append(ok('PARK-wake', key, 'acquires from %s' % ', '.join(sorted(got)), fn=fname))
        else:
            out.append(bad('PARK-wake', key, 'no longer acquires a queue that is %s (acquires from: %s): %s' % (' / '.join(sorted(wanted - got)), ', '.join(sorted(got)) or 'nothing', why), fn=fname))
    pool_claims = set()
    for fname, key, snaps in events_of(P, 'writesite'):
        for (s, s2, role, own, len0) in snaps:
            if role == 'acquire' and s == 'WaitingForPoll' and own != 'Y':
                pool_claims.add(fname)
    if pool_claims:
        out.append(ok('PARK-wake', 'pool|claims-WaitingForPoll', 'a queue abandoned by its polling task can be claimed by %s' % ', '.join(short(x) for x in sorted(pool_claims))))
    else:
        out.append(bad('PARK-wake', 'pool|claims-WaitingForPoll', 'only the future that parked the queue can resume it: if that future is dropped or never polled again the operation and everything behind it is stranded'))
    # a queue is parked for a polling task only on a path where that task is told to poll again (Poll::Pending): a future that parks the
    # queue for itself and reports Ready is never polled again, and without a free pool thread nobody else may take a WaitingForPoll queue
    n = 0
    for fname, _, snaps in events_of(P, 'exit_state'):
        rows = [(T, rel, ret) for (T, rel, ret) in snaps if rel == 'WaitingForPoll']
        if not rows:
            continue
        n += 1
        key = '%s|WaitingForPoll-returns-Pending' % short(fname)
        rets = set(ret for (T, rel, ret) in rows)
        if rets == {('enum', 'Pending')}:
            out.append(ok('PARK-wake', key, 'every path that parks the queue for the polling task returns Poll::Pending', fn=fname))
        elif None in rets:
            out.append(undecided('PARK-wake', key, 'return value of a path that parks the queue in WaitingForPoll is not tracked'))
        else:
            out.append(bad('PARK-wake', key, 'a path parks the queue as WaitingForPoll (reserved for this future\'s next poll) and returns %s: the future is not polled again, so only a free pool thread could ever resume the queue' % sorted(r[1] for r in rets if r), fn=fname))
    if n == 0:
        out.append(undecided('PARK-wake', 'floor:WaitingForPoll-park', 'no function parks the queue in WaitingForPoll (expected SchedulerFuture::drain_queue)'))
    return out


def relation_by_root(ctx, keep=()):
    """{named function: {(from, to, role)}} - non-identity transitions, closures attributed to the function they are rooted in."""
    rel = defaultdict(set)
    for (f, s, s2, role) in transitions(ctx):
        if s == s2:
            continue
        fo = ctx.F.fn(f)
        root = (fo.root or f) if fo is not None else f
        rel[root].add((s, s2, role))
    # a shared piece of the owners' exit sequence (a function that writes the state and is only ever called by a runner that holds the
    # queue): its transitions are its callers' transitions
    P = ctx.proto
    for h in sorted(getattr(P, 'owner_helpers', ())):
        if h not in rel or h in keep:
            continue
        callers = set()
        for (k_, fname, callee), v in P.events.items():
            if k_ == 'call' and callee == h:
                fo = ctx.F.fn(fname)
                callers.add((fo.root or fname) if fo is not None else fname)
        if callers:
            for c in callers:
                rel[c] |= rel[h]
            del rel[h]
    return rel


NARROWING_DECIDED_ELSEWHERE = ('desync::SchedulerCore::next_to_run', 'desync::SchedulerCore::claim_pending_queue', SYNC, SYNC_NP, POLL, TRY_SYNC)


def tr_base(ctx):
    """TR-base: the transition relation extracted from each protocol function is the reviewed one (dsa/tr_baseline.json): no transition was
    added (a state handled in a new way) and none disappeared (a state no longer handled).  Regression rule: the relation of the pinned tree
    is what PA-excl / PA-stuck / PA-wake and the TR rules were checked against."""
    import json
    import os
    out = _problems(ctx, 'TR-base')
    path = os.path.join(os.path.dirname(os.path.abspath(__file__)), 'tr_baseline.json')
    if not os.path.exists(path):
        return out + [undecided('TR-base', 'baseline', 'dsa/tr_baseline.json is missing')]
    base = json.load(open(path))['relation']
    cur = relation_by_root(ctx, keep=set(base))    # a reviewed function keeps its own entry; a new helper of the runners is read as part of them
    for root in sorted(set(base) | set(cur)):
        b = set(tuple(x) for x in base.get(root, []))
        c = set(cur.get(root, set()))
        key = short(root)
        if root not in base:
            if ctx.F.fn(root) is not None and c:
                out.append(bad('TR-base', key + '|new-writer', '%s now changes the queue state (%s): no function outside the reviewed set writes the state' % (short(root), ', '.join('%s->%s' % (a, d) for a, d, r in sorted(c))), fn=root))
            continue
        if ctx.F.fn(root) is None:
            continue        # the function is gone: an anchor question, asked elsewhere
        added = sorted(c - b)
        gone = sorted(b - c)
        # a function that already claims queues now also claims them from another state in which nobody holds the queue (a sync that takes a
        # parked queue over instead of waiting for it): exclusion is PA-excl's question and the claimer's obligations are the TOK rules',
        # both decided on the current code; the relation is not required to stay frozen for it
        if any(r == 'acquire' for (_, _, r) in b):
            widened = [(a, d, r) for (a, d, r) in added if r == 'acquire' and d == 'Running' and a in UNOWNED and a != 'Panicked']
            added = [x for x in added if x not in widened]
            if widened and not added and not gone:
                out.append(ok('TR-base', key, '%d transition(s) as reviewed; also claims from %s (an unowned state: decided by PA-excl and the TOK rules)' % (len(b), '/'.join(sorted(set(a for a, _, _ in widened)))), fn=root))
                continue
        # a claimer that no longer claims from one of its states: exclusion cannot suffer, and whether each claimer still claims what it exists
        # for is asked of every one of them by name (PARK-wake for next_to_run and claim_pending_queue, TR-defer for sync, sync_no_panic and
        # SchedulerFuture::poll, TR-sibling for try_sync)
        if root in NARROWING_DECIDED_ELSEWHERE:
            gone = [x for x in gone if not (x[2] == 'acquire' and any(y[2] == 'acquire' for y in c))]
        # a waker (or any non-runner) that used to hand a parked queue back as Idle - leaving it to reschedule_queue to mark it Pending - now
        # marks it Pending itself: the same hand-back, and what a Pending write owes (the schedule entry, the thread request) is TOK-pending's
        # question, what a woken queue owes the blocked sync callers is PARK-wake's and QD-waiters'
        direct = [(a, d, r) for (a, d, r) in added if r == 'nonowner' and d == 'Pending' and a in UNOWNED and a not in ('Pending', 'Panicked') and (a, 'Idle', 'nonowner') in gone]
        if direct:
            note = '; hands %s back as Pending itself instead of as Idle (decided by TOK-pending, PARK-wake)' % '/'.join(sorted(set(a for a, _, _ in direct)))
            added = [x for x in added if x not in direct]
            gone = [x for x in gone if not (x[1] == 'Idle' and x[2] == 'nonowner' and any(x[0] == a for a, _, _ in direct))]
            if not added and not gone:
                out.append(ok('TR-base', key, '%d transition(s) as reviewed%s' % (len(b), note), fn=root))
                continue
        if not added and not gone:
            out.append(ok('TR-base', key, '%d transition(s) as reviewed' % len(b), fn=root))
            continue
        for (a, d, r) in added[:3]:
            out.append(bad('TR-base', '%s|+%s->%s' % (key, a, d), '%s now moves a queue from %s to %s (%s write): this transition is not part of the reviewed protocol' % (short(root), a, d, r), fn=root))
        for (a, d, r) in gone[:3]:
            out.append(bad('TR-base', '%s|-%s->%s' % (key, a, d), '%s no longer moves a queue from %s to %s: a state the reviewed protocol handled here is now left as it is or handled differently' % (short(root), a, d), fn=root))
    return out
