use desync::scheduler::*;
use std::sync::*;
use std::sync::atomic::{AtomicUsize, AtomicBool, Ordering};
use std::thread;
use std::time::{Duration, Instant};
#[test]
fn d2_one_shot_pairs_no_pool() {
    let sched = Arc::new(Scheduler::new());
    sched.set_max_threads(0);
    sched.despawn_threads_if_overloaded();
    let iters = 3_000_000usize;
    let round = Arc::new(AtomicUsize::new(0));      // current round published by main
    let done  = Arc::new(AtomicUsize::new(0));      // number of finished syncs
    let slot: Arc<Mutex<Arc<JobQueue>>> = Arc::new(Mutex::new(queue()));
    let stop = Arc::new(AtomicBool::new(false));
    let mut hs = vec![];
    for t in 0..2usize {
        let (s, round, done, slot, stop) = (sched.clone(), round.clone(), done.clone(), slot.clone(), stop.clone());
        hs.push(thread::spawn(move || {
            let mut seen = 0;
            loop {
                while round.load(Ordering::Acquire) == seen { if stop.load(Ordering::Relaxed) { return; } std::hint::spin_loop(); }
                seen += 1;
                let q = slot.lock().unwrap().clone();
                if t == 0 { s.sync(&q, || { for _ in 0..(seen % 64) { std::hint::spin_loop(); } }); }
                else { for _ in 0..(seen % 97) { std::hint::spin_loop(); } s.sync(&q, || {}); }
                done.fetch_add(1, Ordering::Release);
            }
        }));
    }
    let start = Instant::now();
    for i in 0..iters {
        *slot.lock().unwrap() = queue();
        round.store(i+1, Ordering::Release);
        let t0 = Instant::now();
        while done.load(Ordering::Acquire) < 2*(i+1) {
            if t0.elapsed() > Duration::from_secs(3) {
                println!("D2 HANG at iteration {} after {:?}: queue = {:?}", i, start.elapsed(), slot.lock().unwrap());
                stop.store(true, Ordering::Relaxed);
                return;
            }
            std::hint::spin_loop();
        }
    }
    stop.store(true, Ordering::Relaxed);
    println!("D2 no hang in {} iterations ({:?})", iters, start.elapsed());
}
