use desync::scheduler::*;
use std::sync::*;
use std::sync::atomic::{AtomicUsize, AtomicBool, Ordering};
use std::thread;
use std::time::{Duration, Instant};
#[test]
fn d1_try_sync_window() {
    let sched = Arc::new(Scheduler::new());   // default pool
    let iters = 3_000_000usize;
    let round = Arc::new(AtomicUsize::new(0));
    let done  = Arc::new(AtomicUsize::new(0));
    let ran   = Arc::new(AtomicUsize::new(0));
    let slot: Arc<Mutex<Arc<JobQueue>>> = Arc::new(Mutex::new(queue()));
    let stop = Arc::new(AtomicBool::new(false));
    for t in 0..3usize {
        let (s, round, done, slot, stop, ran) = (sched.clone(), round.clone(), done.clone(), slot.clone(), stop.clone(), ran.clone());
        thread::spawn(move || {
            let mut seen = 0;
            loop {
                while round.load(Ordering::Acquire) == seen { if stop.load(Ordering::Relaxed) { return; } std::hint::spin_loop(); }
                seen += 1;
                let q = slot.lock().unwrap().clone();
                match t {
                    0 => { s.sync(&q, || { for _ in 0..(seen % 64) { std::hint::spin_loop(); } }); }
                    1 => { for _ in 0..(seen % 53) { std::hint::spin_loop(); } let ran = ran.clone(); s.desync(&q, move || { ran.fetch_add(1, Ordering::Release); }); }
                    _ => { for _ in 0..(seen % 97) { std::hint::spin_loop(); } let _ = s.try_sync(&q, || {}); }
                }
                done.fetch_add(1, Ordering::Release);
            }
        });
    }
    let start = Instant::now();
    for i in 0..iters {
        *slot.lock().unwrap() = queue();
        round.store(i+1, Ordering::Release);
        let t0 = Instant::now();
        while done.load(Ordering::Acquire) < 3*(i+1) || ran.load(Ordering::Acquire) < i+1 {
            if t0.elapsed() > Duration::from_secs(3) {
                println!("D1 STRANDED at iteration {} after {:?}: calls returned={} jobs ran={} queue = {:?}", i, start.elapsed(), done.load(Ordering::Acquire), ran.load(Ordering::Acquire), slot.lock().unwrap());
                stop.store(true, Ordering::Relaxed);
                return;
            }
            std::hint::spin_loop();
        }
    }
    stop.store(true, Ordering::Relaxed);
    println!("D1 nothing stranded in {} iterations ({:?})", iters, start.elapsed());
}
