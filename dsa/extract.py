"""Fact extraction: runs `cargo +nightly check` on a desync tree with the dsa-driver injected.

Every call re-extracts from the tree's *current* working copy: the member's cargo
fingerprint is removed first (a warm target directory would otherwise make cargo skip the
wrapper and replay old output), and the function fails closed if no fact file appears.
"""
import fcntl
import glob
import json
import os
import shutil
import subprocess
import sys
import time

VERIF = os.path.dirname(os.path.dirname(os.path.abspath(__file__)))
DRIVER = os.path.join(VERIF, 'driver', 'target', 'debug', 'dsa-driver')
CACHE = os.path.join(VERIF, '.cache')

CONFIGS = {
    # name: (cargo args, profile dir)
    'dev': (['--lib'], 'debug'),
    'release': (['--lib', '--release'], 'release'),
    'test': (['--lib', '--profile', 'test'], 'debug'),
}


class ExtractError(Exception):
    pass


def sysroot_lib():
    out = subprocess.run(['rustc', '+nightly', '--print', 'sysroot'], capture_output=True, text=True, check=True).stdout.strip()
    return os.path.join(out, 'lib')


def extract(repo='/repo', config='dev', target_dir=None, keep=False):
    """Returns (facts dict, info dict). Raises ExtractError when the tree does not build or no facts appear."""
    if not os.path.exists(DRIVER):
        raise ExtractError('driver not built: run ./setup.sh')
    args, profdir = CONFIGS[config]
    os.makedirs(CACHE, exist_ok=True)
    tdir = target_dir or os.path.join(CACHE, 'target')
    os.makedirs(tdir, exist_ok=True)
    out_dir = os.path.join(CACHE, 'facts')
    os.makedirs(out_dir, exist_ok=True)
    import threading
    out = os.path.join(out_dir, 'facts-%d-%d-%s.json' % (os.getpid(), threading.get_ident(), config))
    for p in (out, out + '.test'):
        if os.path.exists(p):
            os.remove(p)
    t0 = time.time()
    lock_path = os.path.join(tdir, '.dsa-lock')
    with open(lock_path, 'w') as lk:
        fcntl.flock(lk, fcntl.LOCK_EX)
        # force the wrapper to run again for the workspace member
        for fp in glob.glob(os.path.join(tdir, profdir, '.fingerprint', 'desync-*')):
            shutil.rmtree(fp, ignore_errors=True)
        env = dict(os.environ)
        env['LD_LIBRARY_PATH'] = sysroot_lib() + ':' + env.get('LD_LIBRARY_PATH', '')
        env['RUSTFLAGS'] = '-Awarnings'
        env['RUSTC_WORKSPACE_WRAPPER'] = DRIVER
        env['DSA_FACTS_OUT'] = out
        env['DSA_CRATE'] = 'desync'
        env['CARGO_TARGET_DIR'] = tdir
        env['CARGO_NET_OFFLINE'] = 'true'
        cmd = ['cargo', '+nightly', 'check', '--offline', '--quiet'] + args
        r = subprocess.run(cmd, cwd=repo, env=env, capture_output=True, text=True)
    path = out + '.test' if config == 'test' else out
    if r.returncode != 0:
        raise ExtractError('BUILD-FAILED (%s): %s' % (config, r.stderr[-3000:]))
    if not os.path.exists(path):
        raise ExtractError('no facts produced for config %s (wrapper skipped?)' % config)
    with open(path) as f:
        facts = json.load(f)
    if not keep:
        os.remove(path)
    if facts.get('crate') != 'desync':
        raise ExtractError('facts are for crate %r' % facts.get('crate'))
    info = {'config': config, 'repo': repo, 'extract_s': round(time.time() - t0, 2),
            'opt_level': facts.get('opt_level'), 'debug_assertions': facts.get('debug_assertions'),
            'target': facts.get('target'), 'is_test': facts.get('is_test')}
    return facts, info


if __name__ == '__main__':
    cfg = sys.argv[1] if len(sys.argv) > 1 else 'dev'
    repo = sys.argv[2] if len(sys.argv) > 2 else '/repo'
    facts, info = extract(repo, cfg, keep=True)
    print(json.dumps(info))
    dst = sys.argv[3] if len(sys.argv) > 3 else os.path.join(CACHE, 'facts-%s.json' % cfg)
    with open(dst, 'w') as f:
        json.dump(facts, f)
    print('wrote', dst, len(facts['fns']), 'bodies')
