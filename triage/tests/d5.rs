// D5: dropping PipeStream while producer is throttled by back-pressure, input silent afterwards
// D6: dropping PipeStream mid-loop (between closed check and notify_stream_closed registration)
use ::desync::{Desync, pipe, PipeStream};
use futures::prelude::*;
use futures::channel::mpsc;
use futures::task::{Context, Poll};
use std::pin::Pin;
use std::sync::*;
use std::sync::atomic::{AtomicUsize, Ordering};
use std::thread;
use std::time::Duration;

struct CountDrop<S>(S, Arc<AtomicUsize>);
impl<S> Drop for CountDrop<S> { fn drop(&mut self) { self.1.fetch_add(1, Ordering::SeqCst); } }
impl<S: Stream + Unpin> Stream for CountDrop<S> {
    type Item = S::Item;
    fn poll_next(mut self: Pin<&mut Self>, cx: &mut Context) -> Poll<Option<S::Item>> { self.0.poll_next_unpin(cx) }
}

#[test]
fn d5_drop_while_backpressured() {
    let drops = Arc::new(AtomicUsize::new(0));
    let obj = Arc::new(Desync::new(0u32));
    let (mut tx, rx) = mpsc::channel::<u32>(0);
    let input = CountDrop(rx, drops.clone());
    let mut out = pipe(Arc::clone(&obj), input, |v, x| { *v += x; future::ready(x).boxed() });
    out.set_backpressure_depth(1);
    // feed items one at a time so each arrives via a separate wake-up (separate poll job)
    for i in 0..4u32 {
        let _ = futures::executor::block_on(async { tx.try_send(i) });
        thread::sleep(Duration::from_millis(50));
        obj.sync(|_| {});
    }
    thread::sleep(Duration::from_millis(100));
    obj.sync(|_| {});
    // producer should now be throttled (1 pending, more waiting in channel). Drop output; input stays silent (tx kept alive, nothing sent)
    drop(out);
    thread::sleep(Duration::from_millis(500));
    obj.sync(|_| {});
    thread::sleep(Duration::from_millis(200));
    println!("D5 input stream drops after PipeStream drop (expect 1) = {}", drops.load(Ordering::SeqCst));
    println!("D5 strong refs on desync (expect 1) = {}", Arc::strong_count(&obj));
    drop(tx);
}

// input stream that drops the output PipeStream from inside poll_next, then stays pending forever
struct DropsOutput { kept: Option<std::task::Waker>, out: Arc<Mutex<Option<PipeStream<u32>>>>, armed: Arc<Mutex<bool>>, drops: Arc<AtomicUsize> }
impl Drop for DropsOutput { fn drop(&mut self) { self.drops.fetch_add(1, Ordering::SeqCst); } }
impl Stream for DropsOutput {
    type Item = u32;
    fn poll_next(mut self: Pin<&mut Self>, cx: &mut Context) -> Poll<Option<u32>> {
        self.kept = Some(cx.waker().clone());
        if *self.armed.lock().unwrap() {
            // consumer goes away right now: mid-loop position
            let taken = self.out.lock().unwrap().take();
            drop(taken);
            Poll::Pending
        } else {
            // first poll (inside pipe()): stay pending but remember waker so we can be polled once more
            let w = cx.waker().clone();
            let armed = self.armed.clone();
            thread::spawn(move || { thread::sleep(Duration::from_millis(100)); *armed.lock().unwrap() = true; w.wake(); });
            Poll::Pending
        }
    }
}

#[test]
fn d6_drop_mid_loop() {
    let drops = Arc::new(AtomicUsize::new(0));
    let obj = Arc::new(Desync::new(0u32));
    let slot = Arc::new(Mutex::new(None));
    let input = DropsOutput { kept: None, out: slot.clone(), armed: Arc::new(Mutex::new(false)), drops: drops.clone() };
    let out = pipe(Arc::clone(&obj), input, |v, x: u32| { *v += x; future::ready(x).boxed() });
    *slot.lock().unwrap() = Some(out);
    thread::sleep(Duration::from_millis(600));
    obj.sync(|_| {});
    thread::sleep(Duration::from_millis(300));
    println!("D6 output dropped = {}", slot.lock().unwrap().is_none());
    println!("D6 input stream drops (expect 1) = {}", drops.load(Ordering::SeqCst));
    println!("D6 strong refs on desync (expect 1) = {}", Arc::strong_count(&obj));
}
